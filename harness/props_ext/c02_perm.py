"""C02 extension, package "axis permutation rules" (tag `prm`): dask_array/manipulation/_transpose.py.

Model: lean/DaskArrayModel/Model/Perm.lean; driver family `prm.*` (Drv/Perm.lean).

PART 1, correspondence (model vs the REAL functions on the same inputs, one ctx.correspond per family):
  prm.compose        Transpose(Transpose(x, inner), outer)._simplify_down().axes    all pairs rank <= 4, random rank 5-6
  prm.identity       identity removal fires / does not fire                         all permutations rank <= 4
  prm.inverse        Transpose._inverse_axes                                        all rank <= 4, random 5-6
  prm.block_id       Transpose._input_block_id on block ids with distinct entries
  prm.shuffle_axis   Transpose._accept_shuffle on a real Shuffle above a real Transpose: axis of the pushed Shuffle
  prm.builder        da.swapaxes / da.moveaxis / da.rollaxis / Array.transpose: the permutation read off the shape of
                     the result on an array with distinct axis lengths (2,3,5,7,11,13), exceptions as `err <Class>`;
                     NumPy is called with the same arguments (search side: value / refusal comparison)
  prm.elemwise_split Transpose._pushdown_through_elemwise on real Elemwise nodes built through the public API
                     (operands of the full rank, of LOWER rank incl. 0-d dask arrays, Python scalars; where= / out=)
                     plus, per case, optimized compute of Transpose(e, axes) against NumPy.
  Every disagreement is lifted to the public API (values against NumPy); a disagreement alone is never a failure.
PART 2, search (oracle NumPy, independent of the model): programs of 2-4 CONSECUTIVE permutation steps (transpose with
  possibly negative axes, .T, swapaxes, moveaxis, rollaxis; non-involutions favoured) followed by 0-2 consumers (take with
  an unsorted index list, basic slices with ints / steps / negative steps, elemwise with a lower-rank broadcasting operand,
  da.where with a lower-rank mask, elemwise with a transposed same-rank operand, np.add(y, v, where=m, out=o)) and possibly
  one more permutation, on cubic and distinct-size shapes with uneven chunks: optimized compute, rewrite-free evaluation
  (rawfree.raw_eval) and NumPy must agree exactly.
Every failing case is a JSON dict `{"prm": 1, "kind": ...}` replayed by `run(ctx, {"case": case})`.
"""
from __future__ import annotations

import itertools
import random
import time
import warnings

import numpy as np

from harness.core import err_name, f_list
from harness.props_ext.rawfree import raw_eval

PRIMES = (2, 3, 5, 7, 11, 13)
MAX_LIFTS = 40


# --------------------------------------------------------------------------- small helpers

def _mods():
    import dask_array as da
    from dask_array._blockwise import Elemwise
    from dask_array._core_utils import is_scalar_for_elemwise
    from dask_array._new_collection import new_collection
    from dask_array.manipulation._transpose import Transpose

    return da, Transpose, Elemwise, new_collection, is_scalar_for_elemwise


def f_axes_arg(v):
    """an int or a sequence of ints as an int-list token"""
    if isinstance(v, (list, tuple)):
        return f_list(v)
    return str(int(v))


def p_list(tok):
    return [] if tok == "_" else [int(t) for t in tok.split(",")]


def is_involution(p):
    return all(p[p[i]] == i for i in range(len(p)))


def rand_perm(rng, n, want_long=True):
    """a random permutation of range(n); with want_long mostly one that is not an involution (rank >= 3)"""
    p = list(range(n))
    for _ in range(6):
        rng.shuffle(p)
        if n < 3 or not want_long or not is_involution(p) or rng.random() < 0.15:
            break
    return list(p)


def rand_chunks(rng, size, maxparts=3):
    """a random composition of `size` into 1..maxparts positive parts (uneven allowed)"""
    if size <= 1:
        return [size]
    k = rng.randint(1, min(size, maxparts))
    if k == 1:
        return [size]
    cuts = sorted(rng.sample(range(1, size), k - 1))
    return [b - a for a, b in zip([0] + cuts, cuts + [size])]


def two_chunks(size):
    return [size] if size < 2 else [size - size // 2, size // 2]


def data(shape, mul=1, off=0):
    shape = tuple(int(s) for s in shape)
    n = int(np.prod(shape)) if shape else 1
    return (np.arange(n, dtype=np.int64) * mul + off).reshape(shape)


def mask_data(shape, mul=1, off=0):
    return (data(shape, mul, off) % 3) != 1


def dask_of(a, chunks):
    da = _mods()[0]
    if a.ndim == 0:
        return da.from_array(a, chunks=())
    return da.from_array(a, chunks=tuple(tuple(c) for c in chunks))


def perm_from_shape(result_shape, n):
    base = list(PRIMES[:n])
    return [base.index(s) for s in result_shape]


def same(a, b):
    a = np.asarray(a)
    b = np.asarray(b)
    return a.shape == b.shape and bool(np.array_equal(a, b))


def brief(a):
    a = np.asarray(a)
    return f"shape={a.shape} head={a.ravel()[:6].tolist()}"


def branch_key(req, model):
    t = req.split()
    cmd = t[0]
    if cmd == "prm.builder":
        cmd += ":" + t[1]
        rank = t[2]
        extra = ""
        if t[1] == "moveaxis":
            extra = f"{len(p_list(t[3]))}/{len(p_list(t[4]))}"
        elif t[1] == "transpose":
            extra = "N" if t[3] == "N" else ("neg" if "-" in t[3] else "pos")
    else:
        rank = 0 if t[1] == "_" else len(t[1].split(","))
        extra = ""
        if cmd == "prm.elemwise_split":
            extra = " ".join(t[2:])
    m = model.split()
    if model == "ok decline":
        res = "decline"
    elif m and m[0] == "err":
        res = model
    else:
        res = m[0] if m else ""
    return (cmd, rank, extra, res)


# --------------------------------------------------------------------------- PART 1: simple families

def zeros_of_rank(n):
    da = _mods()[0]
    return da.from_array(np.zeros((2,) * n), chunks=(1,) * n)


def perms_for(ctx, rng, exhaustive_upto=4, ranks=(1, 2, 3, 4, 5, 6), nrand=None):
    nrand = ctx.scale(150, 1500) if nrand is None else nrand
    for n in ranks:
        if n <= exhaustive_upto:
            for p in itertools.permutations(range(n)):
                yield n, list(p)
        else:
            for _ in range(nrand):
                yield n, rand_perm(rng, n, want_long=False)


def impl_compose(x, inner, outer):
    _, Transpose, *_ = _mods()
    try:
        r = Transpose(Transpose(x.expr, tuple(inner)), tuple(outer))._simplify_down()
        if not isinstance(r, Transpose):
            return "ok unexpected:" + type(r).__name__
        return "ok " + f_list(r.axes)
    except Exception as e:  # noqa: BLE001
        return err_name(e)


def fam_compose(ctx, rng):
    pairs = []
    xs = {n: zeros_of_rank(n) for n in range(1, 7)}
    for n in (1, 2, 3, 4):
        ps = [list(p) for p in itertools.permutations(range(n))]
        for a in ps:
            for b in ps:
                pairs.append((f"prm.compose {f_list(a)} {f_list(b)}", impl_compose(xs[n], a, b)))
    for n in (5, 6):
        for _ in range(ctx.scale(150, 1500)):
            a, b = rand_perm(rng, n), rand_perm(rng, n)
            pairs.append((f"prm.compose {f_list(a)} {f_list(b)}", impl_compose(xs[n], a, b)))
    return pairs


def fam_identity(ctx, rng):
    _, Transpose, *_ = _mods()
    pairs = []
    for n, p in perms_for(ctx, rng, ranks=(1, 2, 3, 4)):
        x = zeros_of_rank(n)
        try:
            r = Transpose(x.expr, tuple(p))._simplify_down()
            impl = "ok 1" if r is x.expr else "ok 0"
        except Exception as e:  # noqa: BLE001
            impl = err_name(e)
        pairs.append((f"prm.identity {f_list(p)} {n}", impl))
    return pairs


def fam_inverse(ctx, rng):
    _, Transpose, *_ = _mods()
    pairs = []
    xs = {n: zeros_of_rank(n) for n in range(1, 7)}
    for n, p in perms_for(ctx, rng):
        try:
            impl = "ok " + f_list(Transpose(xs[n].expr, tuple(p))._inverse_axes)
        except Exception as e:  # noqa: BLE001
            impl = err_name(e)
        pairs.append((f"prm.inverse {f_list(p)}", impl))
    return pairs


def fam_block_id(ctx, rng):
    _, Transpose, *_ = _mods()
    pairs = []
    xs = {n: zeros_of_rank(n) for n in range(1, 7)}
    for n, p in perms_for(ctx, rng, nrand=ctx.scale(100, 1000)):
        bid = rng.sample(range(0, 40), n)
        try:
            impl = "ok " + f_list(Transpose(xs[n].expr, tuple(p))._input_block_id(None, tuple(bid)))
        except Exception as e:  # noqa: BLE001
            impl = err_name(e)
        pairs.append((f"prm.block_id {f_list(p)} {f_list(bid)}", impl))
    return pairs


def unsorted_index(size):
    """an index list over range(size) that is neither sorted nor an arange"""
    if size == 1:
        return [0, 0]
    return list(range(size))[::-1] + [0]


def shuffle_program(axes, k, shape=None, chunked=True):
    """(z, NumPy result) with z = x.transpose(axes)[:, ..., idx]; default shape: the distinct primes"""
    n = len(axes)
    shape = PRIMES[:n] if shape is None else tuple(shape)
    xn = data(shape)
    x = dask_of(xn, [two_chunks(s) if chunked else [s] for s in shape])
    y = x.transpose(tuple(axes))
    idx = unsorted_index(y.shape[k])
    z = y[(slice(None),) * k + (idx,)]
    want = np.transpose(xn, axes)[(slice(None),) * k + (idx,)]
    return z, want


def fam_shuffle_axis(ctx, rng):
    _, Transpose, *_ = _mods()
    pairs = []
    skipped = 0
    todo = []
    for n, p in perms_for(ctx, rng, nrand=0, ranks=(1, 2, 3, 4)):
        todo += [(p, k) for k in range(n)]
    for n in (5, 6):
        for _ in range(ctx.scale(40, 400)):
            todo.append((rand_perm(rng, n), rng.randrange(n)))
    for p, k in todo:
        try:
            z, _ = shuffle_program(p, k)
            e = z.expr
            if type(e).__name__ != "Shuffle" or not isinstance(e.array, Transpose):
                skipped += 1
                continue
            r = e.array._accept_shuffle(e)
            if isinstance(r, Transpose) and type(r.array).__name__ == "Shuffle":
                impl = f"ok {int(r.array.axis)}"
            else:
                impl = "ok unexpected:" + type(r).__name__
        except Exception as ex:  # noqa: BLE001
            impl = err_name(ex)
        pairs.append((f"prm.shuffle_axis {f_list(p)} {k}", impl))
    ctx.notes["prm.shuffle_axis.skipped-not-shuffle-over-transpose"] = skipped
    return pairs


# --------------------------------------------------------------------------- PART 1: builders

def builder_call(lib, fn, x, args):
    """the same call on dask (lib = dask_array) or NumPy"""
    if fn == "swapaxes":
        return lib.swapaxes(x, args[0], args[1])
    if fn == "moveaxis":
        return lib.moveaxis(x, args[0], args[1])
    if fn == "rollaxis":
        return lib.rollaxis(x, args[0], args[1])
    if fn == "transpose":
        if lib is np:
            return np.transpose(x) if args[0] is None else np.transpose(x, tuple(args[0]))
        return x.transpose() if args[0] is None else x.transpose(tuple(args[0]))
    raise ValueError(fn)


def builder_request(fn, n, args):
    if fn == "transpose":
        return f"prm.builder transpose {n} " + ("N" if args[0] is None else f_list(args[0]))
    return f"prm.builder {fn} {n} {f_axes_arg(args[0])} {f_axes_arg(args[1])}"


def builder_case(fn, n, args):
    return {"prm": 1, "kind": "builder", "fn": fn, "n": n, "args": [a if not isinstance(a, tuple) else list(a) for a in args]}


def check_builder(ctx, fn, n, args, values=True):
    """returns the implementation's canonical output; compares with NumPy on the way (search side)"""
    da = _mods()[0]
    shape = PRIMES[:n]
    xn = data(shape)
    x = da.from_array(xn, chunks=shape)
    case = builder_case(fn, n, args)
    ctx.count(("prm.builder-np", fn, n))
    got = err = None
    try:
        with warnings.catch_warnings():
            warnings.simplefilter("ignore")
            got = builder_call(da, fn, x, args)
            gshape = tuple(int(s) for s in got.shape)
        impl = "ok " + f_list(perm_from_shape(gshape, n))
    except Exception as e:  # noqa: BLE001
        err = e
        impl = err_name(e)
    want = nerr = None
    try:
        with warnings.catch_warnings():
            warnings.simplefilter("ignore")
            want = builder_call(np, fn, xn, args)
    except Exception as e:  # noqa: BLE001
        nerr = e
    if err is None and nerr is None:
        if gshape != want.shape:
            ctx.fail(f"prm:builder-differs-from-numpy:{fn}", case,
                     f"da.{fn}{tuple(args)} on shape {shape}: result shape {gshape}, NumPy {want.shape}")
        elif values:
            try:
                val = np.asarray(got.compute())
            except Exception as e:  # noqa: BLE001
                ctx.fail(f"prm:builder-compute-raises:{fn}", case, f"da.{fn}{tuple(args)} on shape {shape}: compute raises {e!r}")
            else:
                if not same(val, want):
                    ctx.fail(f"prm:builder-differs-from-numpy:{fn}", case,
                             f"da.{fn}{tuple(args)} on shape {shape}: values differ from NumPy ({brief(val)} vs {brief(want)})")
    elif err is not None and nerr is None:
        ctx.fail(f"prm:builder-raises-where-numpy-succeeds:{fn}", case,
                 f"da.{fn}{tuple(args)} on shape {shape} raises {err!r}; NumPy returns shape {want.shape}")
    elif err is None and nerr is not None:
        d = ctx.notes.setdefault("prm.builder-accepts-where-numpy-refuses", {})
        d[fn] = d.get(fn, 0) + 1
        kind = "equal-arguments" if (len(args) == 2 and args[0] == args[1]) else "other"
        ex = ctx.notes.setdefault("prm.builder-accepts-where-numpy-refuses.examples", {})
        if n >= 3 or fn != "swapaxes":
            ex.setdefault(f"{fn}:{kind}", f"da.{fn}(x{shape}, {', '.join(map(repr, args))}) -> shape {gshape}; NumPy: {type(nerr).__name__}")
    return impl


def negate_some(rng, p, n):
    return [a - n if rng.random() < 0.4 else a for a in p]


def gen_builder_args(ctx, rng):
    """(fn, n, args) triples; exhaustive over small ranges for rank <= 4, random for 5-6"""
    out = []
    nr = ctx.scale(25, 250)
    for n in (1, 2, 3, 4, 5, 6):
        small = n <= 4
        rng_ax = list(range(-n - 2, n + 2))
        # swapaxes
        if small:
            out += [("swapaxes", n, (a, b)) for a in rng_ax for b in rng_ax]
        else:
            out += [("swapaxes", n, (rng.choice(rng_ax), rng.choice(rng_ax))) for _ in range(nr)]
        # moveaxis, ints
        ax1 = list(range(-n - 1, n + 1))
        if small:
            out += [("moveaxis", n, (a, b)) for a in ax1 for b in ax1]
        else:
            out += [("moveaxis", n, (rng.choice(ax1), rng.choice(ax1))) for _ in range(nr)]
        # moveaxis, sequences (valid ones, repeated axes, out of range, length mismatch, int against sequence)
        for _ in range(ctx.scale(30, 300) if n >= 2 else 6):
            ls = rng.randint(0 if rng.random() < 0.05 else 1, min(3, n))
            r = rng.random()
            if r < 0.7:
                src = negate_some(rng, rng.sample(range(n), ls), n)
                dst = negate_some(rng, rng.sample(range(n), ls), n)
            elif r < 0.8:
                src = [rng.choice(ax1) for _ in range(ls)]
                dst = [rng.choice(ax1) for _ in range(ls)]
            elif r < 0.9:
                src = negate_some(rng, rng.sample(range(n), ls), n)
                dst = negate_some(rng, rng.sample(range(n), rng.randint(0, min(3, n))), n)
            else:
                src = negate_some(rng, [rng.randrange(n) for _ in range(ls)], n)
                dst = negate_some(rng, [rng.randrange(n) for _ in range(ls)], n)
            a, b = list(src), list(dst)
            if len(a) == 1 and rng.random() < 0.3:
                a = a[0]
            if isinstance(b, list) and len(b) == 1 and rng.random() < 0.3:
                b = b[0]
            out.append(("moveaxis", n, (a, b)))
        # rollaxis
        starts = list(range(-n - 1, n + 2))
        if small:
            out += [("rollaxis", n, (a, s)) for a in ax1 for s in starts]
        else:
            out += [("rollaxis", n, (rng.choice(ax1), rng.choice(starts))) for _ in range(nr)]
        # transpose
        out.append(("transpose", n, (None,)))
        if n <= 2:
            out.append(("transpose", n, ([],)))
        if n <= 3:
            for p in itertools.permutations(range(n)):
                out.append(("transpose", n, (list(p),)))
                out.append(("transpose", n, (negate_some(rng, list(p), n),)))
                out.append(("transpose", n, ([a - n for a in p],)))
        else:
            for _ in range(nr):
                out.append(("transpose", n, (negate_some(rng, rand_perm(rng, n), n),)))
        for _ in range(3):
            ln = rng.choice([k for k in range(1, n + 3) if k != n])
            out.append(("transpose", n, ([rng.randrange(-n, n) for _ in range(ln)],)))
    return out


def fam_builder(ctx, rng):
    pairs = []
    frac = ctx.scale(0.3, 1.0)
    for fn, n, args in gen_builder_args(ctx, rng):
        impl = check_builder(ctx, fn, n, args, values=rng.random() < frac)
        pairs.append((builder_request(fn, n, args), impl))
    return pairs


# --------------------------------------------------------------------------- PART 1: transpose through elemwise

UFUNCS2 = ("add", "subtract", "maximum")


def lower_shape(rng, shape, r):
    s = list(shape[len(shape) - r:]) if r else []
    return [1 if rng.random() < 0.15 else v for v in s]


def gen_elemwise_case(rng):
    n = rng.randint(1, 4)
    cubic = rng.random() < 0.3
    shape = [3] * n if cubic else list(rng.sample(PRIMES[:5], n) if n > 1 else [rng.choice((3, 5))])
    if int(np.prod(shape)) > 400:
        shape = [min(s, 5) for s in shape] if cubic else sorted(PRIMES[:n], key=lambda _: rng.random())
    axes = rand_perm(rng, n)
    uf = rng.choice(("negative", "add", "add", "subtract", "maximum", "where3"))
    nops = {"negative": 1, "where3": 3}.get(uf, 2)
    full = rng.randrange(nops)
    ops = []
    for k in range(nops):
        r = rng.random()
        if k == full or r < 0.35:
            s = list(shape)
        elif r < 0.75:
            s = lower_shape(rng, shape, rng.randint(0, n - 1))
        elif uf == "where3" and k == 0:
            s = lower_shape(rng, shape, rng.randint(0, n - 1))
        else:
            ops.append({"t": "py", "v": rng.randint(2, 9)})
            continue
        ops.append({"t": "arr", "shape": s, "chunks": [rand_chunks(rng, v) for v in s], "p": [rng.randint(1, 5), rng.randint(0, 7)]})
    where = out = None
    if uf != "where3":
        r = rng.random()
        if n >= 2 and r < 0.2:
            # the class "only the mask broadcasts": every array operand of the full rank, where= of lower rank
            for o in ops:
                if o["t"] == "arr" and len(o["shape"]) != n:
                    o["shape"] = list(shape)
                    o["chunks"] = [rand_chunks(rng, v) for v in shape]
            s = lower_shape(rng, shape, rng.randint(1, n - 1))
        elif r < 0.4:
            s = list(shape)
        elif r < 0.55:
            s = lower_shape(rng, shape, rng.randint(0, n - 1))
        else:
            s = None
        if s is not None:
            where = {"shape": s, "chunks": [rand_chunks(rng, v) for v in s], "p": [rng.randint(1, 5), rng.randint(0, 7)]}
        if rng.random() < 0.35:
            out = {"chunks": [rand_chunks(rng, v) for v in shape]}
    return {"prm": 1, "kind": "elemwise", "shape": shape, "axes": axes, "uf": uf, "ops": ops, "where": where, "out": out,
            "via": rng.choice(("np", "da"))}


def build_elemwise(case):
    """(dask collection z whose expr is the Elemwise, NumPy result, defined-mask or None)"""
    da = _mods()[0]
    shape = tuple(case["shape"])
    dops, nops = [], []
    for o in case["ops"]:
        if o["t"] == "py":
            dops.append(o["v"])
            nops.append(o["v"])
        else:
            a = data(o["shape"], *o["p"])
            nops.append(a)
            dops.append(dask_of(a, o["chunks"]))
    uf = case["uf"]
    if uf == "where3":
        # the condition is a source of its own (a boolean from_array), never a Python scalar
        cn = (np.asarray(nops[0]) % 2) == 0
        cd = dask_of(cn, case["ops"][0]["chunks"])
        z = da.where(cd, dops[1], dops[2])
        return z, np.where(cn, nops[1], nops[2]), None
    kw_d, kw_n = {}, {}
    defined = None
    if case["where"] is not None:
        w = case["where"]
        mn = mask_data(w["shape"], *w["p"])
        kw_d["where"] = dask_of(mn, w["chunks"])
        kw_n["where"] = mn
        defined = np.broadcast_to(mn, shape)
    if case["out"] is not None:
        on = data(shape, -1, -1)
        o = dask_of(on.copy(), case["out"]["chunks"])
        kw_d["out"] = o
        kw_n["out"] = on.copy()
        defined = None
    f_np = getattr(np, uf)
    f_da = getattr(da, uf) if case["via"] == "da" else f_np
    with warnings.catch_warnings():
        warnings.simplefilter("ignore")
        z = f_da(*dops, **kw_d)
        want = f_np(*nops, **kw_n)
    if case["out"] is not None:
        z = kw_d["out"]
    return z, want, defined


def describe_split(e, r):
    _, Transpose, _, _, is_scalar = _mods()
    if r is None:
        return "ok decline"

    def one(new, old):
        if new is old:
            return "N"
        if isinstance(new, Transpose) and (new.array is old or getattr(new.array, "_name", 0) == getattr(old, "_name", 1)):
            return f_list(new.axes)
        if not hasattr(old, "ndim") and not hasattr(new, "ndim"):
            try:
                return "N" if bool(new == old) else "?"
            except Exception:  # noqa: BLE001
                return "?"
        return "?" + type(new).__name__

    if type(r).__name__ != "Elemwise":
        return "ok unexpected:" + type(r).__name__
    olds, news = list(e.elemwise_args), list(r.elemwise_args)
    if len(olds) != len(news):
        return f"ok unexpected-arity:{len(news)}"
    parts = ";".join(one(nw, od) for nw, od in zip(news, olds)) if olds else "-"
    return f"ok {parts} w={one(r.where, e.where)} o={one(r.out, e.out)}"


def elemwise_request(e, axes):
    is_scalar = _mods()[4]
    args = ";".join("s" if is_scalar(a) else str(int(a.ndim)) for a in e.elemwise_args) or "-"
    w = str(int(e.where.ndim)) if hasattr(e.where, "ndim") else "N"
    o = str(int(e.out.ndim)) if hasattr(e.out, "ndim") else "N"
    return f"prm.elemwise_split {f_list(axes)} {args} {w} {o}"


def check_elemwise(ctx, case, want_pair=True):
    """the correspondence pair (or None when the case cannot be built) and the NumPy lift of Transpose(e, axes)"""
    _, Transpose, Elemwise, new_collection, _ = _mods()
    axes = tuple(case["axes"])
    try:
        z, want, defined = build_elemwise(case)
    except Exception as e:  # noqa: BLE001
        d = ctx.notes.setdefault("prm.elemwise.build-refused", {})
        d[type(e).__name__] = d.get(type(e).__name__, 0) + 1
        return None
    e = z.expr
    if not isinstance(e, Elemwise) or e.ndim != len(axes):
        ctx.notes["prm.elemwise.not-an-elemwise"] = ctx.notes.get("prm.elemwise.not-an-elemwise", 0) + 1
        return None
    pair = None
    try:
        req = elemwise_request(e, axes)
        try:
            impl = describe_split(e, Transpose(e, axes)._pushdown_through_elemwise())
        except Exception as ex:  # noqa: BLE001
            impl = err_name(ex)
        pair = (req, impl)
    except Exception as ex:  # noqa: BLE001
        ctx.notes["prm.elemwise.request-error"] = repr(ex)
    # lift: optimized compute of the transposed elemwise against NumPy
    ctx.count(("prm.elemwise-lift", len(axes), case["uf"], case["where"] is not None, case["out"] is not None,
               tuple("s" if o["t"] == "py" else len(o["shape"]) for o in case["ops"])))
    wantT = np.transpose(np.broadcast_to(want, tuple(case["shape"])), axes)
    defT = None if defined is None else np.transpose(defined, axes)

    def ok(v):
        v = np.asarray(v)
        if v.shape != wantT.shape:
            return False
        return bool(np.array_equal(v, wantT)) if defT is None else bool(np.array_equal(v[defT], wantT[defT]))

    t = new_collection(Transpose(e, axes))
    try:
        with warnings.catch_warnings():
            warnings.simplefilter("ignore")
            got = np.asarray(t.compute())
    except Exception as ex:  # noqa: BLE001
        try:
            raw = raw_eval(Transpose(e, axes))
            raw_ok = ok(raw)
        except Exception as ex2:  # noqa: BLE001
            d = ctx.notes.setdefault("prm.elemwise.raises-also-rewrite-free", {})
            d[type(ex2).__name__] = d.get(type(ex2).__name__, 0) + 1
            ctx.notes.setdefault("prm.elemwise.raises-also-rewrite-free.example", {"case": case, "error": repr(ex2)[:200]})
            return pair
        if raw_ok:
            ctx.fail(f"prm:elemwise-transpose-raises:{type(ex).__name__}", case,
                     f"transpose{axes} of the elemwise: optimized compute raises {ex!r}; the rewrite-free form equals NumPy")
        return pair
    if not ok(got):
        ctx.fail("prm:elemwise-transpose-differs", case,
                 f"transpose{axes} of the elemwise: optimized {brief(got)}; NumPy {brief(wantT)}"
                 + ("" if defT is None else " (compared where the mask is True)"))
    return pair


def fam_elemwise(ctx, rng, store):
    pairs = []
    for _ in range(ctx.scale(140, 1400)):
        case = gen_elemwise_case(rng)
        pair = check_elemwise(ctx, case)
        if pair is not None:
            pairs.append(pair)
            store.setdefault(pair[0], case)
    return pairs


# --------------------------------------------------------------------------- lifts of disagreements

def lift_shape(n):
    return PRIMES[:n]


def lift(ctx, fam, req, store=None):
    """evaluate the disagreeing input on the public API against NumPy (distinct-size AND cubic shape, >= 2 chunks per axis)"""
    t = req.split()
    case = {"prm": 1, "kind": "lift", "family": fam, "request": req}
    sig = f"prm:lift:{fam}"
    ctx.count(("prm.lift", fam))
    if fam == "prm.builder":
        fn, n = t[1], int(t[2])
        if fn == "transpose":
            args = (None if t[3] == "N" else p_list(t[3]),)
        else:
            args = tuple(p_list(v) if ("," in v or v == "_") else int(v) for v in t[3:5])
        check_builder(ctx, fn, n, args, values=True)  # reports by itself (NumPy comparison with values)
        return
    if fam == "prm.elemwise_split":
        # the NumPy comparison of this very case already ran in check_elemwise and reports by itself
        return
    progs = []  # (text, thunk building the dask array, NumPy result)
    if fam == "prm.compose":
        inner, outer = tuple(p_list(t[1])), tuple(p_list(t[2]))
        for shape in (lift_shape(len(inner)), (3,) * len(inner)):
            xn = data(shape)
            progs.append((f"x{tuple(shape)}.transpose({inner}).transpose({outer})",
                          lambda xn=xn: dask_of(xn, [two_chunks(s) for s in xn.shape]).transpose(inner).transpose(outer),
                          xn.transpose(inner).transpose(outer)))
    elif fam == "prm.shuffle_axis":
        axes, k = p_list(t[1]), int(t[2])
        for shape in (lift_shape(len(axes)), (3,) * len(axes)):
            progs.append((f"x{tuple(shape)}.transpose({tuple(axes)})[{':, ' * k}<reversed positions + [0]>]",
                          lambda shape=shape: shuffle_program(axes, k, shape)[0], shuffle_program(axes, k, shape)[1]))
    elif fam in ("prm.inverse", "prm.block_id", "prm.identity"):
        # `_inverse_axes` / `_input_block_id` are only consulted when the Transpose sits in a fused chain
        axes = tuple(p_list(t[1]))
        for shape in (lift_shape(len(axes)), (3,) * len(axes)):
            xn = data(shape)
            mk = lambda xn=xn: dask_of(xn, [two_chunks(s) for s in xn.shape])  # noqa: E731
            progs.append((f"x{tuple(shape)}.transpose({axes})", lambda mk=mk: mk().transpose(axes), xn.transpose(axes)))
            progs.append((f"x{tuple(shape)}.transpose({axes}) + 1", lambda mk=mk: mk().transpose(axes) + 1, xn.transpose(axes) + 1))
            progs.append((f"((-x{tuple(shape)}).transpose({axes}) * 2)", lambda mk=mk: (-mk()).transpose(axes) * 2,
                          (-xn).transpose(axes) * 2))
    for text, thunk, want in progs:
        try:
            with warnings.catch_warnings():
                warnings.simplefilter("ignore")
                got = np.asarray(thunk().compute())
        except Exception as e:  # noqa: BLE001
            ctx.fail(sig + f":raises:{type(e).__name__}", case, f"{req}: {text} (2 chunks per axis) raises {e!r}; NumPy gives shape {want.shape}")
            continue
        if not same(got, want):
            ctx.fail(sig, case, f"{req}: {text} (2 chunks per axis): optimized {brief(got)}; NumPy {brief(want)}")


def lift_disagreements(ctx, store, start=0):
    done = {}
    for d in ctx.disagreements[start:]:
        fam = d.get("family", "")
        if not fam.startswith("prm."):
            continue
        if done.get(fam, 0) >= MAX_LIFTS:
            continue
        done[fam] = done.get(fam, 0) + 1
        lift(ctx, fam, d["request"], store)
    if done:
        ctx.notes["prm.lifted-disagreements"] = done
        ctx.notes["targeted_search"] = (ctx.notes.get("targeted_search", "") + " prm: lifted disagreeing inputs to the public API "
                                        f"against NumPy {done}").strip()


# --------------------------------------------------------------------------- PART 2: programs

PERM_OPS = ("transpose", "T", "swapaxes", "moveaxis", "rollaxis")


def gen_perm_step(rng, n):
    """one permutation step on rank n, favouring cycles of length >= 3"""
    if n == 1:
        return rng.choice([{"op": "T"}, {"op": "transpose", "axes": [rng.choice((0, -1))]}])
    r = rng.random()
    if r < 0.4:
        return {"op": "transpose", "axes": negate_some(rng, rand_perm(rng, n), n)}
    if r < 0.5:
        return {"op": "T"}
    if r < 0.6:
        a, b = rng.sample(range(n), 2)
        return {"op": "swapaxes", "a": a - n if rng.random() < 0.3 else a, "b": b - n if rng.random() < 0.3 else b}
    if r < 0.85:
        if n >= 3 and rng.random() < 0.4:
            k = rng.randint(2, min(3, n))
            src, dst = rng.sample(range(n), k), rng.sample(range(n), k)
            return {"op": "moveaxis", "src": negate_some(rng, src, n), "dst": negate_some(rng, dst, n)}
        for _ in range(4):
            a, b = rng.sample(range(n), 2)
            if abs(a - b) >= 2 or n < 3:
                break
        return {"op": "moveaxis", "src": a - n if rng.random() < 0.3 else a, "dst": b - n if rng.random() < 0.3 else b}
    for _ in range(4):
        a, s = rng.randrange(n), rng.randint(0, n)
        if abs(a - s) >= 2 or n < 3:
            break
    return {"op": "rollaxis", "axis": a - n if rng.random() < 0.3 else a, "start": s - n if (s < n and rng.random() < 0.2) else s}


def gen_slice_axis(rng, size):
    r = rng.random()
    if r < 0.25:
        return [None, None, None]
    step = rng.choice((1, 1, 2, 3, -1, -1, -2))
    for _ in range(8):
        a = rng.choice([None] + list(range(-size, size)))
        b = rng.choice([None] + list(range(-size - 1, size + 1)))
        if len(range(*slice(a, b, step).indices(size))) > 0:
            return [a, b, step]
    return [None, None, step]


def gen_consumer(rng, shape):
    """one consumer step for the current shape (rank >= 1)"""
    n = len(shape)
    kinds = ["take", "take", "slice", "slice", "add_lower", "add_lower", "where_lower", "add_transposed", "ufunc_where_out"]
    kind = rng.choice(kinds)
    if kind == "take":
        k = rng.randrange(n)
        size = shape[k]
        ln = rng.randint(2, size + 2)
        idx = [rng.randrange(size) for _ in range(ln)]
        if idx == sorted(idx):
            idx = idx[::-1] if idx[0] != idx[-1] else idx
        return {"op": "take", "axis": k - n if rng.random() < 0.2 else k, "idx": idx, "via": rng.choice(("getitem", "take"))}
    if kind == "slice":
        index = []
        ints = 0
        for s in shape:
            if rng.random() < 0.22 and ints < n - 1:
                index.append(rng.randrange(-s, s))
                ints += 1
            else:
                index.append(gen_slice_axis(rng, s))
        if rng.random() < 0.3:
            while index and index[-1] == [None, None, None]:
                index.pop()
        return {"op": "slice", "index": index}
    if kind in ("add_lower", "where_lower"):
        r = rng.randint(0, n - 1)
        s = lower_shape(rng, shape, r)
        st = {"op": kind, "shape": s, "chunks": [rand_chunks(rng, v) for v in s], "p": [rng.randint(1, 4), rng.randint(0, 5)]}
        if kind == "add_lower":
            st["f"] = rng.choice(("add", "subtract", "multiply"))
            st["side"] = rng.choice(("l", "r"))
        else:
            st["c"] = rng.randint(-9, -1)
        return st
    if kind == "add_transposed":
        p = rand_perm(rng, n)
        wshape = [0] * n
        for k in range(n):
            wshape[p[k]] = shape[k]
        return {"op": "add_transposed", "axes": p, "chunks": [rand_chunks(rng, v) for v in wshape], "p": [rng.randint(1, 4), rng.randint(0, 5)]}
    # np.add(y, v, where=m, out=o): out= given, so every position is defined
    rm = rng.randint(max(0, n - 2), n)
    ms = lower_shape(rng, shape, rm) if rm < n else list(shape)
    if rng.random() < 0.5:
        v = {"t": "py", "v": rng.randint(2, 9)}
    else:
        rv = rng.randint(1, n)
        vs = lower_shape(rng, shape, rv) if rv < n else list(shape)
        v = {"t": "arr", "shape": vs, "chunks": [rand_chunks(rng, s) for s in vs], "p": [rng.randint(1, 4), rng.randint(0, 5)]}
    return {"op": "ufunc_where_out", "v": v, "m": {"shape": ms, "chunks": [rand_chunks(rng, s) for s in ms], "p": [rng.randint(1, 4), rng.randint(0, 5)]},
            "ochunks": [rand_chunks(rng, s) for s in shape]}


def to_index(index):
    return tuple(slice(*i) if isinstance(i, (list, tuple)) else int(i) for i in index)


def apply_step(st, y, use_dask):
    """apply one JSON step to a dask array (use_dask) or to a NumPy array"""
    da = _mods()[0]
    lib = da if use_dask else np
    mk = (lambda a, c: dask_of(a, c)) if use_dask else (lambda a, c: a)
    op = st["op"]
    if op == "transpose":
        return y.transpose(tuple(st["axes"]))
    if op == "T":
        return y.T
    if op == "swapaxes":
        return lib.swapaxes(y, st["a"], st["b"])
    if op == "moveaxis":
        return lib.moveaxis(y, st["src"], st["dst"])
    if op == "rollaxis":
        return lib.rollaxis(y, st["axis"], st["start"])
    if op == "take":
        if st["via"] == "take":
            return lib.take(y, st["idx"], axis=st["axis"])
        k = st["axis"] % y.ndim
        return y[(slice(None),) * k + (list(st["idx"]),)]
    if op == "slice":
        return y[to_index(st["index"])]
    if op == "add_lower":
        v = mk(data(st["shape"], *st["p"]), st["chunks"])
        f = getattr(lib, st["f"])
        return f(y, v) if st["side"] == "r" else f(v, y)
    if op == "where_lower":
        m = mk(mask_data(st["shape"], *st["p"]), st["chunks"])
        return lib.where(m, y, st["c"])
    if op == "add_transposed":
        p = st["axes"]
        wshape = [0] * len(p)
        for k in range(len(p)):
            wshape[p[k]] = y.shape[k]
        w = mk(data(wshape, *st["p"]), st["chunks"])
        return y + w.transpose(tuple(p))
    if op == "ufunc_where_out":
        v = st["v"]["v"] if st["v"]["t"] == "py" else mk(data(st["v"]["shape"], *st["v"]["p"]), st["v"]["chunks"])
        m = mk(mask_data(st["m"]["shape"], *st["m"]["p"]), st["m"]["chunks"])
        o = mk(data(y.shape, -1, -1).copy(), st["ochunks"])
        r = np.add(y, v, where=m, out=o)
        return r if not use_dask else o
    raise ValueError(op)


def composed_perm(steps, n):
    """the permutation realised by a run of permutation steps (read off a distinct-size probe)"""
    probe = np.empty(PRIMES[:n], dtype=bool)
    for st in steps:
        probe = apply_step(st, probe, False)
    return perm_from_shape(probe.shape, n)


def gen_program(rng):
    n = rng.choice((2, 3, 3, 3, 4, 4, 5))
    cubic = rng.random() < 0.35
    if cubic:
        shape = [3 if n <= 4 else 2] * n
    else:
        shape = rng.sample(PRIMES[:max(n, 4) if n < 5 else 5], n)
        if n == 5:
            shape = rng.sample((2, 3, 4, 5, 6), n)
    chunks = [rand_chunks(rng, s) for s in shape]
    steps = []
    cur = list(shape)
    prefix = [gen_perm_step(rng, n) for _ in range(rng.randint(2, 4))]
    steps += prefix
    probe = np.empty(cur, dtype=bool)
    for st in prefix:
        probe = apply_step(st, probe, False)
    cur = list(probe.shape)
    # consumers need the true data shape only through its lengths: keep a NumPy shadow of the shape
    shadow = data(shape)
    for st in prefix:
        shadow = apply_step(st, shadow, False)
    for _ in range(rng.choice((0, 1, 1, 1, 2, 2))):
        if shadow.ndim == 0:
            break
        st = gen_consumer(rng, list(shadow.shape))
        shadow = apply_step(st, shadow, False)
        steps.append(st)
    if shadow.ndim >= 1 and rng.random() < 0.4:
        steps.append(gen_perm_step(rng, shadow.ndim))
    return {"prm": 1, "kind": "program", "shape": shape, "chunks": chunks, "steps": steps, "nprefix": len(prefix)}


def program_text(case):
    parts = []
    for st in case["steps"]:
        op = st["op"]
        if op == "transpose":
            parts.append(f".transpose({tuple(st['axes'])})")
        elif op == "T":
            parts.append(".T")
        elif op == "swapaxes":
            parts.append(f".swapaxes({st['a']},{st['b']})")
        elif op == "moveaxis":
            parts.append(f" |moveaxis({st['src']},{st['dst']})")
        elif op == "rollaxis":
            parts.append(f" |rollaxis({st['axis']},{st['start']})")
        elif op == "take":
            parts.append(f" |take({st['idx']}, axis={st['axis']}, via={st['via']})")
        elif op == "slice":
            parts.append("[" + ", ".join(":".join("" if v is None else str(v) for v in i) if isinstance(i, list) else str(i)
                                          for i in st["index"]) + "]")
        elif op == "add_lower":
            parts.append(f" |{st['f']}({'v,y' if st['side'] == 'l' else 'y,v'}; v.shape={tuple(st['shape'])})")
        elif op == "where_lower":
            parts.append(f" |where(m{tuple(st['shape'])}, y, {st['c']})")
        elif op == "add_transposed":
            parts.append(f" + w.transpose({tuple(st['axes'])})")
        else:
            parts.append(f" |np.add(y, v, where=m{tuple(st['m']['shape'])}, out=o)")
    return f"x{tuple(case['shape'])} chunks={case['chunks']}" + "".join(parts)


def check_program(ctx, case, stats=None):
    da = _mods()[0]
    shape = tuple(case["shape"])
    xn = data(shape)
    steps = case["steps"]
    n = len(shape)
    # NumPy first (the oracle)
    try:
        with warnings.catch_warnings():
            warnings.simplefilter("ignore")
            want = xn
            for st in steps:
                want = apply_step(st, want, False)
            want = np.asarray(want)
    except Exception as e:  # noqa: BLE001
        ctx.notes["prm.search.numpy-raises"] = ctx.notes.get("prm.search.numpy-raises", 0) + 1
        ctx.notes.setdefault("prm.search.numpy-raises.example", {"case": case, "error": repr(e)[:200]})
        return
    npre = int(case.get("nprefix", 0))
    perm_kinds = tuple(st["op"] for st in steps[:npre])
    cons_kinds = tuple(st["op"] for st in steps[npre:])
    cubic = len(set(shape)) == 1
    ctx.count(("prm.program", n, tuple(sorted(set(perm_kinds))), cons_kinds, cubic))
    text = program_text(case)
    try:
        with warnings.catch_warnings():
            warnings.simplefilter("ignore")
            x = dask_of(xn, case["chunks"])
            y = x
            for k, st in enumerate(steps):
                y = apply_step(st, y, True)
                if stats is not None and k + 1 == npre:
                    p = composed_perm(steps[:npre], n)
                    if not is_involution(p):
                        stats["prefix-composes-to-cycle>=3"] += 1
                    if p == list(range(n)):
                        stats["prefix-composes-to-identity"] += 1
                    try:
                        s = y.expr.simplify()
                        if type(s).__name__ == "Transpose" and s.array._name == x.expr._name:
                            stats["prefix-simplified-to-single-Transpose"] += 1
                        elif s._name == x.expr._name:
                            stats["prefix-simplified-to-source"] += 1
                        else:
                            stats["prefix-simplified-other"] += 1
                    except Exception:  # noqa: BLE001
                        stats["prefix-simplify-raises"] += 1
    except Exception as e:  # noqa: BLE001
        ctx.fail(f"prm:build-raises:{type(e).__name__}", case, f"{text}: building the dask program raises {e!r}; NumPy gives shape {want.shape}")
        return
    # advertised metadata
    try:
        yshape = tuple(int(s) for s in y.shape)
        csum = tuple(int(sum(c)) for c in y.chunks)
    except Exception as e:  # noqa: BLE001
        ctx.fail("prm:shape-metadata", case, f"{text}: .shape/.chunks raise {e!r}")
        return
    if yshape != want.shape or csum != want.shape:
        ctx.fail("prm:shape-metadata", case, f"{text}: advertised shape {yshape}, chunk sums {csum}; NumPy shape {want.shape}")
        return
    raw = raw_err = None
    try:
        raw = np.asarray(raw_eval(y.expr))
    except Exception as e:  # noqa: BLE001
        raw_err = e
    opt = opt_err = None
    try:
        with warnings.catch_warnings():
            warnings.simplefilter("ignore")
            opt = np.asarray(y.compute())
    except Exception as e:  # noqa: BLE001
        opt_err = e
    if raw_err is None and not same(raw, want):
        ctx.fail("prm:rawfree-differs-from-numpy", case, f"{text}: rewrite-free {brief(raw)}; NumPy {brief(want)}")
    if opt_err is None and not same(opt, want):
        ctx.fail("prm:optimized-differs-from-numpy", case, f"{text}: optimized {brief(opt)}; NumPy {brief(want)}"
                 + ("; the rewrite-free form equals NumPy" if raw_err is None and same(raw, want) else ""))
    if opt_err is not None:
        if raw_err is None:
            ctx.fail(f"prm:optimized-raises:{type(opt_err).__name__}", case,
                     f"{text}: optimized compute raises {opt_err!r}; rewrite-free form "
                     + ("equals NumPy" if same(raw, want) else "differs from NumPy"))
        else:
            ctx.fail(f"prm:compute-raises:{type(opt_err).__name__}", case,
                     f"{text}: optimized compute raises {opt_err!r} and the rewrite-free form raises {raw_err!r}; NumPy gives shape {want.shape}")
    elif raw_err is not None:
        d = ctx.notes.setdefault("prm.search.rawfree-raises-optimized-fine", {})
        d[type(raw_err).__name__] = d.get(type(raw_err).__name__, 0) + 1
        ctx.notes.setdefault("prm.search.rawfree-raises.example", {"program": text, "error": repr(raw_err)[:200]})


def search(ctx, rng):
    stats = {k: 0 for k in ("programs", "prefix-composes-to-cycle>=3", "prefix-composes-to-identity",
                            "prefix-simplified-to-single-Transpose", "prefix-simplified-to-source", "prefix-simplified-other",
                            "prefix-simplify-raises")}
    nprog = ctx.scale(320, 3200)
    budget = ctx.scale(8.0, 80.0)
    t0 = time.time()
    for k in range(nprog):
        if time.time() - t0 > budget:
            stats["stopped-by-time-budget-after"] = k
            break
        case = gen_program(rng)
        stats["programs"] += 1
        if k % 40 == 0:
            ctx.sample({"prm.program": program_text(case)})
        check_program(ctx, case, stats)
    stats["seconds"] = round(time.time() - t0, 2)
    ctx.notes["prm.search"] = stats


# --------------------------------------------------------------------------- entry

def replay_case(ctx, case):
    kind = case.get("kind")
    if kind == "program":
        check_program(ctx, case)
    elif kind == "builder":
        args = tuple(case["args"])
        check_builder(ctx, case["fn"], int(case["n"]), args, values=True)
    elif kind == "elemwise":
        check_elemwise(ctx, case)
    elif kind == "lift":
        lift(ctx, case["family"], case["request"])


def run(ctx, replay=None):
    if replay is not None:
        case = replay.get("case", replay) if isinstance(replay, dict) else None
        if isinstance(case, dict) and case.get("prm"):
            replay_case(ctx, case)
        return
    t_start = time.time()
    rng = random.Random(ctx.rng.getrandbits(64))
    rng_search = random.Random(ctx.rng.getrandbits(64))
    have_driver = True
    try:
        probe = ctx.driver.run(["prm.compose 1,0 1,0"])
        if probe and probe[0].strip() == "bad-op":
            have_driver = False
    except Exception as e:  # noqa: BLE001
        have_driver = False
        ctx.notes["prm_driver_error"] = repr(e)[:200]
    store = {}
    first_dis = len(ctx.disagreements)
    fams = (("prm.compose", fam_compose), ("prm.identity", fam_identity), ("prm.inverse", fam_inverse),
            ("prm.block_id", fam_block_id), ("prm.shuffle_axis", fam_shuffle_axis), ("prm.builder", fam_builder))
    if not have_driver:
        ctx.notes["prm_driver"] = "not available in this build"
    timings = {}
    for fam, fn in fams:
        t0 = time.time()
        if not have_driver and fam != "prm.builder":
            continue
        pairs = fn(ctx, rng)
        timings[fam] = round(time.time() - t0, 2)
        if have_driver:
            ctx.correspond(fam, pairs, branch_key)
    t0 = time.time()
    pairs = fam_elemwise(ctx, rng, store)
    timings["prm.elemwise_split"] = round(time.time() - t0, 2)
    if have_driver:
        ctx.correspond("prm.elemwise_split", pairs, branch_key)
        lift_disagreements(ctx, store, first_dis)
    t0 = time.time()
    search(ctx, rng_search)
    timings["search"] = round(time.time() - t0, 2)
    timings["python-side-total"] = round(sum(timings.values()), 2)
    timings["wall-including-driver"] = round(time.time() - t_start, 2)
    ctx.notes["prm.seconds"] = timings
    ctx.assumptions.append(
        "prm (axis permutation rules): Transpose composition / inverse / block mapping / shuffle axis are compared with the "
        "model exhaustively for ranks <= 4 and on random permutations of ranks 5-6; the builders swapaxes / moveaxis / rollaxis / "
        "transpose on an array with axis lengths 2,3,5,7,11,13 over small argument ranges (incl. negative, out-of-range, repeated "
        "axes) against the model and NumPy; the search runs programs of 2-4 consecutive permutation steps (cycles of length >= 3 "
        "favoured) + 0-2 consumers (unsorted take, basic slices with ints and negative steps, lower-rank broadcasting elemwise / "
        "where, transposed same-rank operand, np.add(where=, out=)) + optional final permutation on ranks 2-5, cubic and distinct-"
        "size int64 arrays with uneven chunks, comparing optimized compute, rewrite-free evaluation and NumPy exactly; zero-length "
        "axes, unknown chunks and non-integer dtypes are not generated."
    )
