"""C02 extension, package "slices and takes folded into creation arrays" (tag `crt`).

Target: dask_array/creation/_arange.py (`Arange.num_rows`, `_accept_slice`, `_layer`), _linspace.py (`Linspace._accept_slice`),
_ones_zeros.py (`BroadcastTrick._accept_slice`, `_accept_shuffle`).  Model: lean/DaskArrayModel/Model/Creation.lean; driver
family `crt.*` (Drv/Creation.lean); theorems Props/C02Creation.lean.

PART 1, correspondence (model vs the REAL methods on the same generated inputs):
  crt.len          Arange(start, stop, step).num_rows                 ints of either sign, steps +-1..+-7 and larger, empty ranges;
                                                                      dyadic floats (scaled to integers: the model is homogeneous)
  crt.accept       Arange._accept_slice on the real SliceSlicesIntegers node of `x[ix]`: (start, step, num_rows, 2*stop) of
                   the product or `decline` (integer index); slices of every shape (None / negative / out of range bounds,
                   steps of either sign, empty results); int and dyadic-float aranges
  crt.lin          Linspace._accept_slice: (start, derived step, num, stop) of the product, dyadic linspaces
  crt.blocks       the tasks of Arange._layer, executed: block values
  crt.const_slice  BroadcastTrick._accept_slice on ones / zeros / full (with and without name=): shape, chunks, `name` operand
  crt.const_take   BroadcastTrick._accept_shuffle on the real Shuffle node of da.take: shape, chunks, `name` operand
  crt.acceptf      the same for dyadic-float aranges (numerators; the float branch of `_accept_slice`: midpoint stop)
  LARGE-MAGNITUDE stream (|start| in 2**50 .. 2**62): the same two arange families, compared by hand; every disagreement is
  lifted to the public API (NumPy as oracle) and is reported only when the API result is wrong (signatures
  `arange-slice-float-midpoint-large-int`, `arange-num-rows-float-division`); a disagreement the API does not show is
  recorded as a disagreement.  REGRESSION PROBES: the minimal inputs of the repaired finding
  `arange-slice-float-midpoint-large-int` (bases +-2**52, +-2**55, +-(2**62-100); /repo 7fbbeb4 stores the exact integer stop)
  must compute to NumPy's result and correspond to the model's integer branch.
PART 2, search (oracle NumPy, independent of the model): da.arange (int, dyadic float, non-dyadic float) / linspace / ones /
  zeros / full (with and without name=, dtype=) -> 1-2 slices / takes -> consumer (none, +1, sum, reversed, "both": the
  sliced array and the original in ONE graph, which is what a kept user name breaks): optimized compute, rewrite-free
  evaluation (rawfree.raw_eval) and NumPy agree (exactly for ints and dyadic floats; length exactly and values to 1e-9
  relative for non-dyadic float steps); the advertised chunks sum to the computed shape.
Every failing case is a JSON dict `{"crt": 1, ...}` replayed by `run(ctx, {"case": case})`.
"""
from __future__ import annotations

import random
import warnings

import numpy as np

from harness.core import err_name, f_list, f_ll, f_opt
from harness.props_ext.rawfree import raw_eval

SIG_MID = "arange-slice-float-midpoint-large-int"
SIG_LEN = "arange-num-rows-float-division"


def _mods():
    import dask_array as da
    from dask_array.creation._arange import Arange
    from dask_array.creation._linspace import Linspace

    return da, Arange, Linspace


# --------------------------------------------------------------------------- generators

def rand_step(rng):
    s = rng.choice([1, 1, 2, 3, 4, 5, 6, 7, rng.randint(8, 40)])
    return s if rng.random() < 0.6 else -s


def rand_range(rng, big=0):
    """(start, stop, step) of an integer arange; length 0..~60 (sometimes empty / wrong-direction)"""
    step = rand_step(rng)
    n = rng.choice([0, 1, 2, 3, rng.randint(4, 12), rng.randint(4, 60)])
    start = rng.randint(-50, 50) + big
    r = rng.random()
    if r < 0.12:  # wrong direction / empty
        stop = start - step * rng.randint(0, 5)
    else:
        stop = start + step * n - (rng.randint(0, abs(step) - 1) if n else 0) * (1 if step > 0 else -1)
    return start, stop, step


def rand_bound(rng, n):
    r = rng.random()
    if r < 0.22:
        return None
    if r < 0.32:
        return rng.choice([-n - 3, -n - 1, -n, n, n + 1, n + 4])
    return rng.randint(-n - 1, n + 1)


def rand_slice(rng, n):
    k = rng.choice([None, 1, 2, 3, 5, -1, -1, -2, -3, -7, rng.randint(2, 9), -rng.randint(2, 9)])
    return [rand_bound(rng, n), rand_bound(rng, n), k]


def f_ix(ix):
    if isinstance(ix, list):
        return f"{f_opt(ix[0])}:{f_opt(ix[1])}:{f_opt(ix[2])}"
    return str(int(ix))


def py_ix(ix):
    return slice(*ix) if isinstance(ix, list) else int(ix)


def ix_of(obj):
    if isinstance(obj, slice):
        return [obj.start, obj.stop, obj.step]
    return int(obj)


def rand_chunks(rng, size, maxparts=4):
    if size <= 1:
        return [size]
    k = rng.randint(1, min(size, maxparts))
    if k == 1:
        return [size]
    cuts = sorted(rng.sample(range(1, size), k - 1))
    return [b - a for a, b in zip([0] + cuts, cuts + [size])]


def exact_int(v):
    """an exactly-integral Python number as int (floats that are integral), else None"""
    if isinstance(v, (int, np.integer)):
        return int(v)
    f = float(v)
    if f != f or f in (float("inf"), float("-inf")) or f != int(f):
        return None
    return int(f)


# --------------------------------------------------------------------------- implementation side of the correspondence

def impl_len(a, b, s):
    _, Arange, _ = _mods()
    try:
        return f"ok {Arange(a, b, s, 3, None, None).num_rows}"
    except Exception as e:  # noqa: BLE001
        return err_name(e)


def impl_accept(a, b, s, ix, scale=1, chunk=3):
    """the real Arange._accept_slice on the real slice node of x[ix]; values multiplied by `scale` (dyadic floats)"""
    da, Arange, _ = _mods()
    with warnings.catch_warnings():
        warnings.simplefilter("ignore")
        try:
            x = da.arange(a, b, s, chunks=chunk)
            if not isinstance(x.expr, Arange):
                return None, None
            y = x[py_ix(ix)]
            if type(y.expr).__name__ != "SliceSlicesIntegers" or y.expr.array._name != x.expr._name:
                return None, None
            (nix,) = y.expr.index
            nix = f_ix(ix_of(nix))
            r = x.expr._accept_slice(y.expr)
            if r is None:
                return nix, "ok decline"
            vals = [exact_int(r.start * scale), exact_int(r.step * scale), None, exact_int(2 * r.stop * scale)]
            vals[2] = r.num_rows
            if any(v is None for v in vals):
                return nix, "ok inexact " + repr((r.start, r.step, r.num_rows, r.stop))
            # the product must be internally consistent: pinned chunks vs the re-derived length
            try:
                ch = r.chunks
                if sum(ch[0]) != r.num_rows:
                    return nix, f"ok chunks-sum {sum(ch[0])} num_rows {r.num_rows}"
            except Exception as e:  # noqa: BLE001
                return nix, f"ok {vals[0]} {vals[1]} chunks-raise:{type(e).__name__} {vals[3]}"
            return nix, "ok " + " ".join(str(v) for v in vals)
        except Exception as e:  # noqa: BLE001
            return f_ix(ix), err_name(e)


def impl_lin(S, P, num, ix, k):
    """Linspace._accept_slice for linspace(S/2^k, (S+(num-1)P)/2^k, num); returns model-comparable line"""
    da, _, Linspace = _mods()
    sc = 2 ** k
    with warnings.catch_warnings():
        warnings.simplefilter("ignore")
        try:
            x = da.linspace(S / sc, (S + (num - 1) * P) / sc, num, chunks=max(1, num // 3))
            if not isinstance(x.expr, Linspace):
                return None, None
            y = x[py_ix(ix)]
            if type(y.expr).__name__ != "SliceSlicesIntegers":
                return None, None
            (nix,) = y.expr.index
            nix = f_ix(ix_of(nix))
            r = x.expr._accept_slice(y.expr)
            if r is None:
                return nix, "ok decline"
            cnt = r.operand("num")
            st = exact_int(r.start * sc)
            sp = exact_int(r.stop * sc)
            stp = exact_int(r.step * sc)
            if sum(r.chunks[0]) != cnt or r.num_rows != cnt or not r.endpoint:
                return nix, f"ok inconsistent {r.chunks} {cnt} {r.endpoint}"
            return nix, f"ok {st} {stp} {cnt} {sp}"
        except Exception as e:  # noqa: BLE001
            return f_ix(ix), err_name(e)


def model_lin_fix(line):
    """the derived step of a linspace with exactly 1 point is 0/1 — not the folded step; blank it on the model side"""
    t = line.split()
    if len(t) == 5 and t[0] == "ok" and int(t[3]) == 1:
        t[2] = "0"
    return " ".join(t)


def impl_blocks(a, s, chunks):
    import dask

    da, Arange, _ = _mods()
    n = sum(chunks)
    try:
        e = Arange(a, a + n * s, s, (tuple(chunks),), None, None)
        if e.num_rows != n:
            return f"ok num_rows {e.num_rows}"
        dsk = e._layer()
        out = dask.get(dict(dsk), [(e._name, i) for i in range(len(chunks))])
        return "ok " + f_ll([[int(v) for v in blk] for blk in out])
    except Exception as e:  # noqa: BLE001
        return err_name(e)


def make_const(da, kind, shape, chunks, name, dtype, fill):
    kw = {"chunks": tuple(tuple(c) for c in chunks)}
    if name is not None:
        kw["name"] = name
    if dtype is not None:
        kw["dtype"] = dtype
    if kind == "full":
        return da.full(tuple(shape), fill, **kw)
    return getattr(da, kind)(tuple(shape), **kw)


def make_const_np(kind, shape, dtype, fill):
    kw = {} if dtype is None else {"dtype": dtype}
    if kind == "full":
        return np.full(tuple(shape), fill, **kw)
    return getattr(np, kind)(tuple(shape), **kw)


def impl_const_slice(kind, shape, chunks, idx, name):
    da = _mods()[0]
    try:
        x = make_const(da, kind, shape, chunks, name, None, 7)
        y = x[tuple(py_ix(i) for i in idx)]
        if type(y.expr).__name__ != "SliceSlicesIntegers":
            return None, None
        r = x.expr._accept_slice(y.expr)
        nm = r.operand("name")
        req_idx = ",".join(f_ix(ix_of(i)) for i in y.expr.index) if y.expr.index else "_"
        return req_idx, f"ok {f_list(r.shape)} {f_ll(r.chunks)} {'N' if nm is None else nm}"
    except Exception as e:  # noqa: BLE001
        return None, err_name(e)


def impl_const_take(kind, shape, chunks, ax, ind, name):
    da = _mods()[0]
    try:
        x = make_const(da, kind, shape, chunks, name, None, 7)
        y = da.take(x, ind, axis=ax)
        if type(y.expr).__name__ != "Shuffle":
            return None, None
        r = x.expr._accept_shuffle(y.expr)
        nm = r.operand("name")
        return f_list(y.expr.chunks[ax]), f"ok {f_list(r.shape)} {f_ll(r.chunks)} {'N' if nm is None else nm}"
    except Exception as e:  # noqa: BLE001
        return None, err_name(e)


# --------------------------------------------------------------------------- search (real API, NumPy oracle)

def build(case):
    """(dask array, numpy array, exact?) of a case dict"""
    da = _mods()[0]
    mk = case["make"]
    kind = mk[0]
    exact = True
    with warnings.catch_warnings():
        warnings.simplefilter("ignore")
        if kind == "arange":
            _, a, b, s, ch, dt = mk
            kw = {} if dt is None else {"dtype": dt}
            x = da.arange(a, b, s, chunks=ch, **kw)
            w = np.arange(a, b, s, **kw)
        elif kind == "arangef":
            _, S, T, P, k, ch = mk
            sc = float(2 ** k)
            x = da.arange(S / sc, T / sc, P / sc, chunks=ch)
            w = np.arange(S / sc, T / sc, P / sc)
        elif kind == "arangeq":
            _, a, b, s, ch = mk
            x = da.arange(a, b, s, chunks=ch)
            w = np.arange(a, b, s)
            exact = False
        elif kind == "linspace":
            _, a, b, num, endpoint, ch = mk
            x = da.linspace(a, b, num, endpoint=endpoint, chunks=ch)
            w = np.linspace(a, b, num, endpoint=endpoint)
            exact = False
        else:
            _, shape, chunks, name, dt, fill = mk
            x = make_const(da, kind, shape, chunks, name, dt, fill)
            w = make_const_np(kind, shape, dt, fill)
        x0, w0 = x, w
        for st in case["steps"]:
            if st[0] == "slice":
                idx = tuple(py_ix(i) for i in st[1])
                x, w = x[idx], w[idx]
            else:
                x, w = da.take(x, st[2], axis=st[1]), np.take(w, st[2], axis=st[1])
        c = case["consumer"]
        if c == "add1":
            x, w = x + 1, w + 1
        elif c == "sum":
            x, w = x.sum(), w.sum()
        elif c == "rev" and w.ndim >= 1:
            x, w = x[::-1], w[::-1]
        elif c == "both":
            x, w = x.sum() + x0.sum() * 2, w.sum() + w0.sum() * 2
    return x, np.asarray(w), exact


def agree(got, want, exact):
    got = np.asarray(got)
    if got.shape != want.shape:
        return False
    if exact:
        return got.dtype == want.dtype and bool(np.array_equal(got, want))
    return bool(np.allclose(got, want, rtol=1e-9, atol=1e-12))


def check_case(ctx, case, sig_prefix="creation"):
    """optimized compute, rewrite-free evaluation and NumPy on one case; returns True when the property holds"""
    try:
        x, want, exact = build(case)
    except Exception as e:  # noqa: BLE001
        # NumPy / the builder refuses: nothing to preserve.  (A refusal by dask alone at build time is C01/C12 matter.)
        ctx.notes["crt.build_refused"] = ctx.notes.get("crt.build_refused", 0) + 1
        case["refused"] = repr(e)[:120]
        return True
    kind = case["make"][0]
    ctx.count(("crt-search", kind, tuple(s[0] for s in case["steps"]), case["consumer"]))
    with warnings.catch_warnings():
        warnings.simplefilter("ignore")
        try:
            raw = raw_eval(x.expr)
        except Exception as e:  # noqa: BLE001
            ctx.notes["crt.raw_not_computable"] = ctx.notes.get("crt.raw_not_computable", 0) + 1
            raw = None
        try:
            adv = tuple(x.chunks)
            got = x.compute()
        except Exception as e:  # noqa: BLE001
            ctx.fail(case.get("sig") or f"{sig_prefix}-optimized-raises:{kind}:{type(e).__name__}", dict(case, outcome=repr(e)[:300]),
                     "the optimized program raises although NumPy (and the rewrite-free form) computes it")
            return False
    if raw is not None and not agree(raw, want, exact):
        ctx.notes["crt.raw_differs_from_numpy"] = ctx.notes.get("crt.raw_differs_from_numpy", 0) + 1
    if not agree(got, want, exact) or (raw is not None and np.asarray(got).shape != np.asarray(raw).shape):
        g = np.asarray(got)
        ctx.fail(case.get("sig") or f"{sig_prefix}-wrong-result:{kind}", dict(case, got_shape=list(g.shape), want_shape=list(want.shape),
                 got_head=g.ravel()[:6].tolist(), want_head=want.ravel()[:6].tolist(), got_dtype=str(g.dtype), want_dtype=str(want.dtype)),
                 "optimized compute differs from NumPy (shape / dtype / values)")
        return False
    if tuple(sum(c) for c in adv) != np.asarray(got).shape:
        ctx.fail(f"{sig_prefix}-advertised-chunks:{kind}", dict(case, chunks=[list(c) for c in adv], got_shape=list(np.asarray(got).shape)),
                 "advertised chunks do not sum to the computed shape")
        return False
    return True


def rand_idx(rng, shape):
    idx = []
    for n in shape:
        if rng.random() < 0.25 and n > 0:
            idx.append(rng.randint(-n, n - 1))
        else:
            idx.append(rand_slice(rng, n))
    while idx and rng.random() < 0.2:  # trailing axes left out
        idx.pop()
    return idx


def after_idx(shape, idx):
    out = []
    for k, n in enumerate(shape):
        if k < len(idx):
            if isinstance(idx[k], list):
                out.append(len(range(*slice(*idx[k]).indices(n))))
        else:
            out.append(n)
    return out


def rand_steps(rng, shape):
    steps = []
    shape = list(shape)
    for _ in range(rng.choice([1, 1, 2])):
        if not shape:
            break
        if rng.random() < 0.3 and all(n > 0 for n in shape):
            ax = rng.randrange(len(shape))
            ind = [rng.randint(-shape[ax], shape[ax] - 1) for _ in range(rng.randint(1, 6))]
            steps.append(["take", ax, ind])
            shape[ax] = len(ind)
        else:
            idx = rand_idx(rng, shape)
            steps.append(["slice", idx])
            shape = after_idx(shape, idx)
    return steps


def rand_case(rng):
    r = rng.random()
    consumer = rng.choice(["none", "none", "add1", "sum", "rev", "both"])
    if r < 0.3:
        a, b, s = rand_range(rng)
        n = len(range(a, b, s))
        mk = ["arange", a, b, s, rng.choice([1, 2, 3, 5, max(1, n)]), rng.choice([None, None, "i8", "f8", "i4"])]
        shape = [n]
    elif r < 0.42:
        a, b, s = rand_range(rng)
        k = rng.choice([1, 2, 3])
        mk = ["arangef", a, b, s, k, rng.choice([1, 2, 3, 5])]
        shape = [len(range(a, b, s))]
    elif r < 0.55:
        s = rng.choice([0.1, 0.3, 0.7, 1.1, 0.01, -0.1, -0.3, 1 / 3])
        a = rng.choice([0, 0.0, 1, 0.5, -2, 0.1])
        n = rng.randint(0, 40)
        b = a + s * n
        mk = ["arangeq", a, b, s, rng.choice([1, 2, 3, 5, 7])]
        shape = [len(np.arange(a, b, s))]
    elif r < 0.65:
        num = rng.randint(0, 30)
        mk = ["linspace", rng.choice([0, -1, 0.5, 3]), rng.choice([1, 5, -2.5, 10]), num, rng.random() < 0.6, rng.choice([1, 2, 4, 7])]
        shape = [num]
    else:
        kind = rng.choice(["ones", "zeros", "full"])
        nd = rng.choice([1, 2, 2, 3])
        shape = [rng.choice([1, 2, 3, 4, 5, 6, 7]) for _ in range(nd)]
        chunks = [rand_chunks(rng, n, 3) for n in shape]
        name = rng.choice([None, None, f"crt-{kind}-{rng.randrange(10**9)}"])
        mk = [kind, shape, chunks, name, rng.choice([None, None, "i8", "f4", "bool"]), rng.choice([7, -2, 1.5])]
    return {"crt": 1, "make": mk, "steps": rand_steps(rng, shape), "consumer": consumer}


# --------------------------------------------------------------------------- large magnitudes

def large_stream(ctx, rng, count):
    reqs, meta = [], []
    for _ in range(count):
        e = rng.choice([50, 51, 52, 52, 53, 54, 56, 60, 62])
        big = (1 << e) * rng.choice([1, 1, -1]) + rng.randint(-3, 3)
        if rng.random() < 0.3:  # length of a coarse arange over a huge extent
            n = rng.randint(1, 9)
            step = (1 << rng.choice([e - 2, e - 3, max(1, e - 6)])) * rng.choice([1, -1]) + rng.choice([0, 0, 1, -1])
            a = rng.randint(-5, 5) if rng.random() < 0.5 else big
            if a == big:  # huge start, extent below 2**53 (inside the model's domain)
                step = rand_step(rng) * rng.choice([1, 1 << 20, 1 << 40])
            b = a + step * n + rng.choice([0, 1, -1, 2])
            if abs(b) >= (1 << 63) - 1:
                continue
            reqs.append(f"crt.len {a} {b} {step}")
            meta.append(("len", a, b, step, None, impl_len(a, b, step)))
        else:
            a, b, s = rand_range(rng, big)
            if max(abs(a), abs(b)) >= (1 << 62) + (1 << 20):
                continue
            n = len(range(a, b, s))
            ix = rand_slice(rng, n)
            nix, impl = impl_accept(a, b, s, ix, chunk=4)
            if impl is None:
                continue
            reqs.append(f"crt.accept {a} {b} {s} {nix}")
            meta.append(("accept", a, b, s, ix, impl))
    outs = ctx.driver.run(reqs)
    for req, m, model in zip(reqs, meta, outs):
        kind, a, b, s, ix, impl = m
        ctx.traces += 1
        ctx.count(("crt-large", kind, max(abs(a), abs(b)).bit_length()))
        if impl == model:  # integer aranges: start, step, re-derived length and the exact integer stop
            continue
        if kind == "len" and abs(b - a) >= 2 ** 53:
            # outside the domain where binary64 division is exact enough for the ceiling (|stop - start| < 2**53):
            # not claimed by the model; NumPy's own length is computed the same way and stays the oracle below
            ctx.notes["crt.len_outside_exact_domain"] = ctx.notes.get("crt.len_outside_exact_domain", 0) + 1
            outside = True
        else:
            outside = False
        # lift to the public API
        ctx.notes["crt.large_disagreements_lifted"] = ctx.notes.get("crt.large_disagreements_lifted", 0) + 1
        if kind == "len":
            da = _mods()[0]
            want = len(np.arange(a, b, s))
            try:
                got = da.arange(a, b, s, chunks=4).shape[0]
            except Exception as e:  # noqa: BLE001
                got = repr(e)[:80]
            if got != want:
                ctx.fail(SIG_LEN, {"crt": 1, "kind": "len", "make": ["arange", a, b, s, 4, None], "got_len": got, "want_len": want},
                         "da.arange has another length than np.arange (num_rows divides in binary64)")
                continue
        else:
            case = {"crt": 1, "make": ["arange", a, b, s, 4, None], "steps": [["slice", [ix]]], "consumer": "none", "sig": SIG_MID}
            if not check_case(ctx, case):
                continue
        if not outside:
            ctx.disagree("crt-large", req, model, impl)
    ctx.notes["corr.crt-large"] = ctx.notes.get("corr.crt-large", 0) + len(reqs)


# --------------------------------------------------------------------------- regression probes

PROBE_BASES = (2 ** 52, 2 ** 55, 2 ** 62 - 100, -(2 ** 52), -(2 ** 55), -(2 ** 62) + 100)
PROBE_SLICES = ([0, 3, None], [1, 8, 2], [None, None, -1], [2, None, None], [None, None, 3], [7, 1, -2], [5, 2, None], [-1, None, -7])


def regression_probes(ctx):
    """the minimal inputs of the (repaired, /repo 7fbbeb4) finding `arange-slice-float-midpoint-large-int`: slices of integer
    aranges whose values are at and beyond 2**52 must compute to NumPy's result, and the product of the real
    `_accept_slice` must re-derive exactly the pinned length (model: `C02k_arange_slice_sound`, integer branch)"""
    pairs = []
    for base in PROBE_BASES:
        for step in (1, 3, -1):
            a, b = (base, base + 10 * step) if abs(base + 10 * step) < 2 ** 62 + 2 ** 20 else (base - 10 * step, base)
            for ix in PROBE_SLICES:
                case = {"crt": 1, "make": ["arange", a, b, step, 4, None], "steps": [["slice", [list(ix)]]], "consumer": "none",
                        "sig": SIG_MID}
                check_case(ctx, case)
                nix, impl = impl_accept(a, b, step, list(ix), chunk=4)
                if impl is not None:
                    pairs.append((f"crt.accept {a} {b} {step} {nix}", impl))
    ctx.correspond("crt.accept", pairs, branch_key)


# --------------------------------------------------------------------------- entry

def branch_key(req, model):
    t = req.split()
    cmd = t[0]
    if cmd in ("crt.accept", "crt.acceptf", "crt.lin"):
        ix = t[4]
        if ":" not in ix:
            return (cmd, "int")
        a, b, k = ix.split(":")
        m = model.split()
        cnt = m[3] if len(m) > 3 else "?"
        return (cmd, a == "N", b == "N", "N" if k == "N" else (int(k) > 0), int(t[3]) > 0 if cmd != "crt.lin" else True,
                min(int(cnt), 3) if cnt.isdigit() else cnt)
    if cmd == "crt.len":
        return (cmd, int(t[3]) > 0, min(int(model.split()[1]), 3) if model.startswith("ok") else model)
    return (cmd, len(req) // 12, model[:12])


def replay_case(ctx, case):
    if case.get("kind") == "len":
        da = _mods()[0]
        _, a, b, s, ch, _ = case["make"]
        got, want = da.arange(a, b, s, chunks=ch).shape[0], len(np.arange(a, b, s))
        if got != want:
            ctx.fail(SIG_LEN, dict(case, got_len=got, want_len=want), "da.arange has another length than np.arange")
        return
    case = {k: v for k, v in case.items() if k not in ("outcome", "got_shape", "want_shape", "got_head", "want_head", "got_dtype", "want_dtype")}
    check_case(ctx, case)


def run(ctx, replay=None):
    if replay is not None:
        return replay_case(ctx, dict(replay["case"]))
    st = ctx.rng.getstate()
    rng = random.Random(ctx.rng.getrandbits(64))
    ctx.rng.setstate(st)

    # ---- PART 1: correspondence
    pairs = []
    for _ in range(ctx.scale(200, 1500)):
        a, b, s = rand_range(rng)
        pairs.append((f"crt.len {a} {b} {s}", impl_len(a, b, s)))
    for _ in range(ctx.scale(60, 300)):  # dyadic floats, scaled
        a, b, s = rand_range(rng)
        sc = float(2 ** rng.choice([1, 2, 3]))
        pairs.append((f"crt.len {a} {b} {s}", impl_len(a / sc, b / sc, s / sc)))
    ctx.correspond("crt.len", pairs, branch_key)

    pairs = []
    for _ in range(ctx.scale(300, 2000)):
        a, b, s = rand_range(rng)
        n = len(range(a, b, s))
        ix = rand_slice(rng, n) if (rng.random() < 0.93 or n == 0) else rng.randint(-n, n - 1)
        k = rng.choice([0, 0, 0, 1, 2, 3])
        sc = 2 ** k
        nix, impl = impl_accept(a / sc, b / sc, s / sc, ix, scale=sc) if k else impl_accept(a, b, s, ix)
        if impl is not None:
            # dyadic floats take the float branch of `_accept_slice` (midpoint stop): `crt.acceptf`; ints the exact stop
            pairs.append((f"crt.{'acceptf' if k else 'accept'} {a} {b} {s} {nix}", impl))
    ctx.correspond("crt.accept", pairs, branch_key)

    pairs = []
    for _ in range(ctx.scale(120, 600)):
        num = rng.choice([0, 1, 2, 3, rng.randint(4, 30)])
        S, P, k = rng.randint(-40, 40), rng.choice([1, 2, 3, 5, 8, -1, -3, -6]), rng.choice([0, 1, 2, 3])
        ix = rand_slice(rng, num) if (rng.random() < 0.93 or num == 0) else rng.randint(-num, num - 1)
        nix, impl = impl_lin(S, P, num, ix, k)
        if impl is not None:
            Pm = 0 if num == 1 else P  # the derived step of a 1-point linspace is 0 (div = 0 -> 1, range 0)
            pairs.append((f"crt.lin {S} {Pm} {num} {nix}", impl))
    # the product's derived step (count < 2 -> 0) is normalised on the implementation side instead: compare by hand
    if pairs:
        outs = ctx.driver.run([r for r, _ in pairs])
        for (req, impl), model in zip(pairs, outs):
            ctx.traces += 1
            ctx.count(("crt.lin",) + tuple(branch_key(req, model)))
            if model_lin_fix(model) != impl:
                ctx.disagree("crt.lin", req, model_lin_fix(model), impl)
        ctx.notes["corr.crt.lin"] = ctx.notes.get("corr.crt.lin", 0) + len(pairs)

    pairs = []
    for _ in range(ctx.scale(80, 400)):
        chunks = [rng.choice([0, 1, 2, 3, 5]) if rng.random() < 0.9 else rng.randint(6, 20) for _ in range(rng.randint(1, 5))]
        if rng.random() < 0.8:
            chunks = [c for c in chunks if c > 0] or [1]
        a, s = rng.randint(-60, 60), rand_step(rng)
        pairs.append((f"crt.blocks {a} {s} {f_list(chunks)}", impl_blocks(a, s, chunks)))
    ctx.correspond("crt.blocks", pairs, branch_key)

    ps, pt = [], []
    for _ in range(ctx.scale(150, 800)):
        kind = rng.choice(["ones", "zeros", "full"])
        shape = [rng.choice([1, 2, 3, 4, 5, 6, 9]) for _ in range(rng.choice([1, 2, 2, 3]))]
        chunks = [rand_chunks(rng, n, 3) for n in shape]
        name = rng.choice([None, f"crtname{rng.randrange(10**6)}"])
        nm = "N" if name is None else name
        if rng.random() < 0.7:
            idx = rand_idx(rng, shape)
            ridx, impl = impl_const_slice(kind, shape, chunks, idx, name)
            if ridx is not None:
                ps.append((f"crt.const_slice {f_list(shape)} {f_ll(chunks)} {ridx} {nm}", impl))
        else:
            ax = rng.randrange(len(shape))
            ind = [rng.randint(-shape[ax], shape[ax] - 1) for _ in range(rng.randint(1, 7))]
            oc, impl = impl_const_take(kind, shape, chunks, ax, ind, name)
            if oc is not None:
                pt.append((f"crt.const_take {f_list(shape)} {f_ll(chunks)} {ax} {f_list(ind)} {oc} {nm}", impl))
    ctx.correspond("crt.const_slice", ps, branch_key)
    ctx.correspond("crt.const_take", pt, branch_key)

    large_stream(ctx, rng, ctx.scale(80, 600))
    regression_probes(ctx)

    # ---- PART 2: search
    for _ in range(ctx.scale(150, 1500)):
        case = rand_case(rng)
        if check_case(ctx, case):
            ctx.sample(case, every=50)
    ctx.assumptions.append(
        "creation rewrites (harness/props_ext/c02_creation.py): the Lean model is over exact integers (dyadic floats by scaling); "
        "binary64 rounding of the stored midpoint `stop` and of `num_rows` is outside the model and is exercised by the "
        "large-magnitude and non-dyadic streams of the search only"
    )
