"""C19 extension — overlap-family calls IN SEQUENCE, in one process.

Every overlap-family entry point (`map_overlap` plain / `new_axis=` / `drop_axis=` / `trim=False` / two input arrays,
`overlap`, `trim_overlap`, overlap∘trim round trip, and the internal users `sliding_window_view` and `gradient`) must
compute its NumPy definition NO MATTER which other overlap-family calls were made before it in the same interpreter,
and must leave the objects it is handed (`depth` / `boundary` dicts, tuples, lists, `new_axis` / `drop_axis` lists)
unchanged.

A case is a list of steps; each step is one API call on concrete data, with `depth` and `boundary` spelled in one
of the accepted forms (scalar, tuple, dict — possibly partial or asymmetric —, per-array list, None).  Steps of one
case share or deliberately do not share (ndim, depth, boundary).  mode "eager": build+compute step by step;
mode "lazy": build every collection first, compute afterwards (a later call must not change an earlier, still
unevaluated collection).

Oracle (independent of the implementation): np.pad per boundary kind on the WHOLE array + the block function on the
whole array (trimmed calls), or the explicit block structure (np.ix_ gather of halo ranges) for `overlap`,
`trim_overlap` and `trim=False` (chunks are generated so that no automatic rechunk is needed there).

A failure is confirmed in a FRESH interpreter (the case replays from its own steps alone) before it is reported; a
failure that depends on calls made by EARLIER cases is re-built from the recorded history of steps (shortened by
bisection) so that the reported case is again self-contained.
"""
from __future__ import annotations

import copy
import json
import os
import subprocess
import sys
import warnings
from pathlib import Path

import numpy as np

VERIF = Path(__file__).resolve().parents[2]
PAD_MODE = {"periodic": "wrap", "reflect": "symmetric", "nearest": "edge"}
SWV = np.lib.stride_tricks.sliding_window_view

REFUSALS = (
    (ValueError, "is larger than your array"),
    (NotImplementedError, "Asymmetric overlap is currently only implemented"),
    (ValueError, "Chunk size must be larger than edge_order"),
    (ValueError, "Overlap depth is larger than smallest chunksize"),
)


# =========================================================================== spec encoding


def dec(spec):
    """JSON spec → the Python object handed to the API.  {"t": […]} tuple, {"d": [[k, v], …]} dict,
    {"l": […]} list (one entry per input array); ints / strings / None stand for themselves."""
    if isinstance(spec, dict):
        if "t" in spec:
            return tuple(dec(v) for v in spec["t"])
        if "d" in spec:
            return {int(k): dec(v) for k, v in spec["d"]}
        if "l" in spec:
            return [dec(v) for v in spec["l"]]
        raise KeyError(spec)
    return spec


def first_of_list(spec):
    return spec["l"][0] if isinstance(spec, dict) and "l" in spec else spec


def depth_lr(spec, ndim):
    """The oracle's own reading of a depth spec: per-axis (before, after)."""
    obj = dec(first_of_list(spec))
    if obj is None:
        obj = 0
    if isinstance(obj, int):
        per = [obj] * ndim
    elif isinstance(obj, tuple):
        per = list(obj)
    else:
        per = [obj.get(ax, 0) for ax in range(ndim)]
    return [(int(v), int(v)) if isinstance(v, int) else (int(v[0]), int(v[1])) for v in per]


def bound_kinds(spec, ndim):
    obj = dec(first_of_list(spec))
    if obj is None:
        return ["none"] * ndim
    if isinstance(obj, tuple):
        return list(obj)
    if isinstance(obj, dict):
        return [obj.get(ax, "none") for ax in range(ndim)]
    return [obj] * ndim


# =========================================================================== block functions (module level: stable tokens)


def sten_lr(b, axes=(), lefts=(), rights=()):
    """Reads `lefts[j]` cells before and `rights[j]` cells after along `axes[j]` (distinct weights per offset, so a
    missing or misplaced halo cell changes the value); truncated at the ends of whatever array it is given."""
    b = np.asarray(b)
    for ax, l, r in zip(axes, lefts, rights):
        s = b.copy()
        for k in range(1, max(int(l), int(r)) + 1):
            if k >= b.shape[ax]:
                break
            lo = [slice(None)] * b.ndim
            hi = [slice(None)] * b.ndim
            lo[ax] = slice(k, None)
            hi[ax] = slice(None, -k)
            if k <= l:
                s[tuple(lo)] += (k + 1) * b[tuple(hi)]
            if k <= r:
                s[tuple(hi)] += (2 * k + 3) * b[tuple(lo)]
        b = s
    return b


def f_newaxis(b, axes=(), lefts=(), rights=(), pos=0):
    return np.expand_dims(sten_lr(b, axes, lefts, rights), tuple(pos) if isinstance(pos, (list, tuple)) else pos)


def f_drop(b, axes=(), lefts=(), rights=(), k=0, cut=(0, 0)):
    s = sten_lr(b, axes, lefts, rights)
    sl = [slice(None)] * s.ndim
    sl[k] = slice(cut[0], s.shape[k] - cut[1])
    return s[tuple(sl)].sum(axis=k)


def f_two(a, b, axes=(), lefts=(), rights=()):
    return sten_lr(a, axes, lefts, rights) + 3 * sten_lr(b, axes, lefts, rights)


# =========================================================================== NumPy definitions


def mk(shape, dseed, dtype="int"):
    rng = np.random.default_rng(int(dseed))
    if dtype == "float":
        return rng.integers(-20, 21, size=shape).astype(np.float64) / 4.0
    return rng.integers(-4, 5, size=shape).astype(np.int64)


def pad_whole(x, lr, kinds):
    crop = []
    for ax in range(x.ndim):
        l, r = lr[ax]
        kd = kinds[ax]
        if (l, r) == (0, 0) or kd == "none":
            crop.append(slice(None))
            continue
        pw = [(0, 0)] * x.ndim
        pw[ax] = (l, r)
        x = np.pad(x, pw, mode=PAD_MODE[kd]) if kd in PAD_MODE else np.pad(x, pw, mode="constant", constant_values=kd)
        crop.append(slice(l, x.shape[ax] - r))
    return x, tuple(crop)


def ext_ranges(n, cks, l, r, kind):
    """For each block of an axis of length n: the index range it holds after `overlap`, in the coordinates of the
    padded axis (padded only when the boundary kind is not "none")."""
    padl = l if (kind != "none" and (l, r) != (0, 0)) else 0
    offs = np.cumsum([0] + list(cks)).tolist()
    out = []
    for j in range(len(cks)):
        a = offs[j] + padl - l
        b = offs[j + 1] + padl + r
        if kind == "none":
            if j == 0:
                a = 0
            if j == len(cks) - 1:
                b = n
        out.append((a, b))
    return out


def np_overlap(x, chunks, lr, kinds, fn=None):
    padded, _ = pad_whole(x, lr, kinds)
    ranges = [ext_ranges(x.shape[ax], chunks[ax], lr[ax][0], lr[ax][1], kinds[ax]) for ax in range(x.ndim)]
    if fn is None:
        idx = [np.concatenate([np.arange(a, b) for a, b in rs]) if rs else np.arange(0) for rs in ranges]
        return padded[np.ix_(*idx)]
    nb = [len(rs) for rs in ranges]

    def rec(prefix, ax):
        if ax == len(nb):
            sl = tuple(slice(*ranges[j][i]) for j, i in enumerate(prefix))
            return fn(padded[sl])
        return [rec(prefix + [j], ax + 1) for j in range(nb[ax])]

    return np.block(rec([], 0))


def np_trim(y, chunks, lr, kinds):
    idx = []
    for ax in range(y.ndim):
        l, r = lr[ax]
        offs = np.cumsum([0] + list(chunks[ax])).tolist()
        keep = []
        nb = len(chunks[ax])
        for j in range(nb):
            a, b = offs[j], offs[j + 1]
            if not (kinds[ax] == "none" and j == 0):
                a += l
            if not (kinds[ax] == "none" and j == nb - 1):
                b -= r
            keep.append(np.arange(a, max(a, b)))
        idx.append(np.concatenate(keep) if keep else np.arange(0))
    return y[np.ix_(*idx)]


# =========================================================================== one step


class Prepared:
    __slots__ = ("step", "result", "want", "args", "keep", "exact", "sig", "status", "info")


def _same(got, want, exact):
    got = np.asarray(got)
    want = np.asarray(want)
    if got.shape != want.shape:
        return False
    if exact:
        return bool(np.array_equal(got, want))
    return bool(np.allclose(got, want, rtol=1e-9, atol=1e-9, equal_nan=True))


def _brief(a):
    a = np.asarray(a)
    return a.tolist() if a.size <= 48 else {"shape": list(a.shape), "head": a.ravel()[:12].tolist()}


def prepare(step):
    """Build the (lazy) collection of one step and its NumPy definition.  Returns a Prepared whose status is
    None (built), "oracle-rejects", "refused" or "raised"."""
    import dask_array as da

    p = Prepared()
    p.step = step
    p.result = p.want = None
    p.args = p.keep = None
    p.status = None
    p.info = None
    op = step["op"]
    var = step.get("variant", "plain")
    p.sig = "overlap-seq:" + op + ("" if var == "plain" else ":" + var)
    shape = tuple(step["shape"])
    chunks = tuple(tuple(int(c) for c in cs) for cs in step["chunks"])
    nd = len(shape)
    p.exact = step.get("dtype", "int") == "int"
    phase = "oracle"
    try:
        x = mk(shape, step["dseed"], step.get("dtype", "int"))
        if op in ("map_overlap", "overlap", "trim_overlap", "roundtrip"):
            lr = depth_lr(step["depth"], nd)
            kinds = bound_kinds(step["boundary"], nd)
            axes = [ax for ax in range(nd) if lr[ax] != (0, 0)]
            lefts = [lr[ax][0] for ax in axes]
            rights = [lr[ax][1] for ax in axes]
            depth = dec(step["depth"])
            boundary = dec(step["boundary"])
            fkw = dict(axes=axes, lefts=lefts, rights=rights)
            padded, crop = pad_whole(x, lr, kinds)
            whole = sten_lr(padded, **fkw)[crop]
        if op == "map_overlap":
            kw = {}
            if var == "plain" or var == "method":
                fn, want = sten_lr, whole
            elif var == "new_axis":
                pos = step["new_axis"]
                fn, want = f_newaxis, np.expand_dims(whole, tuple(pos) if isinstance(pos, list) else pos)
                fkw["pos"] = pos
                # the position class is part of the signature (distinct code paths: modulo of the position,
                # shifting of the per-axis depth / boundary past the new axis)
                if isinstance(pos, list):
                    p.sig += "-list"
                elif pos == nd:
                    p.sig += "-end"
                elif len({(lr[a], str(kinds[a])) for a in range(pos, nd)}) > 1:
                    p.sig += "-shift"
                kw["new_axis"] = list(pos) if isinstance(pos, list) else pos
            elif var == "drop_axis":
                k = int(step["drop_axis"])
                cut = lr[k] if kinds[k] != "none" else (0, 0)
                fn, want = f_drop, whole.sum(axis=k)
                fkw.update(k=k, cut=list(cut))
                kw["drop_axis"] = [k] if step.get("drop_as_list") else k
            elif var == "notrim":
                fn = sten_lr
                want = np_overlap(x, chunks, lr, kinds, fn=lambda b: sten_lr(b, **fkw))
                kw["trim"] = False
                if step.get("give_chunks"):
                    # the spelling sliding_window_view itself uses: trim=False with the output chunks spelled out
                    kw["chunks"] = tuple(tuple(b - a for a, b in ext_ranges(shape[ax], chunks[ax], lr[ax][0], lr[ax][1], kinds[ax])) for ax in range(nd))
                    p.sig += "+chunks"
            elif var == "two":
                y = mk(shape, step["dseed"] + 7919, step.get("dtype", "int"))
                py, _ = pad_whole(y, lr, kinds)
                fn, want = f_two, whole + 3 * sten_lr(py, **fkw)[crop]
            else:
                raise KeyError(var)
            p.want = want
            phase = "impl"
            d = da.from_array(x, chunks=chunks)
            if step.get("allow_rechunk") is False:
                kw["allow_rechunk"] = False
            p.args = {"depth": depth, "boundary": boundary, "kw": kw}
            p.keep = copy.deepcopy(p.args)
            if var == "two":
                ychunks = tuple(tuple(int(c) for c in cs) for cs in step["chunks2"])
                p.result = da.map_overlap(fn, d, da.from_array(y, chunks=ychunks), depth=depth, boundary=boundary, dtype=x.dtype, **kw, **fkw)
            elif var == "method":
                p.result = d.map_overlap(fn, depth, boundary, dtype=x.dtype, **fkw)
            else:
                p.result = da.map_overlap(fn, d, depth=depth, boundary=boundary, dtype=x.dtype, **kw, **fkw)
        elif op == "overlap":
            p.want = np_overlap(x, chunks, lr, kinds)
            phase = "impl"
            d = da.from_array(x, chunks=chunks)
            p.args = {"depth": depth, "boundary": boundary}
            p.keep = copy.deepcopy(p.args)
            okw = {"allow_rechunk": False} if step.get("allow_rechunk") is False else {}
            p.result = da.overlap(d, depth=depth, boundary=boundary, **okw)
        elif op == "trim_overlap":
            p.want = np_trim(x, chunks, lr, kinds)
            phase = "impl"
            d = da.from_array(x, chunks=chunks)
            p.args = {"depth": depth, "boundary": boundary}
            p.keep = copy.deepcopy(p.args)
            p.result = da.trim_overlap(d, depth, boundary=boundary)
        elif op == "roundtrip":
            p.want = x
            phase = "impl"
            d = da.from_array(x, chunks=chunks)
            p.args = {"depth": depth, "boundary": boundary}
            p.keep = copy.deepcopy(p.args)
            p.result = da.trim_overlap(da.overlap(d, depth=depth, boundary=boundary), depth, boundary=boundary)
        elif op == "swv":
            w = int(step["window"])
            ax = int(step["axis"])
            p.want = SWV(x, w, axis=ax)
            phase = "impl"
            p.result = da.sliding_window_view(da.from_array(x, chunks=chunks), w, axis=ax)
        elif op == "move":
            import bottleneck as bn

            w = int(step["window"])
            ax = int(step["axis"])
            p.exact = False
            fn = getattr(bn, step["func"])
            p.want = fn(x, w, min_count=step.get("min_count"), axis=ax)
            phase = "impl"
            p.result = da.map_overlap(fn, da.from_array(x, chunks=chunks), depth={ax: (w - 1, 0)}, boundary="none", window=w,
                                      min_count=step.get("min_count"), axis=ax, dtype=float)
        elif op == "gradient":
            ax = int(step["axis"])
            p.exact = False
            p.want = np.gradient(x.astype(float), float(step["spacing"]), axis=ax)
            phase = "impl"
            p.result = da.gradient(da.from_array(x, chunks=chunks), float(step["spacing"]), axis=ax)
        else:
            raise KeyError(op)
    except Exception as e:  # noqa: BLE001
        if phase == "oracle":
            p.status = "oracle-rejects"
        elif any(isinstance(e, c) and s in str(e) for c, s in REFUSALS):
            p.status = "refused"
        else:
            p.status = "raised"
            p.info = f"{type(e).__name__}: {str(e)[:300]}"
    return p


def finish(p):
    """Compute a prepared step, compare with its definition and check that the arguments handed in are unchanged."""
    if p.status is not None:
        return
    try:
        got = p.result.compute()
    except Exception as e:  # noqa: BLE001
        if any(isinstance(e, c) and s in str(e) for c, s in REFUSALS):
            p.status = "refused"
        else:
            p.status = "raised"
            p.info = f"{type(e).__name__}: {str(e)[:300]}"
        return
    if p.args is not None and (p.args != p.keep or repr(p.args) != repr(p.keep)):
        p.status = "mutated"
        p.info = {"before": repr(p.keep), "after": repr(p.args)}
        return
    if tuple(p.result.shape) != tuple(np.shape(p.want)) and _same(got, p.want, p.exact):
        p.status = "meta"
        p.info = f"declared shape {tuple(p.result.shape)} != NumPy shape {tuple(np.shape(p.want))}"
        return
    if not _same(got, p.want, p.exact):
        p.status = "bad"
        p.info = {"got": _brief(got), "want": _brief(p.want)}
        return
    p.status = "ok"


FAIL_SUFFIX = {"raised": ":raises", "mutated": ":argument-mutated", "meta": ":meta", "bad": ""}


def eval_case(case):
    """Run every step of a sequence case.  Returns one [status, signature-if-failing, info] per step."""
    import dask

    steps = case["steps"]
    mode = case.get("mode", "eager")
    with warnings.catch_warnings(), dask.config.set(scheduler="sync"):
        warnings.simplefilter("ignore")
        if mode == "lazy":
            ps = [prepare(s) for s in steps]
            order = case.get("order") or list(range(len(ps)))
            for j in order:
                finish(ps[j])
        else:
            ps = []
            for s in steps:
                p = prepare(s)
                finish(p)
                ps.append(p)
    out = []
    for p in ps:
        sig = None
        if p.status == "mutated":
            sig = "overlap-seq:" + p.step["op"] + FAIL_SUFFIX["mutated"]  # one class per entry point
        elif p.status in FAIL_SUFFIX:
            sig = p.sig + FAIL_SUFFIX[p.status]
        out.append([p.status, sig, p.info])
    return out


# =========================================================================== fresh-interpreter confirmation


def fresh_eval(cases, timeout=240.0):
    """Evaluate sequence cases, in order, in ONE brand-new interpreter (same environment, so VERIF_REPO is honoured).
    Returns, per case, the list of [status, sig, info] per step."""
    code = (
        "import sys, json, warnings\n"
        "warnings.simplefilter('ignore')\n"
        "from harness.props_ext import c19_seq as M\n"
        "out = []\n"
        "for c in json.load(sys.stdin):\n"
        "    out.append(M.eval_case(c))\n"
        "sys.stdout.write('\\n@@FRESH@@' + json.dumps(out))\n"
    )
    p = subprocess.run([sys.executable, "-c", code], input=json.dumps(cases), capture_output=True, text=True,
                       cwd=str(VERIF), env=dict(os.environ), timeout=timeout)
    if p.returncode != 0 or "@@FRESH@@" not in p.stdout:
        raise RuntimeError(f"fresh interpreter failed ({p.returncode}): {p.stderr[-600:]}")
    return json.loads(p.stdout.rsplit("@@FRESH@@", 1)[1])


class SeqRunner:
    """Runs sequence cases in the search process, remembers the steps made so far, and turns every failure into a
    self-contained case confirmed in a fresh interpreter."""

    MAX_FRESH = 12  # interpreters started for confirmation / shortening in one run

    def __init__(self, ctx):
        self.ctx = ctx
        self.history = []  # steps of all earlier sequence cases, in call order
        self.fresh_used = 0
        self.reported = {}
        self.state_dependent = False

    def _fresh(self, case, j=-1):
        """[status, sig] of step j of `case` when the case is the only thing a fresh interpreter runs."""
        self.fresh_used += 1
        try:
            return fresh_eval([case])[0][j]
        except Exception as e:  # noqa: BLE001
            self.ctx.notes["seq.fresh_errors"] = self.ctx.notes.get("seq.fresh_errors", 0) + 1
            self.ctx.notes["seq.fresh_last_error"] = repr(e)[:200]
            return ["error", None, None]

    def run(self, case, key=()):
        ctx = self.ctx
        res = eval_case(case)
        for (st_, _, _), s in zip(res, case["steps"]):
            ctx.count(("ovseq", s["op"], s.get("variant", "plain"), form_of(s.get("depth")), form_of(s.get("boundary")), st_) + tuple(key))
        ctx.notes["search.ovseq"] = ctx.notes.get("search.ovseq", 0) + 1
        ctx.notes["search.ovseq.steps"] = ctx.notes.get("search.ovseq.steps", 0) + len(case["steps"])
        bad = [j for j, r in enumerate(res) if r[0] in FAIL_SUFFIX]
        for j in bad:
            self._report(case, j, res[j][1], res[j][2])
        self.history.extend(case["steps"])
        if not bad and ctx.rng.random() < 0.01:
            ctx.sample(case)
        return "fail" if bad else "ok"

    def _report(self, case, j, sig, info):
        ctx = self.ctx
        if sig in self.reported:
            # core prints one replay per signature; further ones are only counted
            self.reported[sig] += 1
            ctx.notes["seq.more_failures_same_signature"] = ctx.notes.get("seq.more_failures_same_signature", 0) + 1
            return
        self.reported[sig] = 1
        out = dict(case, failing_step=j, info=info)
        if self.fresh_used >= self.MAX_FRESH:
            if self.state_dependent:
                # the interpreter is known to carry state from earlier calls: an unconfirmed case may not replay
                ctx.notes["seq.unconfirmed_after_state_dependence"] = ctx.notes.get("seq.unconfirmed_after_state_dependence", 0) + 1
                return
            ctx.fail(sig, out, "a step of the sequence differs from its NumPy definition (not re-run in a fresh interpreter: budget)")
            return
        steps = case["steps"]
        mode = case.get("mode", "eager")
        # 1. the failing call on its own, as the first overlap-family call of a fresh interpreter
        alone = {"kind": "ovseq", "mode": "eager", "steps": [steps[j]]}
        ra = self._fresh(alone)
        if ra[0] in FAIL_SUFFIX:
            ctx.fail(ra[1], dict(alone, failing_step=0, info=ra[2]), "the call differs from its NumPy definition")
            return
        self.state_dependent = True
        # 2. the steps of this case alone
        if len(steps) > 1:
            r = self._fresh(case, j)
            if r[0] in FAIL_SUFFIX:
                short = self._shorten([], steps[:j], steps[j], mode, dict(case, failing_step=j))
                ctx.fail("order-dependent:" + r[1], dict(short, info=info, failing_sig=r[1]),
                         "the call computes its NumPy definition in a fresh interpreter but not after the other calls of this case")
                return
        # 3. depends on calls made by earlier cases of this run
        full = {"kind": "ovseq", "mode": "eager", "steps": list(self.history) + list(steps[: j + 1])}
        rf = self._fresh(full)
        if rf[0] not in FAIL_SUFFIX:
            ctx.fail("order-dependent-unreproduced:" + sig, out,
                     "failed in the search process but neither alone nor after the recorded earlier overlap calls in a fresh interpreter")
            return
        short = self._shorten(list(self.history), steps[:j], steps[j], "eager", dict(full, failing_step=len(full["steps"]) - 1))
        ctx.fail("order-dependent:" + sig, dict(short, info=info, failing_sig=sig),
                 "the call computes its NumPy definition in a fresh interpreter but not after earlier overlap-family calls")

    def _shorten(self, history, prefix, victim, mode, fallback):
        """Bisect the steps before `victim` down to a short list that still makes it fail in a fresh interpreter."""
        before = list(history) + list(prefix)
        best = before

        def fails(steps):
            if self.fresh_used >= self.MAX_FRESH:
                return False
            c = {"kind": "ovseq", "mode": "eager", "steps": list(steps) + [victim]}
            return self._fresh(c)[0] in FAIL_SUFFIX

        # single culprits first (the usual shape: one call poisons a later one)
        if len(before) <= 6:
            for s in list(reversed(before))[:4]:
                if fails([s]):
                    return {"kind": "ovseq", "mode": "eager", "steps": [s, victim], "failing_step": 1}
        while len(best) > 1 and self.fresh_used < self.MAX_FRESH:
            half = len(best) // 2
            a, b = best[:half], best[half:]
            if fails(b):
                best = b
            elif fails(a):
                best = a
            else:
                break
        if best is before and mode != "eager":
            return dict(fallback)
        return {"kind": "ovseq", "mode": "eager", "steps": list(best) + [victim], "failing_step": len(best)}


def form_of(spec):
    if isinstance(spec, dict):
        k = next(iter(spec))
        if k == "l":
            return "list(" + ",".join(form_of(v) for v in spec["l"]) + ")"
        if k == "d":
            return "dict-asym" if any(isinstance(v, dict) for _, v in spec["d"]) else "dict"
        return "tuple-asym" if any(isinstance(v, dict) for v in spec["t"]) else "tuple"
    return "none" if spec is None else "scalar"


# =========================================================================== generators


BOUNDS = ["periodic", "reflect", "nearest", "none", 7]


def safe_chunks(rng, n, l, r, kind, need=0):
    """Chunks of an axis of length n for which `overlap` needs no automatic rechunk (every chunk ≥ depth; with
    boundary "none" the edge chunks exceed their missing halo); `need`: every chunk ≥ need as well."""
    m = max(l, r, need, 1)
    if n < 2 * m + 2 or rng.random() < 0.15:
        return [n]
    parts = []
    left = n
    while left > 0:
        c = rng.randint(m, max(m, min(left, m + 3)))
        if left - c < m + 1:
            c = left
        parts.append(c)
        left -= c
    if kind == "none" and len(parts) > 1:
        if parts[0] <= l:
            parts[0:2] = [parts[0] + parts[1]]
        if len(parts) > 1 and parts[-1] <= r:
            parts[-2:] = [parts[-2] + parts[-1]]
    return parts


def enc_depth(per, form, rng, partial_ok=True):
    """Spell per-axis depths `per` (ints or [l, r]) in the requested form."""
    def e(v):
        return {"t": list(v)} if isinstance(v, (list, tuple)) else int(v)

    if form == "scalar":
        return int(per[0])
    if form == "tuple":
        return {"t": [e(v) for v in per]}
    items = [[ax, e(v)] for ax, v in enumerate(per)]
    if partial_ok:
        items = [it for it in items if it[1] != 0 or rng.random() < 0.5]
    if rng.random() < 0.3:
        items = items[::-1]
    d = {"d": items}
    if form == "dict":
        return d
    if form == "list":
        return {"l": [d if rng.random() < 0.5 else {"t": [e(v) for v in per]}]}
    raise KeyError(form)


def enc_boundary(kinds, form, rng):
    if form == "scalar":
        return kinds[0]
    if form == "none":
        return None
    if form == "tuple":
        return {"t": list(kinds)}
    items = [[ax, k] for ax, k in enumerate(kinds) if k != "none" or rng.random() < 0.5]
    return {"d": items}


class Scenario:
    """A fixed (ndim, shape, depth spec, boundary spec) that the steps of one sequence share."""

    def __init__(self, rng, nd=None, dform=None, bform=None, asym=False):
        self.rng = rng
        self.nd = nd or rng.choice([1, 2, 2, 2, 3])
        self.dform = dform or rng.choice(["scalar", "scalar", "tuple", "tuple", "dict", "list"])
        self.bform = bform or rng.choice(["scalar", "scalar", "tuple", "dict"])
        hi = 9 if self.nd < 3 else 6
        self.shape = [rng.randint(5, hi) for _ in range(self.nd)]
        if self.dform == "scalar":
            dep = rng.choice([1, 1, 2])
            self.per = [dep] * self.nd
        else:
            self.per = [rng.choice([0, 1, 1, 2]) for _ in range(self.nd)]
            if not any(self.per):
                self.per[rng.randrange(self.nd)] = 1
            if len(set(self.per)) == 1 and self.nd > 1 and rng.random() < 0.7:
                # distinct depths per axis: a depth landing on the wrong axis must be visible
                self.per[0] = 1 if self.per[0] != 1 else 2
        if self.bform in ("scalar", "none"):
            self.kinds = [rng.choice(BOUNDS)] * self.nd if self.bform == "scalar" else ["none"] * self.nd
        else:
            self.kinds = [rng.choice(BOUNDS) for _ in range(self.nd)]
        if asym and self.dform != "scalar":
            ax = rng.randrange(self.nd)
            self.per[ax] = rng.choice([[1, 0], [0, 1], [2, 1], [0, 2]])
            self.kinds[ax] = "none"
            if self.bform == "scalar":
                self.kinds = ["none"] * self.nd
        self.depth = enc_depth(self.per, self.dform, rng)
        self.boundary = enc_boundary(self.kinds, self.bform, rng)
        self.k = 0

    def lr(self, ax):
        v = self.per[ax]
        return (v, v) if isinstance(v, int) else tuple(v)

    def respell(self):
        """Same per-axis meaning, possibly another spelling (only ever to an equal-meaning form)."""
        rng = self.rng
        forms = ["tuple", "dict", "list"]
        if all(isinstance(v, int) for v in self.per) and len(set(self.per)) == 1:
            forms.append("scalar")
        f = rng.choice(forms)
        return enc_depth(self.per, f, rng, partial_ok=True)

    def step(self, op, variant="plain", dseed=0, same_spelling=True, **extra):
        rng = self.rng
        nd = self.nd
        need = [0] * nd
        shape = list(self.shape)
        st = {"op": op, "variant": variant, "dseed": int(dseed), "dtype": "int"}
        depth = self.depth if same_spelling else self.respell()
        if op != "map_overlap":
            depth = first_of_list(depth)  # a per-array list is a map_overlap spelling only
        boundary = self.boundary
        kinds = list(self.kinds)
        per = list(self.per)
        if op in ("swv", "gradient", "move"):
            ax = rng.randrange(nd)
            if op == "move":
                w = rng.randint(1, min(4, shape[ax]))
                st.update(window=w, axis=ax, func=rng.choice(["move_sum", "move_mean", "move_min", "move_max"]), min_count=rng.choice([None, 1]), dtype="float")
                chunks = [list(_rand_chunks(rng, s)) for s in shape]
            elif op == "swv":
                w = rng.choice([2, 2, 3])
                st.update(window=w, axis=ax)
                chunks = [list(_rand_chunks(rng, s)) for s in shape]
            else:
                st.update(axis=ax, spacing=rng.choice([1.0, 0.5]), dtype="float")
                chunks = [safe_chunks(rng, s, 1, 1, "reflect", need=2) for s in shape]
            st.update(shape=shape, chunks=chunks)
            return st
        if op == "trim_overlap":
            need = [sum(self.lr(ax)) + 1 for ax in range(nd)]
            shape = [max(s, n_ + 1) for s, n_ in zip(shape, need)]
        structured = op in ("overlap", "trim_overlap", "roundtrip") or variant == "notrim"
        chunks = []
        for ax in range(nd):
            l, r = self.lr(ax)
            if structured:
                chunks.append(safe_chunks(rng, shape[ax], l, r, kinds[ax], need=need[ax]))
            else:
                chunks.append(list(_rand_chunks(rng, shape[ax])))
        if structured and op in ("map_overlap", "overlap") and variant in ("plain", "notrim") and rng.random() < 0.25:
            st["allow_rechunk"] = False
        elif op == "map_overlap" and variant == "plain" and rng.random() < 0.1:
            # every chunk at least as long as the depth: allow_rechunk=False must not change anything
            chunks = [safe_chunks(rng, shape[ax], *self.lr(ax), kinds[ax]) for ax in range(nd)]
            st["allow_rechunk"] = False
        if variant == "new_axis":
            pos = extra.get("pos")
            if pos is None:
                pos = rng.choice([0, 0, nd, rng.randint(0, nd), rng.randint(0, nd), [0, nd + 1], [rng.randint(0, nd), nd + 1]])
            st["new_axis"] = pos
        elif variant == "drop_axis":
            k = extra.get("k")
            if k is None:
                k = rng.randrange(nd)
            chunks[k] = [shape[k]]
            st["drop_axis"] = k
            st["drop_as_list"] = rng.random() < 0.3
        elif variant == "notrim":
            # plain trim=False (no chunks=) with a real halo is a recorded finding (advertises the input's shape and
            # raises at compute): probed once in `fixed_probes`; here it is spelled with chunks= unless no halo is added
            halo = any(self.lr(ax) != (0, 0) and not (kinds[ax] == "none" and len(chunks[ax]) == 1) for ax in range(nd))
            st["give_chunks"] = bool(halo or rng.random() < 0.5)
        elif variant == "two":
            st["chunks2"] = [list(_rand_chunks(rng, s)) for s in shape]
            if isinstance(depth, dict) and "l" in depth:
                depth = {"l": [depth["l"][0], self.respell_nolist()]}
            elif rng.random() < 0.5:
                depth = {"l": [first_of_list(depth), self.respell_nolist()]}
        st.update(shape=shape, chunks=chunks, depth=depth, boundary=boundary)
        return st

    def respell_nolist(self):
        d = self.respell()
        return d["l"][0] if isinstance(d, dict) and "l" in d else d


def _rand_chunks(rng, n):
    from harness import gen

    return gen.rand_chunks(rng, n, maxparts=5)


POLLUTERS = [
    ("map_overlap", "new_axis", {"pos": 0}),
    ("map_overlap", "new_axis", {"pos": "end"}),
    ("map_overlap", "new_axis", {"pos": "mid"}),
    ("map_overlap", "drop_axis", {}),
    ("map_overlap", "notrim", {}),
    ("map_overlap", "two", {}),
    ("map_overlap", "method", {}),
    ("roundtrip", "plain", {}),
]
VICTIMS = [
    ("map_overlap", "plain"),
    ("overlap", "plain"),
    ("trim_overlap", "plain"),
    ("roundtrip", "plain"),
    ("map_overlap", "new_axis"),
    ("map_overlap", "notrim"),
    ("map_overlap", "drop_axis"),
    ("swv", "plain"),
    ("gradient", "plain"),
    ("map_overlap", "two"),
    ("move", "plain"),
]


def _pos(extra, nd, rng):
    p = extra.get("pos")
    if p == "end":
        return {"pos": nd}
    if p == "mid":
        return {"pos": rng.randint(1, nd)}
    return dict(extra)


def grid_cases(rng, k0):
    """Systematic part: every polluter kind × every depth spelling × ndim 1..2(3), each followed by victims that
    share its (ndim, depth, boundary) — spelled identically and differently — and by one that does not."""
    k = k0
    vi = 0
    for dform in ("scalar", "tuple", "dict", "list"):
        for pi, (pop, pvar, pextra) in enumerate(POLLUTERS):
            for nd in (1, 2, 3) if (pi + len(dform)) % 3 == 0 else (1, 2) if pi % 2 else (2,):
                if pvar == "drop_axis" and nd == 1:
                    continue
                sc = Scenario(rng, nd=nd, dform=dform, bform=rng.choice(["scalar", "scalar", "tuple", "dict"]))
                steps = []
                v0 = VICTIMS[vi % len(VICTIMS)]
                vi += 1
                k += 1
                steps.append(sc.step(v0[0], v0[1], dseed=k))
                k += 1
                steps.append(sc.step(pop, pvar, dseed=k, **_pos(pextra, nd, rng)))
                k += 1
                steps.append(sc.step(v0[0], v0[1], dseed=k))
                for _ in range(2):
                    v = VICTIMS[vi % len(VICTIMS)]
                    vi += 1
                    k += 1
                    steps.append(sc.step(v[0], v[1], dseed=k, same_spelling=rng.random() < 0.6))
                other = Scenario(rng, nd=nd)
                k += 1
                steps.append(other.step(*VICTIMS[vi % 4], dseed=k))
                steps = [s for s in steps if not (s.get("variant") == "drop_axis" and len(s["shape"]) == 1)]
                yield {"kind": "ovseq", "mode": "eager", "steps": steps}, ("grid", dform, pvar, nd)
    # asymmetric depths (boundary "none" on that axis), tuple and dict spellings
    for dform in ("tuple", "dict", "list"):
        for nd in (1, 2):
            sc = Scenario(rng, nd=nd, dform=dform, bform=rng.choice(["tuple", "dict"]), asym=True)
            steps = []
            for (op, var) in (("map_overlap", "plain"), ("map_overlap", "new_axis"), ("overlap", "plain"), ("map_overlap", "plain"),
                              ("roundtrip", "plain"), ("map_overlap", "notrim")):
                k += 1
                steps.append(sc.step(op, var, dseed=k, same_spelling=rng.random() < 0.7))
            yield {"kind": "ovseq", "mode": "eager", "steps": steps}, ("grid-asym", dform, nd)


def random_case(rng, k0):
    sc = Scenario(rng, asym=rng.random() < 0.15)
    scs = [sc]
    steps = []
    k = k0
    n = rng.randint(3, 6)
    for _ in range(n):
        k += 1
        if rng.random() < 0.25:
            # another scenario: same ndim (equal or different depth / boundary) or another ndim
            scs.append(Scenario(rng, nd=sc.nd if rng.random() < 0.7 else None))
        s = scs[-1] if rng.random() < 0.5 else rng.choice(scs)
        op, var = rng.choice(VICTIMS + [("map_overlap", "new_axis"), ("map_overlap", "new_axis"), ("map_overlap", "drop_axis"), ("map_overlap", "method")])
        if var == "drop_axis" and s.nd == 1:
            var = "new_axis"
        steps.append(s.step(op, var, dseed=k, same_spelling=rng.random() < 0.6))
    case = {"kind": "ovseq", "mode": "eager" if rng.random() < 0.6 else "lazy", "steps": steps}
    if case["mode"] == "lazy":
        order = list(range(len(steps)))
        if rng.random() < 0.5:
            rng.shuffle(order)
        case["order"] = order
    return case, ("random", sc.nd, sc.dform, case["mode"])


def fixed_probes():
    """Single calls kept as fixed probes (recorded findings / repaired defects)."""
    yield {"kind": "ovseq", "mode": "eager", "steps": [
        {"op": "map_overlap", "variant": "notrim", "dseed": 1, "dtype": "int", "shape": [5], "chunks": [[3, 2]], "depth": 1, "boundary": 7}]}, ("probe", "notrim-plain")
    for step in (
        {"op": "map_overlap", "variant": "new_axis", "dseed": 2, "dtype": "int", "new_axis": 1, "shape": [5], "chunks": [[5]], "depth": 1, "boundary": 7},
        {"op": "map_overlap", "variant": "new_axis", "dseed": 3, "dtype": "int", "new_axis": 0, "shape": [3, 4], "chunks": [[3], [2, 2]], "depth": {"t": [0, 1]}, "boundary": "nearest"},
        {"op": "map_overlap", "variant": "new_axis", "dseed": 4, "dtype": "int", "new_axis": 0, "shape": [3, 4], "chunks": [[3], [2, 2]], "depth": 1, "boundary": {"t": ["nearest", "none"]}},
        {"op": "map_overlap", "variant": "new_axis", "dseed": 5, "dtype": "int", "new_axis": [1, 2], "shape": [7], "chunks": [[3, 4]], "depth": 1, "boundary": 7},
    ):
        yield {"kind": "ovseq", "mode": "eager", "steps": [step]}, ("probe", "new_axis")


def search(ctx, runner=None):
    rng = ctx.rng
    runner = runner or SeqRunner(ctx)
    k = 5 * 10**6
    for case, key in fixed_probes():
        runner.run(case, key[:1])
    for case, key in grid_cases(rng, k):
        runner.run(case, key[:1])
        k += 16
    for _ in range(ctx.scale(100, 600)):
        case, key = random_case(rng, k)
        k += 16
        runner.run(case, key[:1])
    ctx.notes["seq.fresh_interpreters"] = runner.fresh_used
    return runner


def replay(ctx, case):
    """Replay of a reported case (a fresh process by construction): the step named by `failing_step` (else any)."""
    want = case.get("failing_step")
    case = {k: v for k, v in case.items() if k not in ("info", "failing_step", "failing_sig")}
    res = eval_case(case)
    bad = [j for j, r in enumerate(res) if r[0] in FAIL_SUFFIX]
    if want is not None and want in bad:
        bad = [want]
    if bad:
        j = bad[0]
        ctx.fail(res[j][1], dict(case, failing_step=j, info=res[j][2]), "a step of the sequence differs from its NumPy definition")
        return "bad"
    return "ok"
