"""C07 extension — sources, creation / random API, store targets, and in-place updates.

Adds to the C07 program language (all steps are plain JSON, a replay needs nothing else):

* `src` steps with an `"fa"` specification: every keyword of `from_array` that takes an object or a flag
  (lock= False/True/SerializableLock(name)/SerializableLock()/threading.Lock/RLock, getitem=, meta=, asarray=,
  inline_array=, name=, fancy=, the several spellings of `chunks=`), other containers for the data (Fortran order,
  strided view, nested list, masked array, array-likes with and without a deterministic tokenization), and the
  sibling entry points `asarray` / `asanyarray` / `array`;
* `create` steps: every creation function and the random API (Generator, RandomState, module level after `seed`)
  with explicit seeds, `from_delayed`, `from_map`, `fromfunction`, `from_npy_stack`;
* `store` steps: `store(x, target, lock=, regions=, return_stored=, compute=False)`;
* `peek` steps (somebody READS keys / Frisky keys / graph / name / chunks of a collection) and IN-PLACE updates of
  the SAME collection object (`x[idx] = v`, `x[mask] = v`, ufunc `out=`, reduction `out=`, `compute_chunk_sizes`,
  the `_chunks` setter), in both orders.

The ORACLE for "must this be deterministic" never looks at dask_array: two sets of argument objects are built
from the specification (equal but distinct) and `dask.tokenize._tokenize_deterministic` is asked whether each
pair tokenizes deterministically and equally.  When it does, equal names are required (same process, both
objects alive; fresh processes); when it does not — or the keyword is a documented request for a unique name
(`name=False`, `name="str"`, `lock=True`) — only per-instance and pickle stability are required.
"""
from __future__ import annotations

import copy
import functools
import hashlib
import json
import operator
import os
import pickle
import tempfile
import threading

import numpy as np

from harness import gen, programs
from harness.programs import _dec_index, _enc_index, _Skip


# ------------------------------------------------------------------ objects named by the specifications

def getter_plain(a, idx):
    return a[idx]


def getter_scaled(a, idx, k=1):
    return a[idx] * k


def fm_block(v, width=2):
    return np.full((width,), v, dtype=np.int64)


def ff_sum(*idx):
    return sum(idx)


def mk_ones(shape):
    return np.ones(shape, dtype=np.int64)


class TokArrayLike:
    """array-like whose tokenization is a pure function of its content (like a store addressed by a URL)"""

    def __init__(self, a):
        self.a = a
        self.shape = a.shape
        self.dtype = a.dtype
        self.ndim = a.ndim

    def __getitem__(self, idx):
        return self.a[idx]

    def __setitem__(self, idx, v):
        self.a[idx] = v

    def __dask_tokenize__(self):
        from dask.tokenize import normalize_token

        return ("TokArrayLike", normalize_token(self.a))


class UntokArrayLike(TokArrayLike):
    def __dask_tokenize__(self):
        from dask.tokenize import TokenizationError

        raise TokenizationError("UntokArrayLike (harness): no deterministic tokenization")


LOCKS = [False, None, True, ["ser", "disk-io"], ["ser", "t2"], ["ser"], "thread", "rlock"]
GETITEMS = [None, "operator.getitem", "getter_plain", "partial", "partial_k1"]
METAS = [None, "ndarray0", "ndarray0_f8"]
DATAS = ["ndarray", "fortran", "strided", "list", "readonly", "masked", "tok_arraylike", "untok_arraylike"]
NAMES = [None, True, False, "custom-name"]
VIAS = ["from_array", "asarray", "asanyarray", "asanyarray_inline", "array"]
CHUNK_FORMS = ["explicit", "blockshape", "int", "minus1", "none_axis"]


def make_lock(spec):
    from dask.utils import SerializableLock

    if spec in (False, None, True):
        return spec
    if spec == "thread":
        return threading.Lock()
    if spec == "rlock":
        return threading.RLock()
    if isinstance(spec, list) and spec[0] == "ser":
        return SerializableLock(spec[1]) if len(spec) > 1 else SerializableLock()
    raise KeyError(spec)


def make_getitem(spec):
    if spec is None:
        return None
    if spec == "operator.getitem":
        return operator.getitem
    if spec == "getter_plain":
        return getter_plain
    if spec == "partial":
        return functools.partial(getter_plain)
    if spec == "partial_k1":
        return functools.partial(getter_scaled, k=1)
    raise KeyError(spec)


def make_meta(spec, ndim, dtype):
    if spec is None:
        return None
    if spec == "ndarray0":
        return np.empty((0,) * ndim, dtype=dtype)
    if spec == "ndarray0_f8":
        # a meta of another dtype: what a block "will look like" is the caller's claim
        return np.empty((0,) * ndim, dtype="float64")
    raise KeyError(spec)


def make_data(kind, step):
    data = programs.source_data(step)
    if kind == "ndarray":
        return data
    if kind == "fortran":
        return np.asfortranarray(data)
    if kind == "strided":
        big = np.zeros(tuple(2 * d for d in data.shape), dtype=data.dtype)
        view = big[tuple(slice(None, None, 2) for _ in data.shape)]
        view[...] = data
        return view
    if kind == "list":
        return data.tolist()
    if kind == "readonly":
        data.setflags(write=False)
        return data
    if kind == "masked":
        return np.ma.masked_array(data, mask=(data % 5 == 0))
    if kind == "tok_arraylike":
        return TokArrayLike(data)
    if kind == "untok_arraylike":
        return UntokArrayLike(data)
    raise KeyError(kind)


def chunks_argument(step):
    """the `chunks=` argument in the spelling asked for by the step (the explicit chunking is step['chunks'])"""
    form = step["fa"].get("chunks_form", "explicit")
    ch = step["chunks"]
    if form == "explicit":
        return tuple(tuple(c) for c in ch)
    if form == "blockshape":
        return tuple(c[0] for c in ch)
    if form == "int":
        return ch[0][0] if ch else 1
    if form == "minus1":
        return -1
    if form == "none_axis":
        return tuple(None for _ in ch)
    raise KeyError(form)


def form_chunks(form, shape, k):
    """explicit chunking produced by the spelling `form` with block size k (computed here, not by dask_array)"""
    def uni(n, c):
        if n == 0:
            return [0]
        out = [c] * (n // c)
        if n % c:
            out.append(n % c)
        return out

    if form in ("minus1", "none_axis"):
        return [[n] for n in shape]
    if form == "int":
        return [uni(n, k) for n in shape]
    raise KeyError(form)


def fa_objects(step):
    """fresh argument objects of a from_array-like source step: (data, kwargs)"""
    fa = step["fa"]
    data = make_data(fa.get("data", "ndarray"), step)
    base = programs.source_data(step)
    kw = {}
    if "lock" in fa:
        kw["lock"] = make_lock(fa["lock"])
    if fa.get("getitem") is not None:
        kw["getitem"] = make_getitem(fa["getitem"])
    if fa.get("meta") is not None:
        kw["meta"] = make_meta(fa["meta"], base.ndim, base.dtype)
    for k in ("asarray", "inline_array", "name", "fancy"):
        if k in fa:
            kw[k] = fa[k]
    return data, kw


def build_source(step, m):
    fa = step["fa"]
    via = fa.get("via", "from_array")
    data, kw = fa_objects(step)
    if via == "from_array":
        return m.from_array(data, chunks=chunks_argument(step), **kw)
    if via == "asarray":
        return m.asarray(data)
    if via == "asanyarray":
        return m.asanyarray(data)
    if via == "asanyarray_inline":
        return m.asanyarray(data, inline_array=True)
    if via == "array":
        return m.array(data)
    raise KeyError(via)


# ------------------------------------------------------------------ the oracle (dask.tokenize only)

def _tok(o):
    from dask.tokenize import _tokenize_deterministic

    return _tokenize_deterministic(o)


def pair_deterministic(a, b):
    """do two equal-but-distinct argument objects tokenize deterministically AND equally?"""
    from dask.tokenize import TokenizationError

    try:
        return _tok(a) == _tok(b)
    except TokenizationError:
        return False
    except Exception:
        return False


def _lock_nondet(spec):
    if spec is True:
        return "lock=True (dask makes a new lock per call)"
    a, b = make_lock(spec), make_lock(spec)
    if a in (False, None):
        return None
    if not pair_deterministic(a, b):
        return f"lock={spec} has no deterministic tokenization"
    return None


@functools.lru_cache(maxsize=4096)
def _step_nondet(step_json):
    step = json.loads(step_json)
    op = step["op"]
    if op == "src" and step.get("fa"):
        fa = step["fa"]
        if fa.get("via", "from_array") == "from_array":
            if fa.get("name") is False:
                return "name=False"
            if isinstance(fa.get("name"), str):
                return "name=<str> (exact name, unique token)"
            if "lock" in fa:
                r = _lock_nondet(fa["lock"])
                if r:
                    return r
        d1, kw1 = fa_objects(step)
        d2, kw2 = fa_objects(step)
        if not isinstance(d1, list) and not pair_deterministic(d1, d2):
            return "source object has no deterministic tokenization"
        for k in ("getitem", "meta"):
            if k in kw1 and not pair_deterministic(kw1[k], kw2[k]):
                return f"{k}= has no deterministic tokenization"
        return None
    if op == "store":
        r = _lock_nondet(step.get("lock", False))
        if r:
            return r
        t1, t2 = make_target(step), make_target(step)
        if not pair_deterministic(t1, t2):
            return "store target has no deterministic tokenization"
        return None
    if op in ("create", "aop"):
        # array-valued / list-valued parameters and operands: determinism is required exactly when dask.tokenize tokenizes
        # two equal-but-distinct parameter objects deterministically and equally
        for a, b in zip(param_objects(step), param_objects(step)):
            if not pair_deterministic(a, b):
                return f"{op} parameter object ({type(a).__name__}) has no deterministic tokenization"
        return None
    return None


def step_nondet(step):
    if step.get("op") not in ("src", "store", "create", "aop"):
        return None
    if step["op"] == "src" and not step.get("fa"):
        return None
    if step["op"] == "create" and not step.get("params"):
        return None
    return _step_nondet(json.dumps(step, sort_keys=True))


def nondet_reason(prog):
    """why only per-instance / pickle stability is required of this program (None: full determinism required)"""
    for st in prog:
        r = step_nondet(st)
        if r:
            return r
    return None


@functools.lru_cache(maxsize=4096)
def _step_unpicklable(step_json):
    import cloudpickle

    step = json.loads(step_json)
    objs = []
    if step["op"] == "src":
        d, kw = fa_objects(step)
        objs = [d] + list(kw.values())
    elif step["op"] == "store":
        objs = [make_lock(step.get("lock", False)), make_target(step)]
    for o in objs:
        try:
            cloudpickle.dumps(o)
        except Exception:
            return True
    return False


def unpicklable(prog):
    """an ARGUMENT of the program cannot be pickled at all (a threading lock): pickling the collection may refuse"""
    return any(_step_unpicklable(json.dumps(st, sort_keys=True)) for st in prog
               if (st["op"] == "src" and st.get("fa")) or st["op"] == "store")


# ------------------------------------------------------------------ creation / random / io sources

CREATE_FNS = (
    "ones", "zeros", "full", "empty0", "arange", "linspace", "eye", "tri", "indices", "meshgrid", "fromfunction",
    "from_delayed", "from_map", "npy_stack",
    "rng.random", "rng.normal", "rng.integers", "rng.standard_normal", "rng.uniform", "rng.poisson",
    "rs.random_sample", "rs.normal", "rs.randint", "rs.uniform", "rs.poisson", "rs.choice",
    "mod.random", "mod.normal", "mod.randint",
)
CREATE_LIKE = ("ones_like", "zeros_like", "full_like", "empty_like0", "diag", "rng.permutation", "rs.permutation")
# Generator.choice ("rng.choice", "rng.choice_a") is understood by apply_random but NOT generated: known finding
# `random:generator-choice-recompute` (live BitGenerator objects in the graph); C07 keeps one dedicated probe for it.
# Likewise random calls with a dask-array ARGUMENT ("rs.choice_a", "rs.normal_arr", "rng.normal_arr"): known findings
# `random:array-param-node-rebuilt` / `random:choice-array-population-node-rebuilt` (the root RNG is consumed again
# whenever a rewrite re-creates the node); one dedicated probe in C07, generated nowhere else.
ARRAY_ARG_FNS = ("rs.choice_a", "rs.normal_arr", "rng.normal_arr")
RANDOM_PREFIX = ("rng.", "rs.", "mod.")


def is_random(prog):
    return any(st["op"] == "create" and st["fn"].startswith(RANDOM_PREFIX) for st in prog)


def _npy_dir(step):
    """a directory holding the npy stack described by the step (content addressed, created atomically)"""
    data = programs.source_data(step)
    ch = list(step["chunks"][0])
    key = hashlib.sha1(json.dumps([step["shape"], ch, step.get("mul", 1), step.get("off", 0), step.get("mod", 0)]).encode()).hexdigest()[:16]
    root = os.path.join(tempfile.gettempdir(), f"verif-c07-npy-{os.getuid()}")
    d = os.path.join(root, key)
    if os.path.exists(os.path.join(d, "info")):
        return d
    os.makedirs(root, exist_ok=True)
    tmp = tempfile.mkdtemp(dir=root, prefix="tmp-")
    pos = 0
    for i, c in enumerate(ch):
        np.save(os.path.join(tmp, f"{i}.npy"), data[pos:pos + c])
        pos += c
    chunks = (tuple(ch),) + tuple((n,) for n in data.shape[1:])
    with open(os.path.join(tmp, "info"), "wb") as f:
        pickle.dump({"chunks": chunks, "dtype": data.dtype, "axis": 0}, f)
    try:
        os.rename(tmp, d)
    except OSError:
        import shutil

        shutil.rmtree(tmp, ignore_errors=True)  # somebody else created it meanwhile
    return d


def _placeholder(shape, dtype):
    n = int(np.prod(shape)) if len(shape) else 1
    return (np.arange(n) % 7).reshape(tuple(shape)).astype(dtype)


def apply_create(step, A, m, da_mode):
    fn = step["fn"]
    shape = tuple(step.get("shape", ()))
    chunks = tuple(tuple(c) for c in step.get("chunks", ()))
    dtype = step.get("dtype", "int64")
    ckw = {"chunks": chunks} if da_mode else {}
    if fn in ("ones", "zeros"):
        return getattr(m, fn)(shape, dtype=dtype, **ckw)
    if fn == "full":
        return m.full(shape, step["fill"], dtype=dtype, **ckw)
    if fn == "empty0":
        return (m.empty(shape, dtype="int64", **ckw) * 0) if da_mode else np.zeros(shape, dtype="int64")
    if fn == "arange":
        if da_mode:
            return m.arange(step["start"], step["start"] + shape[0] * step["step"], step["step"], chunks=chunks, dtype=dtype)
        return np.arange(step["start"], step["start"] + shape[0] * step["step"], step["step"], dtype=dtype)
    if fn == "linspace":
        return m.linspace(step["start"], step["stop"], shape[0], **({"chunks": chunks} if da_mode else {}))
    if fn == "eye":
        if da_mode:
            return m.eye(shape[0], chunks=step["chunk"], M=shape[1], k=step["k"], dtype=dtype)
        return np.eye(shape[0], M=shape[1], k=step["k"], dtype=dtype)
    if fn == "tri":
        if da_mode:
            return m.tri(shape[0], M=shape[1], k=step["k"], dtype=dtype, chunks=step["chunk"])
        return np.tri(shape[0], M=shape[1], k=step["k"], dtype=dtype)
    if fn == "indices":
        dims = shape[1:]
        if da_mode:
            return m.indices(dims, dtype=dtype, chunks=tuple(c for c in chunks[1:]))
        return np.indices(dims, dtype=dtype)
    if fn == "meshgrid":
        if da_mode:
            xs = [m.arange(n, chunks=(tuple(c),), dtype=dtype) for n, c in zip(shape, chunks)]
            return m.meshgrid(*xs, indexing="ij", sparse=False)[step["which"]]
        return np.meshgrid(*[np.arange(n, dtype=dtype) for n in shape], indexing="ij")[step["which"]]
    if fn == "fromfunction":
        if da_mode:
            return m.fromfunction(ff_sum, shape=shape, chunks=chunks, dtype=dtype)
        return np.fromfunction(ff_sum, shape, dtype=dtype)
    if fn == "from_delayed":
        if da_mode:
            import dask

            return m.from_delayed(dask.delayed(mk_ones, pure=True)(shape), shape=shape, dtype="int64")
        return mk_ones(shape)
    if fn == "from_map":
        vals = list(step["values"])
        if da_mode:
            return m.from_map(fm_block, vals, chunks=((step["width"],) * len(vals),), dtype="int64", width=step["width"])
        return np.concatenate([fm_block(v, step["width"]) for v in vals])
    if fn == "npy_stack":
        if da_mode:
            return m.from_npy_stack(_npy_dir(step))
        return programs.source_data(step)
    if fn in ("ones_like", "zeros_like"):
        return getattr(m, fn)(A[0])
    if fn == "full_like":
        return m.full_like(A[0], step["fill"])
    if fn == "empty_like0":
        return (m.empty_like(A[0]) * 0) if da_mode else np.zeros_like(A[0])
    if fn == "diag":
        return m.diag(A[0], step.get("k", 0)) if not da_mode or step.get("k", 0) else m.diag(A[0])
    if fn.startswith(RANDOM_PREFIX):
        return apply_random(step, A, m, da_mode)
    raise KeyError(fn)


def apply_random(step, A, m, da_mode):
    fam, meth = step["fn"].split(".", 1)
    shape = tuple(step.get("shape", ()))
    chunks = tuple(tuple(c) for c in step.get("chunks", ()))
    if not da_mode and meth == "dist":
        return _placeholder(shape, "float64")
    if not da_mode:
        if meth in ("permutation", "choice_a"):
            return A[0] if meth == "permutation" else _placeholder(shape, A[0].dtype)
        if meth == "normal_arr":
            return _placeholder(shape, "float64")
        kind = "int64" if meth in ("integers", "randint", "poisson", "choice") else "float64"
        return _placeholder(shape, kind)
    seed = step["seed"]
    if fam == "rng":
        g = m.random.default_rng(seed)
    elif fam == "rs":
        g = m.random.RandomState(seed)
    else:
        m.random.seed(seed)
        g = m.random
    if meth == "dist":
        return call_dist(step, g)
    if meth == "permutation":
        return g.permutation(A[0])
    if meth == "choice_a":
        return g.choice(A[0], size=shape, chunks=chunks)
    if meth == "normal_arr":
        return g.normal(A[0], 1, size=shape, chunks=chunks)
    if meth in ("random", "random_sample", "standard_normal"):
        return getattr(g, meth)(shape, chunks=chunks)
    if meth in ("normal", "uniform"):
        return getattr(g, meth)(step["p1"], step["p2"], shape, chunks=chunks)
    if meth in ("integers", "randint"):
        return getattr(g, meth)(step["p1"], step["p2"], shape, chunks=chunks)
    if meth == "poisson":
        return g.poisson(step["p2"], shape, chunks=chunks)
    if meth == "choice":
        return g.choice(step["p2"], size=shape, chunks=chunks)
    raise KeyError(step["fn"])


# ------------------------------------------------------------------ store

TARGETS = ["ndarray", "tok_arraylike", "untok_arraylike"]


class LabelTarget(TokArrayLike):
    """a store target addressed by a label (like a zarr array addressed by its URL): its token does not depend on content"""

    def __init__(self, a, label):
        super().__init__(a)
        self.label = label

    def __dask_tokenize__(self):
        return ("LabelTarget", self.label, tuple(self.shape), str(self.dtype))


def make_target(step, content=None):
    """the store target.  NumPy targets tokenize by CONTENT and computing the store writes into them, so an ndarray
    target is pre-filled with what will be stored (`content`): the store is idempotent and the target stays an equal input"""
    shape = tuple(step["tshape"])
    t = np.zeros(shape, dtype=step.get("tdtype", "int64"))
    kind = step.get("target", "ndarray")
    if kind == "ndarray":
        if content is not None:
            reg = step.get("regions")
            t[tuple(slice(a, b) for a, b in reg) if reg is not None else Ellipsis] = content
        return t
    if kind == "tok_arraylike":
        return LabelTarget(t, "store://c07/" + "x".join(map(str, shape)))
    if kind == "untok_arraylike":
        return UntokArrayLike(t)
    raise KeyError(kind)


def apply_store(step, A, m, da_mode):
    if not da_mode:
        return A[0]
    regions = step.get("regions")
    if regions is not None:
        regions = tuple(slice(a, b) for a, b in regions)
    content = None
    if step.get("target", "ndarray") == "ndarray":
        import dask

        with dask.config.set(scheduler="sync"):
            content = np.asarray(A[0].compute())
    return m.store(A[0], make_target(step, content), lock=make_lock(step.get("lock", False)), regions=regions, compute=False,
                   return_stored=step.get("return_stored", True))


# ------------------------------------------------------------------ peeks and in-place updates

PEEKS = ("keys", "frisky", "graph", "name", "chunks", "lowered", "optimize", "len_dask")
GRID_PEEKS = ("keys", "frisky", "graph", "name", "chunks", "optimize")  # the other two are drawn at random only
UPDATES = ("setitem_ip", "setitem_mask_ip", "out_ip", "out2_ip", "red_out_ip", "compute_chunk_sizes", "chunks_set_ip")
UFUNC1 = {"negative": np.negative, "absolute": np.absolute, "square": np.square}
UFUNC2 = {"add": np.add, "multiply": np.multiply, "maximum": np.maximum, "subtract": np.subtract}

STRIP_PEEKS = False  # module switch: `peek` steps become aliases (the twin program without the reads)


def do_peek(x, what):
    if what == "keys":
        x.__dask_keys__()
    elif what == "frisky":
        try:
            x.__frisky_output_keys__()
        except NotImplementedError:
            x.__dask_keys__()
    elif what == "graph":
        x.__dask_graph__()
    elif what == "name":
        x.name
    elif what == "chunks":
        x.chunks, x.numblocks, x.shape
    elif what == "lowered":
        x._lowered_expr
    elif what == "optimize":
        x.__dask_keys__()
        x.__dask_graph__()
        try:
            x.__frisky_output_keys__()
        except NotImplementedError:
            pass
    elif what == "len_dask":
        len(x.dask)
        x.__dask_keys__()
    else:
        raise KeyError(what)


def apply_inplace(step, env, m, da_mode):
    op = step["op"]
    A = [env[a] for a in step.get("args", [])]
    if op == "peek":
        if da_mode and not STRIP_PEEKS:
            do_peek(A[0], step["what"])
        return A[0]
    if op == "setitem_ip":
        x = A[0] if da_mode else A[0].copy()
        v = step["value"]
        if isinstance(v, str):
            v = env[v]
        x[_dec_index(step["index"])] = v
        return x
    if op == "setitem_mask_ip":
        x = A[0] if da_mode else A[0].copy()
        x[A[0] % step["mod"] == 0] = step["value"]
        return x
    if op == "out_ip":
        # unary ufunc into args[1]
        o = A[1] if da_mode else A[1].copy()
        UFUNC1[step["fn"]](A[0], out=o)
        return o
    if op == "out2_ip":
        o = A[1] if da_mode else A[1].copy()
        UFUNC2[step["fn"]](A[0], step["scalar"], out=o)
        return o
    if op == "red_out_ip":
        o = A[1] if da_mode else A[1].copy()
        if da_mode:
            m.sum(A[0], axis=step["axis"], out=o)
        else:
            o[...] = np.sum(A[0], axis=step["axis"])
        return o
    if op == "chunks_set_ip":
        if da_mode:
            A[0]._chunks = A[0].chunks  # the identity override: the expression is still swapped in place (renamed)
        return A[0]
    raise KeyError(op)


OPS = {"create", "store", "peek", "setitem_ip", "setitem_mask_ip", "out_ip", "out2_ip", "red_out_ip", "chunks_set_ip", "aop"}


def handles(step):
    return step["op"] in OPS or (step["op"] == "src" and bool(step.get("fa")))


def apply_step(step, env, m, da_mode):
    op = step["op"]
    if op == "src":
        return build_source(step, m) if da_mode else programs.source_data(step)
    A = [env[a] for a in step.get("args", [])]
    if op == "create":
        return apply_create(step, A, m, da_mode)
    if op == "store":
        return apply_store(step, A, m, da_mode)
    if op == "aop":
        return apply_aop(step, A, m, da_mode)
    return apply_inplace(step, env, m, da_mode)


def has_peek(prog):
    return any(st["op"] == "peek" for st in prog)


def has_update(prog):
    return any(st["op"] in UPDATES for st in prog)


# ------------------------------------------------------------------ generators

class Gen7(programs.ProgGen):
    """ProgGen evaluating the extended language; `step_fn` is C07.apply_step"""

    step_fn = None
    last = None

    def add(self, step, tags=()):
        step["out"] = self.fresh()
        try:
            with np.errstate(all="ignore"):
                val = np.asarray(type(self).step_fn(step, self.env, np, False))
        except _Skip:
            self.k -= 1
            raise
        except Exception:
            self.k -= 1
            raise _Skip
        if val.size and val.dtype.kind in "iu" and int(np.abs(val).max()) > (1 << 40):
            self.k -= 1
            raise _Skip
        self.env[step["out"]] = val
        self.prog.append(step)
        self.last = step["out"]
        t = set(tags)
        for a in step.get("args", []):
            t |= self.tags.get(a, set())
        self.tags[step["out"]] = t
        return step["out"]

    # --- sources
    def source_fa(self, fa, shape=None, rank=None):
        rng = self.rng
        if shape is None:
            r = rank or rng.randint(1, 3)
            shape = tuple(rng.randint(1, self.maxdim) for _ in range(r))
        form = fa.get("chunks_form", "explicit")
        if fa.get("via", "from_array") != "from_array":
            chunks = [[n] for n in shape]  # asarray / array of NumPy data: one chunk
        elif form in ("int", "minus1", "none_axis"):
            chunks = form_chunks(form, shape, rng.randint(1, max(1, max(shape))))
        elif form == "blockshape":
            chunks = [form_chunks("int", (n,), rng.randint(1, max(1, n)))[0] for n in shape]
        else:
            chunks = [list(c) for c in programs.rand_chunks_nd(rng, shape)]
        step = {"op": "src", "shape": list(shape), "chunks": chunks, "mul": rng.choice([1, 1, 3, 7]), "off": rng.randint(-5, 5),
                "mod": rng.choice([1 << 20, 11, 5]), "fa": fa}
        return self.add(step)

    def create(self, fn):
        rng = self.rng
        n1, n2 = rng.randint(2, 7), rng.randint(2, 6)
        st = {"op": "create", "fn": fn, "dtype": "int64"}
        meth = fn.split(".", 1)[-1]
        if fn in ("arange", "linspace") or meth in ("choice",):
            shape = (n1,)
        elif fn in ("eye", "tri"):
            shape = (n1, n2)
            st["chunk"] = rng.randint(1, max(n1, n2))
            st["k"] = rng.randint(-1, 1)
        elif fn == "indices":
            shape = (2, n1, n2)
        elif fn == "from_map":
            st["values"] = [rng.randint(-3, 9) for _ in range(rng.randint(1, 4))]
            st["width"] = rng.randint(1, 3)
            shape = (len(st["values"]) * st["width"],)
        elif fn == "npy_stack":
            shape = rng.choice([(n1,), (n1, n2)])
        else:
            shape = rng.choice([(n1,), (n1, n2), (n1, n2, 2)])
        st["shape"] = list(shape)
        if fn in ("eye", "tri"):
            st["chunks"] = [form_chunks("int", (n,), st["chunk"])[0] for n in shape]
        elif fn == "indices":
            c = [list(c) for c in programs.rand_chunks_nd(rng, shape[1:])]
            st["chunks"] = [[1, 1]] + c
        elif fn == "from_map":
            st["chunks"] = [[st["width"]] * len(st["values"])]
        elif fn == "npy_stack":
            st["chunks"] = [list(gen.rand_chunks(rng, shape[0]))] + [[n] for n in shape[1:]]
            st.update(mul=rng.choice([1, 3]), off=rng.randint(-5, 5), mod=1 << 20)
        elif fn == "from_delayed":
            st["chunks"] = [[n] for n in shape]
        else:
            st["chunks"] = [list(c) for c in programs.rand_chunks_nd(rng, shape)]
        if fn == "full":
            st["fill"] = rng.randint(-4, 9)
        if fn == "arange":
            st["start"], st["step"] = rng.randint(-3, 3), rng.randint(1, 3)
        if fn == "linspace":
            st["start"], st["stop"] = rng.randint(-3, 0), rng.randint(1, 5)
        if fn == "meshgrid":
            st["which"] = rng.randrange(len(shape))
        if fn.startswith(RANDOM_PREFIX):
            st["seed"] = rng.randint(0, 10**6)
            st["p1"], st["p2"] = rng.randint(0, 3), rng.randint(4, 9)
        return self.add(st)

    def create_like(self, fn, a=None):
        rng = self.rng
        a = a or self.last
        x = self.env[a]
        st = {"op": "create", "fn": fn, "args": [a]}
        if fn == "full_like":
            st["fill"] = rng.randint(-4, 9)
        if fn == "diag":
            if x.ndim not in (1, 2):
                raise _Skip
            st["k"] = 0
        if fn.endswith("permutation"):
            if x.ndim == 0 or x.shape[0] == 0:
                raise _Skip
            st["seed"] = rng.randint(0, 10**6)
        if fn in ("rng.choice_a", "rs.choice_a"):
            if x.ndim != 1 or x.shape[0] == 0:
                raise _Skip
            n = rng.randint(1, 6)
            st.update(seed=rng.randint(0, 10**6), shape=[n], chunks=[list(gen.rand_chunks(rng, n))])
        return self.add(st)

    def store(self, a=None, lock=False, target="ndarray", regions=False):
        a = a or self.last
        x = self.env[a]
        if x.ndim == 0 or 0 in x.shape:
            raise _Skip
        st = {"op": "store", "args": [a], "lock": lock, "target": target, "tshape": list(x.shape), "tdtype": str(x.dtype)}
        if regions:
            off = [self.rng.randint(0, 2) for _ in x.shape]
            st["tshape"] = [n + o + self.rng.randint(0, 2) for n, o in zip(x.shape, off)]
            st["regions"] = [[o, o + n] for n, o in zip(x.shape, off)]
        return self.add(st)

    # --- reads and in-place updates (always on the most recent variable, which is not used again under its old name)
    def peek(self, what, a=None):
        return self.add({"op": "peek", "args": [a or self.last], "what": what})

    def update(self, kind, a=None):
        rng = self.rng
        a = a or self.last
        x = self.env[a]
        if kind == "setitem_ip":
            if x.ndim == 0 or 0 in x.shape:
                raise _Skip
            idx = programs.rand_basic_index(rng, x.shape, allow_none=False, allow_ellipsis=False, allow_neg_step=False)
            if x[idx].size == 0:
                raise _Skip
            return self.add({"op": "setitem_ip", "args": [a], "index": _enc_index(idx), "value": rng.randint(-9, 9)})
        if kind == "setitem_mask_ip":
            if x.ndim == 0 or 0 in x.shape or x.dtype.kind not in "iu":
                raise _Skip
            return self.add({"op": "setitem_mask_ip", "args": [a], "mod": rng.randint(2, 4), "value": rng.randint(-9, 9)})
        if kind in ("out_ip", "out2_ip", "red_out_ip"):
            # the `out=` collection: a creation / source of the result's shape; reads of it happen BEFORE the update
            if x.ndim == 0 or 0 in x.shape:
                raise _Skip
            if kind == "red_out_ip":
                ax = rng.randrange(x.ndim)
                oshape = tuple(n for i, n in enumerate(x.shape) if i != ax)
                if not oshape:
                    raise _Skip
            else:
                oshape = x.shape
            if rng.random() < 0.5:
                o = self.add({"op": "create", "fn": rng.choice(["zeros", "ones"]), "dtype": str(x.dtype), "shape": list(oshape),
                              "chunks": [list(c) for c in programs.rand_chunks_nd(rng, oshape)]})
            else:
                o = self.add({"op": "src", "shape": list(oshape), "chunks": [list(c) for c in programs.rand_chunks_nd(rng, oshape)],
                              "mul": 1, "off": rng.randint(0, 9), "mod": 1 << 20})
                if str(x.dtype) != "int64":
                    raise _Skip
            self.pending_out = (kind, a, o, ax if kind == "red_out_ip" else None)
            return o
        if kind == "compute_chunk_sizes":
            if x.ndim != 1 or x.shape[0] == 0 or x.dtype.kind not in "iu":
                raise _Skip
            b = self.add({"op": "boolmask_1d", "args": [a], "mod": rng.randint(2, 4)})
            self.pending_ccs = b
            return b
        if kind == "chunks_set_ip":
            # the `_chunks` setter OVERRIDES the advertised chunks; only the identity override keeps the values meaningful
            return self.add({"op": "chunks_set_ip", "args": [a]})
        raise KeyError(kind)

    def finish_update(self, kind):
        """second half of an update whose target had to be created first (a read may be placed in between)"""
        rng = self.rng
        if kind in ("out_ip", "out2_ip", "red_out_ip"):
            k, a, o, ax = self.pending_out
            if k == "out_ip":
                return self.add({"op": "out_ip", "args": [a, o], "fn": rng.choice(list(UFUNC1))})
            if k == "out2_ip":
                return self.add({"op": "out2_ip", "args": [a, o], "fn": rng.choice(list(UFUNC2)), "scalar": rng.randint(1, 5)})
            return self.add({"op": "red_out_ip", "args": [a, o], "axis": ax})
        if kind == "compute_chunk_sizes":
            return self.add({"op": "compute_chunk_sizes", "args": [self.pending_ccs]})
        return self.last


TAILS = ("none", "affine", "sum", "slice", "binary_self", "rechunk", "transpose")


def add_tail(g, kind):
    a = g.last
    x = g.env[a]
    if kind == "none":
        return a
    if kind == "affine":
        return g.add({"op": "affine", "args": [a]})
    if kind == "sum":
        if x.ndim == 0:
            return a
        b = g.add({"op": "affine", "args": [a]})
        return g.add({"op": "reduce", "fn": "sum", "args": [b], "axis": g.rng.randrange(x.ndim), "keepdims": False, "split_every": None})
    if kind == "slice":
        if x.ndim == 0 or 0 in x.shape:
            return a
        idx = programs.rand_basic_index(g.rng, x.shape, allow_none=False, allow_neg_step=False)
        return g.add({"op": "getitem", "args": [a], "index": _enc_index(idx)})
    if kind == "binary_self":
        b = g.add({"op": "sq", "args": [a]})
        return g.add({"op": "add", "args": [a, b]})
    if kind == "rechunk":
        if x.ndim == 0:
            return a
        return g.add({"op": "rechunk", "args": [a], "chunks": [list(c) for c in programs.rand_chunks_nd(g.rng, x.shape)]})
    if kind == "transpose":
        if x.ndim < 2:
            return a
        ax = list(range(x.ndim))
        g.rng.shuffle(ax)
        return g.add({"op": "transpose", "args": [a], "axes": ax})
    raise KeyError(kind)


def _new(rng, step_fn):
    G = type("Gen7_", (Gen7,), {"step_fn": staticmethod(step_fn)})
    return G(rng, maxrank=3, maxdim=6, zero_axes=0, avoid=("swv-consumer",))


def fa_grid():
    """every keyword value of from_array at least once (one keyword varied per program), every data container,
    every sibling entry point"""
    out = []
    for lk in LOCKS:
        out.append(("lock", {"lock": lk}))
    for gi in GETITEMS[1:]:
        out.append(("getitem", {"getitem": gi}))
    for me in METAS[1:]:
        out.append(("meta", {"meta": me}))
    for v in (True, False):
        out.append(("asarray", {"asarray": v}))
        out.append(("inline_array", {"inline_array": v}))
        out.append(("fancy", {"fancy": v}))
    for nm in NAMES[1:]:
        out.append(("name", {"name": nm}))
    for d in DATAS[1:]:
        out.append(("data", {"data": d}))
    for f in CHUNK_FORMS[1:]:
        out.append(("chunks", {"chunks_form": f}))
    for v in VIAS[1:]:
        out.append(("via", {"via": v}))
        out.append(("via", {"via": v, "data": "list"}))
    return out


def rand_fa(rng):
    """a random combination of keywords"""
    fa = {}
    if rng.random() < 0.6:
        fa["lock"] = rng.choice(LOCKS)
    if rng.random() < 0.3:
        fa["getitem"] = rng.choice(GETITEMS)
    if rng.random() < 0.3:
        fa["meta"] = rng.choice(METAS)
    for k in ("asarray", "inline_array", "fancy"):
        if rng.random() < 0.3:
            fa[k] = rng.choice([True, False])
    if rng.random() < 0.25:
        fa["name"] = rng.choice(NAMES)
    if rng.random() < 0.4:
        fa["data"] = rng.choice(DATAS)
    if rng.random() < 0.3:
        fa["chunks_form"] = rng.choice(CHUNK_FORMS)
    return fa


def source_programs(rng, step_fn, n_random):
    """[(class label, program)]: the keyword grid, then random keyword combinations; each under a short random tail"""
    out = []
    specs = [(k, copy.deepcopy(fa)) for k, fa in fa_grid()] + [("combo", rand_fa(rng)) for _ in range(n_random)]
    for label, fa in specs:
        for _ in range(6):
            g = _new(rng, step_fn)
            try:
                g.source_fa(copy.deepcopy(fa))
                if fa.get("data") == "masked":
                    add_tail(g, rng.choice(["none", "affine", "slice"]))
                else:
                    add_tail(g, rng.choice(TAILS))
                    if rng.random() < 0.3:
                        g.step()
            except _Skip:
                continue
            out.append((("source", label, json.dumps(fa, sort_keys=True) if label != "combo" else "combo"), g.prog))
            break
    return out


def creation_programs(rng, step_fn, extra):
    out = []
    fns = list(CREATE_FNS) + list(CREATE_LIKE) + [rng.choice(CREATE_FNS + CREATE_LIKE) for _ in range(extra)]
    for fn in fns:
        for _ in range(6):
            g = _new(rng, step_fn)
            try:
                if fn in CREATE_LIKE:
                    if fn in ("diag", "rng.choice_a", "rs.choice_a"):
                        g.new_source((rng.randint(2, 6),))
                    else:
                        g.new_source()
                    g.create_like(fn)
                else:
                    g.create(fn)
                add_tail(g, rng.choice(TAILS))
                if rng.random() < 0.3:
                    g.step()
            except _Skip:
                continue
            out.append((("create", fn), g.prog))
            break
    return out


def store_programs(rng, step_fn, extra):
    out = []
    grid = [(lk, "ndarray", False) for lk in LOCKS if lk is not None] + [(False, t, False) for t in TARGETS[1:]] + [(False, "ndarray", True), (["ser", "disk-io"], "tok_arraylike", True)]
    grid += [(rng.choice([l for l in LOCKS if l is not None]), rng.choice(TARGETS), rng.random() < 0.5) for _ in range(extra)]
    for lk, tgt, reg in grid:
        for _ in range(6):
            g = _new(rng, step_fn)
            try:
                g.new_source()
                add_tail(g, rng.choice(["none", "affine", "rechunk", "transpose"]))
                g.store(lock=lk, target=tgt, regions=reg)
                add_tail(g, rng.choice(["none", "none", "affine", "sum"]))
            except _Skip:
                continue
            out.append((("store", json.dumps(lk), tgt, reg), g.prog))
            break
    return out


ORDERS = ("read,update", "update,read", "read,update,read,update", "read,update,read", "update,update,read")


def inplace_programs(rng, step_fn, extra):
    """update kinds x read kinds x orders (read keys -> update -> pickle; update -> read -> pickle; longer alternations)"""
    kinds = list(UPDATES)
    grid = []
    for k in kinds:
        for p in GRID_PEEKS:
            grid.append((k, p, ORDERS[0]))
        grid.append((k, rng.choice(PEEKS), ORDERS[1]))
        grid.append((k, rng.choice(PEEKS), rng.choice(ORDERS[2:])))
    grid += [(rng.choice(kinds), rng.choice(PEEKS), rng.choice(ORDERS)) for _ in range(extra)]
    out = []
    for kind, what, order in grid:
        for _ in range(8):
            g = _new(rng, step_fn)
            try:
                if kind == "compute_chunk_sizes":
                    g.new_source((rng.randint(3, 9),))
                    if rng.random() < 0.4:
                        add_tail(g, "affine")
                else:
                    g.new_source()
                    if rng.random() < 0.5:
                        add_tail(g, rng.choice(["affine", "rechunk", "transpose", "slice"]))
                seq = order.split(",")
                first_update = True
                for tok in seq:
                    if tok == "read":
                        g.peek(what if first_update else rng.choice(PEEKS))
                    else:
                        k = kind if first_update else rng.choice(["setitem_ip", "setitem_mask_ip", "out2_ip"])
                        if k == "compute_chunk_sizes" and not first_update:
                            k = "setitem_ip"
                        two_phase = k in ("out_ip", "out2_ip", "red_out_ip", "compute_chunk_sizes")
                        g.update(k)
                        if two_phase:
                            # the object that is about to be replaced in place exists now: this is where a read matters
                            if seq[0] == "read" and first_update:
                                g.peek(what)
                            g.finish_update(k)
                        first_update = False
                add_tail(g, rng.choice(["none", "none", "affine", "sum"]))
            except _Skip:
                continue
            if not has_update(g.prog) and not any(st["op"] == "compute_chunk_sizes" for st in g.prog):
                continue
            out.append((("inplace", kind, what, order), g.prog))
            break
    return out


# ------------------------------------------------------------------ array-valued parameters and operands
#
# `create` steps with "fn": "<rng|rs|mod>.dist": one call of a distribution `dist` whose parameters are given as
# "params": [{"form": F, "lo": a, "hi": b, "int": bool}, ...]; the VALUES are a fixed ramp between lo and hi (valid for the
# distribution), the FORM says which object carries them:
#     scalar / npscalar / zerod (0-d ndarray) / list1 ([v]) / list (len = last axis; last axis in one chunk) /
#     ndarray (1-d, len = last axis) / col ((n0, 1, ...) column) / full (the whole `size`) / strided / readonly / fortran
# `aop` steps: an API call whose OPERAND is a NumPy array / list (x + A, A + x, np.add(A, x), where, clip, isin, digitize,
# take / x[A], concatenate / stack / append / insert, tensordot / matmul, map_blocks / blockwise literals, full / full_like,
# x[idx] = A, average(weights=A), histogram(bins=A), pad(constant_values=A)).
# A NumPy array (any layout), a list, a NumPy scalar tokenize by VALUE (dask.tokenize says so: the oracle), so equal inputs
# must give equal names and optimized graph keys in this process and in a fresh one.

DISTS = {
    "beta": [(0.5, 3), (0.5, 3)],
    "binomial": [(1, 10, True), (0.1, 0.9)],
    "chisquare": [(1, 5)],
    "exponential": [(0.5, 3)],
    "f": [(2, 6), (3, 8)],
    "gamma": [(0.5, 3), (0.5, 2)],
    "geometric": [(0.1, 0.9)],
    "gumbel": [(-2, 2), (0.5, 2)],
    "hypergeometric": [(5, 9, True), (4, 8, True), (1, 4, True)],
    "laplace": [(-2, 2), (0.5, 2)],
    "logistic": [(-2, 2), (0.5, 2)],
    "lognormal": [(-1, 1), (0.1, 1)],
    "logseries": [(0.1, 0.9)],
    "negative_binomial": [(1, 6), (0.1, 0.9)],
    "noncentral_chisquare": [(1, 5), (0.5, 3)],
    "noncentral_f": [(2, 6), (3, 8), (0.5, 3)],
    "normal": [(-5, 5), (0.5, 2)],
    "pareto": [(1, 4)],
    "poisson": [(0, 20)],
    "power": [(0.5, 3)],
    "rayleigh": [(0.5, 3)],
    "standard_gamma": [(0.5, 3)],
    "standard_t": [(1, 6)],
    "triangular": [(-3, -1), (0, 1), (2, 4)],
    "uniform": [(-3, 0), (1, 4)],
    "vonmises": [(-1, 1), (0.5, 3)],
    "wald": [(0.5, 3), (0.5, 3)],
    "weibull": [(0.5, 3)],
    "zipf": [(1.5, 4)],
    # special shapes of parameters
    "multinomial": "special",   # (n, pvals): pvals a list / ndarray of probabilities, output gets an extra axis
    "choice": "special",        # RandomState.choice(a, p=): population and probabilities as ndarray / list
    "integers": [(0, 3, True), (5, 9, True)],  # Generator.integers / RandomState.randint (array bounds may be refused)
}
ARRAY_FORMS = ("ndarray", "col", "full", "strided", "readonly", "fortran", "zerod")
PARAM_FORMS = ("scalar", "npscalar", "list1", "list") + ARRAY_FORMS


def _ramp(n, lo, hi, integer):
    v = lo + (hi - lo) * (np.arange(n, dtype="float64") + 1) / (n + 1)
    return np.round(v).astype("int64") if integer else v


def make_param(spec, size):
    """the parameter object of one distribution parameter (a NEW object on every call)"""
    form = spec["form"]
    lo, hi, integer = spec["lo"], spec["hi"], bool(spec.get("int"))
    size = tuple(size)
    if form in ("scalar", "npscalar", "zerod", "list1"):
        v = _ramp(1, lo, hi, integer)[0]
        if form == "scalar":
            return int(v) if integer else float(v)
        if form == "npscalar":
            return v
        if form == "zerod":
            return np.array(v)
        return [int(v) if integer else float(v)]
    last = size[-1] if size else 1
    if form == "list":
        return _ramp(last, lo, hi, integer).tolist()
    if form == "ndarray":
        return _ramp(last, lo, hi, integer)
    if form == "col":
        n0 = size[0] if len(size) > 1 else last
        return _ramp(n0, lo, hi, integer).reshape((n0,) + (1,) * (len(size) - 1)) if len(size) > 1 else _ramp(last, lo, hi, integer)
    n = int(np.prod(size)) if size else 1
    full = _ramp(n, lo, hi, integer).reshape(size)
    if form == "full":
        return full
    if form == "readonly":
        full.setflags(write=False)
        return full
    if form == "fortran":
        return np.asfortranarray(full)
    if form == "strided":
        big = np.zeros(tuple(2 * d for d in size), dtype=full.dtype)
        view = big[tuple(slice(None, None, 2) for _ in size)]
        view[...] = full
        return view
    raise KeyError(form)


def dist_size(step):
    return tuple(step.get("size", step.get("shape", ())))


def param_objects(step):
    """fresh parameter / operand objects of a `create` (dist) or `aop` step (what the tokenization oracle looks at)"""
    if step["op"] == "aop":
        return [make_operand(step)]
    dist = step.get("dist")
    if dist == "multinomial":
        return [make_pvals(step)]
    if dist == "choice":
        a, p = make_choice_args(step)
        return [o for o in (a, p) if o is not None]
    return [make_param(sp, dist_size(step)) for sp in step.get("params", [])]


def make_pvals(step):
    k = step["k"]
    p = (np.arange(k, dtype="float64") + 1) / (k * (k + 1) / 2)
    return p.tolist() if step["pform"] == "list" else (np.asfortranarray(p) if step["pform"] == "fortran" else p)


def make_choice_args(step):
    n = step["n"]
    a = np.arange(n, dtype="int64") * 3 + 1
    a = {"ndarray": a, "list": a.tolist(), "int": n}[step["aform"]]
    if step.get("pform") is None:
        return a, None
    p = (np.arange(n, dtype="float64") + 1) / (n * (n + 1) / 2)
    return a, (p.tolist() if step["pform"] == "list" else p)


def has_array_param(prog):
    """a random call one of whose parameters is a non-scalar NumPy array (dask_array turns it into a dask array operand)"""
    for st in prog:
        if st["op"] == "create" and st.get("dist"):
            if st["dist"] == "choice" and st.get("aform") in ("ndarray", "list"):
                return "choice"
            if st["dist"] == "multinomial":
                continue
            if any(sp["form"] in ARRAY_FORMS and sp["form"] != "zerod" for sp in st.get("params", [])):
                return "param"
    return None


def call_dist(step, g):
    dist = step["dist"]
    size = dist_size(step)
    chunks = tuple(tuple(c) for c in step["chunks"])
    if dist == "multinomial":
        return g.multinomial(step["n"], make_pvals(step), size=size, chunks=chunks[: len(size)])
    if dist == "choice":
        a, p = make_choice_args(step)
        return g.choice(a, size=size, p=p, chunks=chunks)
    args = [make_param(sp, size) for sp in step["params"]]
    meth = dist
    if dist == "integers" and not hasattr(g, "integers"):
        meth = "randint"
    return getattr(g, meth)(*args, size=size, chunks=chunks)


# --- array operands of ordinary API calls

AOPS = ("add_r", "add_l", "np_add", "where", "where_cond", "clip", "isin", "digitize", "take", "getitem_arr", "getitem_bool", "concatenate",
        "stack", "append", "insert", "tensordot", "matmul", "mb_kwarg", "bw_literal", "full", "full_like", "setitem_val", "average_w",
        "histogram", "pad_const", "einsum", "maximum")
OPERAND_FORMS = ("ndarray", "list", "readonly", "strided", "fortran")


def _addvec(block, vec=None):
    return block + np.asarray(vec).sum()


def _addarg(block, other):
    return block + np.asarray(other).sum()


def _layout(a, form):
    if form == "ndarray":
        return a
    if form == "list":
        return a.tolist()
    if form == "readonly":
        a.setflags(write=False)
        return a
    if form == "fortran":
        return np.asfortranarray(a)
    if form == "strided":
        big = np.zeros(tuple(2 * d for d in a.shape), dtype=a.dtype)
        v = big[tuple(slice(None, None, 2) for _ in a.shape)]
        v[...] = a
        return v
    raise KeyError(form)


def make_operand(step):
    """the NumPy / list operand of an `aop` step (a NEW object on every call); its shape is recorded in the step"""
    oshape = tuple(step["oshape"])
    n = int(np.prod(oshape)) if oshape else 1
    kind = step.get("okind", "int")
    if kind == "index":
        a = (np.arange(n, dtype="int64") * 2) % max(1, step["omod"])
    elif kind == "bool":
        a = (np.arange(n) % 3 != 1)
    elif kind == "bins":
        a = np.arange(n, dtype="int64") * 3 - 2
    elif kind == "weights":
        a = (np.arange(n, dtype="float64") + 1)
    else:
        a = (np.arange(n, dtype="int64") * 5 + step.get("ooff", 0)) % 13
    return _layout(a.reshape(oshape), step.get("form", "ndarray"))


def aop_spec(fn, x, rng):
    """operand shape / kind for `fn` applied to an array of x's shape (None: not applicable)"""
    nd, shp = x.ndim, x.shape
    if nd == 0 or 0 in shp or x.dtype.kind not in "iu":
        return None
    if fn in ("add_r", "add_l", "np_add", "maximum", "where"):
        return {"oshape": list(rng.choice([shp, shp[-1:], (1,) * nd]))}
    if fn == "where_cond":
        return {"oshape": list(shp), "okind": "bool"}
    if fn == "clip":
        return {"oshape": list(shp[-1:])}
    if fn == "isin":
        return {"oshape": [rng.randint(1, 4)]}
    if fn in ("digitize", "histogram"):
        return {"oshape": [rng.randint(2, 4)], "okind": "bins"}
    if fn in ("take", "getitem_arr"):
        return {"oshape": [rng.randint(1, 4)], "okind": "index", "omod": shp[0]}
    if fn == "getitem_bool":
        return {"oshape": [shp[0]], "okind": "bool"}
    if fn in ("concatenate", "append"):
        return {"oshape": [rng.randint(1, 3)] + list(shp[1:])}
    if fn == "stack":
        return {"oshape": list(shp)}
    if fn == "insert":
        return {"oshape": list(shp[1:]) if nd > 1 else [1]}
    if fn in ("tensordot", "matmul"):
        return {"oshape": [shp[-1], rng.randint(1, 3)]}
    if fn == "einsum":
        return {"oshape": [shp[-1]]}
    if fn in ("mb_kwarg", "bw_literal"):
        return {"oshape": [rng.randint(1, 3)]}
    if fn in ("full", "full_like", "pad_const"):
        return {"oshape": []}
    if fn == "setitem_val":
        return {"oshape": list(shp[1:]) if nd > 1 else [1]}
    if fn == "average_w":
        return {"oshape": list(shp), "okind": "weights"}
    raise KeyError(fn)


def apply_aop(step, A, m, da_mode):
    fn = step["fn"]
    x = A[0]
    o = make_operand(step)
    onp = np.asarray(o)
    if fn == "add_r":
        return x + o if not isinstance(o, list) else m.add(x, o)
    if fn == "add_l":
        return o + x if not isinstance(o, list) else m.add(o, x)
    if fn == "np_add":
        return np.add(o, x)
    if fn == "maximum":
        return m.maximum(x, o)
    if fn == "where":
        return m.where(x % 2 == 0, x, o)
    if fn == "where_cond":
        return m.where(o, x, 0)
    if fn == "clip":
        return m.clip(x, o, 11)
    if fn == "isin":
        return m.isin(x, o)
    if fn == "digitize":
        return m.digitize(x, bins=o)
    if fn == "histogram":
        return m.histogram(x, bins=o)[0]
    if fn == "take":
        return m.take(x, o, axis=0)
    if fn in ("getitem_arr", "getitem_bool"):
        return x[o]
    if fn == "concatenate":
        return m.concatenate([x, o], axis=0)
    if fn == "stack":
        return m.stack([x, o], axis=0)
    if fn == "append":
        return m.append(x, o, axis=0)
    if fn == "insert":
        return m.insert(x, 1, o, axis=0)
    if fn == "tensordot":
        return m.tensordot(x, o, axes=1)
    if fn == "matmul":
        return x @ onp if isinstance(o, list) else x @ o
    if fn == "einsum":
        sub = "ijk"[: x.ndim]
        return m.einsum(f"{sub},{sub[-1]}->{sub[:-1]}", x, o)
    if fn == "mb_kwarg":
        return x.map_blocks(_addvec, vec=o, dtype=x.dtype) if da_mode else _addvec(x, o)
    if fn == "bw_literal":
        sub = "ijk"[: x.ndim]
        return m.blockwise(_addarg, sub, x, sub, o, None, dtype=x.dtype) if da_mode else _addarg(x, o)
    if fn == "full":
        return m.full(x.shape, o, dtype="int64", **({"chunks": x.chunks} if da_mode else {})) + x
    if fn == "full_like":
        return m.full_like(x, o)
    if fn == "pad_const":
        return m.pad(x, 1, mode="constant", constant_values=o)
    if fn == "setitem_val":
        y = x.copy()
        y[0] = o
        return y
    if fn == "average_w":
        return m.average(x, weights=o)
    raise KeyError(fn)


def _mk_dist_step(rng, fam, dist, forms):
    """a `create` step calling `dist` through front end `fam` with the given parameter forms (None: random)"""
    nd = rng.choice([1, 2, 2])
    size = [rng.randint(2, 5) for _ in range(nd)]
    st = {"op": "create", "fn": f"{fam}.dist", "dist": dist, "dtype": "float64", "seed": rng.randint(0, 10**6)}
    if dist == "multinomial":
        k = rng.randint(2, 4)
        st.update(n=rng.randint(3, 9), k=k, pform=forms[0] if forms else rng.choice(["list", "ndarray", "fortran"]), size=size, shape=size + [k])
        st["chunks"] = [list(c) for c in programs.rand_chunks_nd(rng, size)] + [[k]]
        return st
    if dist == "choice":
        n = rng.randint(3, 7)
        st.update(n=n, aform=forms[0] if forms else rng.choice(["ndarray", "list", "int"]), pform=(forms[1] if forms else rng.choice([None, "ndarray", "list"])),
                  shape=size[:1], chunks=[list(gen.rand_chunks(rng, size[0]))])
        return st
    st["shape"] = size
    chunks = [list(c) for c in programs.rand_chunks_nd(rng, size)]
    spec = DISTS[dist]
    params = []
    for i, dom in enumerate(spec):
        form = forms[i % len(forms)] if forms else rng.choice(PARAM_FORMS)
        if form == "col" and nd == 1:
            form = "ndarray"
        params.append({"form": form, "lo": dom[0], "hi": dom[1], "int": bool(len(dom) > 2 and dom[2])})
    if any(p["form"] == "list" for p in params):
        chunks[-1] = [size[-1]]  # a list is handed to every block as it is: it must fit every block's last axis
    if dist not in ("normal", "poisson") and any(p["form"] in ARRAY_FORMS and p["form"] != "zerod" for p in params) and rng.random() < 0.75:
        # known C23 finding `random:array-param:generic-distribution:compute-raises`: the generic Random node hands the WHOLE
        # parameter array to every block, more than one output block raises at compute.  Three quarters of these programs
        # use one block (everything is compared); the others are still built twice / in fresh processes (names)
        chunks = [[n] for n in size]
    st.update(params=params, chunks=chunks)
    return st


def array_param_programs(rng, step_fn, extra, rotate=0, quick=True):
    """[(label, program)]: EVERY distribution with array-valued parameters in every run (front end and array form rotate with
    the run's seed in the quick tier: each of Generator / RandomState / module level and each form is reached within a few
    seeds; thorough: all front ends), the special-shaped parameters (multinomial pvals, choice population / p), every
    array-operand call, then random combinations."""
    fams = ("rng", "rs", "mod")
    specs = []
    for i, dist in enumerate(sorted(DISTS)):
        if dist == "choice":
            for af, pf in (("ndarray", None), ("list", "ndarray"), ("int", "list"), ("ndarray", "ndarray")):
                specs.append(("rs", dist, [af, pf]))
            continue
        use = fams if not quick else (fams[(i + rotate) % 3],)
        for j, fam in enumerate(use):
            if dist == "multinomial":
                specs.append((fam, dist, [("list", "ndarray", "fortran")[(i + j + rotate) % 3]]))
                continue
            nparam = len(DISTS[dist])
            # one array-valued parameter at a time (position rotates), the others scalar; plus one all-array call
            pos = (i + j + rotate) % nparam
            form = ARRAY_FORMS[(i + 2 * j + rotate) % len(ARRAY_FORMS)]
            specs.append((fam, dist, [form if q == pos else "scalar" for q in range(nparam)]))
            if not quick or (i + rotate) % 4 == 0:
                specs.append((fam, dist, [("list", "ndarray", "npscalar", "list1")[(i + q + rotate) % 4] for q in range(nparam)]))
    specs += [(rng.choice(fams), rng.choice(sorted(DISTS)), None) for _ in range(extra)]
    out = []
    for fam, dist, forms in specs:
        if dist == "choice":
            fam = "rs"  # Generator.choice: known finding, one dedicated probe in C07
        for _ in range(6):
            g = _new(rng, step_fn)
            try:
                st = _mk_dist_step(rng, fam, dist, forms)
                g.add(st)
                nonscalar = any(sp["form"] == "list" or (sp["form"] in ARRAY_FORMS and sp["form"] != "zerod") for sp in st.get("params", []))
                if nonscalar and (dist not in ("normal", "poisson") or any(sp["form"] == "list" for sp in st["params"])):
                    # generic Random node with a non-scalar parameter: its `_meta` (a call with size (0, ...)) raises, so
                    # every derived operation raises at construction (same known C23 family): the bare draw is the program
                    pass
                else:
                    add_tail(g, rng.choice(TAILS))
            except _Skip:
                continue
            out.append((("create-array-param", dist, fam if not quick else "*", "random" if forms is None else ",".join(map(str, forms))), g.prog))
            break
    # array operands
    fns = list(AOPS) + [rng.choice(AOPS) for _ in range(extra)]
    for k, fn in enumerate(fns):
        form = OPERAND_FORMS[(k + rotate) % len(OPERAND_FORMS)] if k < len(AOPS) else rng.choice(OPERAND_FORMS)
        for _ in range(8):
            g = _new(rng, step_fn)
            try:
                g.new_source()
                if rng.random() < 0.3:
                    add_tail(g, rng.choice(["affine", "rechunk"]))
                sp = aop_spec(fn, g.env[g.last], rng)
                if sp is None:
                    continue
                if form == "fortran" and len(sp["oshape"]) < 2:
                    form = "strided"
                g.add({"op": "aop", "fn": fn, "args": [g.last], "form": form, "ooff": rng.randint(0, 5), **sp})
                add_tail(g, rng.choice(["none", "none", "affine", "sum", "slice"]))
            except _Skip:
                continue
            out.append((("array-operand", fn, form), g.prog))
            break
    return out
