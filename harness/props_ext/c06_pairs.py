"""C06 extension: systematic NEAR-DUPLICATE PAIRS per public call family.

For every family (one public entry point / expression class) a BASE call and a list of one-parameter
VARIANTS are built in one process, in a random order and again in the reverse order, all kept alive.
Every parameter value is a Python SOURCE STRING evaluated in a small namespace (so that `-0.0`, `True`,
`np.float32(1)`, `(1, 2)` vs `[1, 2]`, NaN payloads, bit generators, weights arrays replay exactly).
Checked, on the real code only:
  * two members with ONE NAME must advertise the same chunks / dtype and denote the same array
    (NumPy reference of the family, compared bitwise incl. signed zeros; or, for families without a NumPy
    reference such as random streams, the value each member computes ALONE from empty registries);
  * every member computed separately, and all members computed in ONE merged `dask.compute`, must give the
    value the member has alone (escalated to a fresh process before anything is reported);
  * the name -> content registry of C06 (every expression instance ever created) is drained after each step.
The catalogue is in c06_pairs_catalog.py.
"""
from __future__ import annotations

import collections
import gc
import json
import struct
import subprocess
import sys

import numpy as np

from harness import core

# ------------------------------------------------------------------------------ value comparison


def samebits(a, b):
    """Equal shape, dtype and values, signed zeros told apart; NaNs are equal to each other (payload / sign of a
    NaN is not compared: dask.tokenize normalises NaN literals, trusted base)."""
    a = np.asarray(a)
    b = np.asarray(b)
    if a.shape != b.shape or a.dtype != b.dtype:
        return False
    if a.dtype.kind == "c":
        return samebits(a.real, b.real) and samebits(a.imag, b.imag)
    if a.dtype.kind == "f":
        na, nb = np.isnan(a), np.isnan(b)
        if not np.array_equal(na, nb):
            return False
        ok = ~na
        return bool(np.array_equal(a[ok], b[ok]) and np.array_equal(np.signbit(a[ok]), np.signbit(b[ok])))
    if a.dtype.kind == "O":
        try:
            return bool(np.array_equal(a, b))
        except Exception:
            return a.tolist() == b.tolist()
    return bool(np.array_equal(a, b))


def close(a, b):
    a = np.asarray(a)
    b = np.asarray(b)
    if a.shape != b.shape:
        return False
    if a.dtype.kind in "fc" or b.dtype.kind in "fc":
        try:
            return bool(np.allclose(a, b, rtol=1e-9, atol=1e-12, equal_nan=True))
        except Exception:
            return False
    if a.dtype.kind == "O" or b.dtype.kind == "O":
        return a.tolist() == b.tolist()
    return bool(np.array_equal(a, b))


def brief(v, limit=24):
    a = np.asarray(v)
    out = {"shape": list(a.shape), "dtype": str(a.dtype), "head": [repr(x) for x in a.ravel()[:limit].tolist()]}
    return out


def canon_chunks(chunks):
    import math

    return tuple(tuple("nan" if (isinstance(c, float) and math.isnan(c)) else int(c) for c in dim) for dim in chunks)


# ------------------------------------------------------------------------------ literal namespace


def NANP(k=1, neg=False):
    """A NaN with payload k (and optional sign bit)."""
    bits = 0x7FF8000000000000 | (int(k) & 0xFFFFFFFF) | ((1 << 63) if neg else 0)
    return struct.unpack("d", struct.pack("Q", bits))[0]


def _data(dtype, shape, k=0):
    n = int(np.prod(shape)) if shape else 1
    base = (np.arange(n, dtype="int64") * 7 + 3 * k) % 11 - 4
    dt = np.dtype(dtype)
    if dt.kind == "b":
        arr = (base % 3 == 0)
    elif dt.kind == "u":
        arr = (base + 4).astype(dt)
    elif dt.kind == "c":
        arr = (base + 1j * ((base * 3) % 5 - 2)).astype(dt)
    else:
        arr = base.astype(dt)
    return arr.reshape(shape)


class Namespace:
    """Evaluation namespace; `mode` 'da' gives dask collections for A(...)/G(...), 'np' gives NumPy twins."""

    def __init__(self, mode):
        self.mode = mode
        import dask_array as da

        from harness.props_ext import c06_pairs_catalog as cat

        ns = {"np": np, "NANP": NANP, "None": None, "True": True, "False": False, "da": da}
        for k in dir(cat):
            if k.startswith("f_"):
                ns[k] = getattr(cat, k)
        ns["A"] = self.A
        ns["R"] = self.R
        ns["G"] = self.G
        ns["RS"] = self.RS
        self.ns = ns

    def A(self, dtype, shape, chunks, k=0):
        """deterministic source array (values in -4..6)"""
        d = _data(dtype, tuple(shape), k)
        if self.mode == "np":
            return d
        import dask_array as da

        return da.from_array(d, chunks=chunks)

    def R(self, dtype, shape, k=0):
        """a plain NumPy array in both modes (weights, bins, literal array arguments)"""
        return _data(dtype, tuple(shape), k)

    def G(self, bitgen, seed):
        import dask_array as da

        if self.mode == "np":
            return ("G", bitgen, seed)
        cls = getattr(np.random, bitgen)
        return da.random.default_rng(cls(seed))

    def RS(self, seed):
        import dask_array as da

        if self.mode == "np":
            return ("RS", seed)
        return da.random.RandomState(seed)

    def eval(self, spec):
        return {k: eval(v, self.ns) for k, v in spec.items()}  # noqa: S307 (sources written by this harness)


# ------------------------------------------------------------------------------ families


class NoRef(Exception):
    """raised by a family's `ref` for a member that has no NumPy reference: the value alone is the oracle"""


class Family:
    def __init__(self, name, base, alts, make, ref=None, exact=True, one_sig=False):
        self.name = name
        self.one_sig = one_sig
        self.base = base  # dict param -> source, or callable(rng) -> dict
        self.alts = alts  # dict param -> list of sources, or callable(rng, base) -> dict
        self.make = make
        self.ref = ref
        self.exact = exact

    def specs(self, rng):
        base = self.base(rng) if callable(self.base) else dict(self.base)
        alts = self.alts(rng, base) if callable(self.alts) else self.alts
        specs = [dict(base)]
        labels = [["base", ""]]
        for p, vals in alts.items():
            for v in vals:
                if v == base.get(p):
                    continue
                s = dict(base)
                s[p] = v.replace("'nm'", f"'nm-{self.name}'")  # user-pinned names: unique per family
                specs.append(s)
                labels.append([p, v])
        return specs, labels


def families():
    from harness.props_ext import c06_pairs_catalog as cat

    return cat.catalogue()


def family_by_name(name):
    for f in families():
        if f.name == name:
            return f
    return None


# ------------------------------------------------------------------------------ evaluation helpers


def compute_one(x):
    import dask

    with dask.config.set(scheduler="sync"):
        r = x.compute()
    return np.asarray(r)


def np_ref(fam, spec):
    if fam.ref is None:
        return None
    with np.errstate(all="ignore"):
        import warnings

        with warnings.catch_warnings():
            warnings.simplefilter("ignore")
            return np.asarray(fam.ref(Namespace("np").eval(spec)))


def build(fam, spec):
    import warnings

    with warnings.catch_warnings():
        warnings.simplefilter("ignore")
        return fam.make(Namespace("da").eval(spec))


def alone_value(reg, fam, spec):
    """The value the call has when it is the only thing alive: built and computed from EMPTY registries."""

    def go():
        import warnings

        with warnings.catch_warnings(), np.errstate(all="ignore"):
            warnings.simplefilter("ignore")
            return compute_one(build(fam, spec))

    try:
        return ("ok", reg.isolated(go))
    except Exception as e:
        return ("err", f"{type(e).__name__}: {str(e)[:160]}")


CHILD = r"""
import json, sys, warnings
import numpy as np
sys.path.insert(0, {verif!r})
warnings.simplefilter("ignore")
from harness.props_ext import c06_pairs as P
req = json.loads(sys.stdin.read())
fam = P.family_by_name(req["family"])
try:
    with np.errstate(all="ignore"):
        v = P.compute_one(P.build(fam, req["spec"]))
    out = {{"ok": True, "dtype": str(v.dtype), "shape": list(v.shape), "hex": v.tobytes().hex() if v.dtype.kind != "O" else None, "obj": v.tolist() if v.dtype.kind == "O" else None}}
except Exception as e:
    out = {{"ok": False, "error": type(e).__name__ + ": " + str(e)[:200]}}
print(json.dumps(out, default=str))
"""


def fresh_value(fam, spec):
    """The same call in a FRESH process (no history at all)."""
    from harness.props import C06

    p = subprocess.run([sys.executable, "-c", CHILD.format(verif=str(core.VERIF))], input=json.dumps({"family": fam.name, "spec": spec}),
                       capture_output=True, text=True, timeout=300, env=C06.child_env(), cwd=str(core.VERIF))
    try:
        out = json.loads(p.stdout.strip().splitlines()[-1])
    except Exception:
        return ("err", "child failed: " + p.stderr[-300:])
    if not out.get("ok"):
        return ("err", out.get("error"))
    if out["hex"] is None:
        return ("ok", np.array(out["obj"], dtype=object).reshape(out["shape"]))
    return ("ok", np.frombuffer(bytes.fromhex(out["hex"]), dtype=np.dtype(out["dtype"])).reshape(out["shape"]))


# ------------------------------------------------------------------------------ one group

ESCALATION_CAP = 1  # fresh-process confirmations of "differs from NumPy but equals the value alone" per run


def diff_params(sa, sb):
    return sorted(k for k in set(sa) | set(sb) if sa.get(k) != sb.get(k))


class Group:
    def __init__(self, ctx, reg, fam, specs, labels, order, stats):
        self.ctx, self.reg, self.fam, self.specs, self.labels, self.order, self.stats = ctx, reg, fam, specs, labels, order, stats
        self._alone = {}
        self._ref = {}
        self.failed = False

    def case(self, **kw):
        c = {"pairs": True, "family": self.fam.name, "specs": self.specs, "labels": self.labels, "order": list(self.order)}
        c.update(kw)
        return c

    def ref(self, i):
        if i not in self._ref:
            try:
                self._ref[i] = ("ok", np_ref(self.fam, self.specs[i])) if self.fam.ref is not None else None
            except NoRef:
                self._ref[i] = None
            except Exception as e:
                self._ref[i] = ("err", f"{type(e).__name__}: {str(e)[:100]}")
        return self._ref[i]

    def alone(self, i):
        if i not in self._alone:
            self._alone[i] = alone_value(self.reg, self.fam, self.specs[i])
        return self._alone[i]

    def denotation(self, i):
        """What member i denotes, independently of anything else alive: NumPy reference, else alone value."""
        r = self.ref(i)
        if r is not None and r[0] == "ok":
            return ("numpy", r[1])
        a = self.alone(i)
        if a[0] == "ok":
            return ("alone", a[1])
        return None

    def fail(self, sig, what, **kw):
        self.failed = True
        if self.fam.one_sig:  # a fixed probe isolating ONE mechanism: one class of failure, however it shows
            kw["detected_as"] = sig
            sig = self.fam.one_sig
        self.ctx.fail(sig, self.case(**kw), what)

    # -- steps
    def run(self, do_compute, do_merged):
        try:
            return self._run(do_compute, do_merged)
        finally:
            if self.failed:
                self.reg.drain("discard")  # nothing of a failed group is blamed on the next one

    def _run(self, do_compute, do_merged):
        ctx, reg, fam = self.ctx, self.reg, self.fam
        built = []
        for i in self.order:
            r = self.ref(i)
            if r is not None and r[0] == "err":
                self.stats["variant-invalid-for-numpy"] += 1
                continue
            try:
                x = build(fam, self.specs[i])
                nm = x.name
            except Exception as e:
                self.stats["build-refused"] += 1
                self.stats[f"refused:{fam.name}:{self.labels[i][0]}"] += 1
                continue
            built.append((i, x, nm))
            ctx.count(("pairs-member", fam.name, self.labels[i][0]))
        if len(built) >= 2:
            self.same_name_pairs(built)  # the call-level statement first (it names the differing parameter) ...
        if self.failed:
            self.reg.drain("discard")
            return built
        self.drain("build")  # ... then every expression node created on the way
        if self.failed or len(built) < 2:
            return built
        if do_compute:
            for i, x, nm in built:
                first = None
                if self.ref(i) is None:
                    first = self.recompute_stable(i, x)
                    if self.failed:
                        return built
                self.check_value(i, (lambda x=x: compute_one(x)) if first is None else (lambda first=first: first), "separately")
                if self.failed:
                    return built
            self.drain("compute")
        if do_merged and not self.failed:
            import dask

            try:
                with dask.config.set(scheduler="sync"), np.errstate(all="ignore"):
                    import warnings

                    with warnings.catch_warnings():
                        warnings.simplefilter("ignore")
                        got = dask.compute(*[x for _, x, _ in built])
            except Exception as e:
                self.stats["merged-compute-raised"] += 1
                got = None
            self.drain("merged")
            if got is not None:
                for (i, x, nm), g in zip(built, got):
                    self.check_value(i, lambda g=g: np.asarray(g), "in one merged dask.compute")
                    if self.failed:
                        break
        return built

    def drain(self, where):
        for c in self.reg.drain(f"pairs:{self.fam.name}:{where}"):
            cls = "+".join(sorted({c["a"]["class"], c["b"]["class"]}))
            kind = "meta" if c["what"].startswith("shape") else "values"
            self.fail(f"pairs:registry-one-name-two-arrays:{self.fam.name}:{cls}:{kind}",
                      f"two expression nodes named {c['name']!r} created while building/computing near-duplicate calls: {c['what']}", registry_conflict=c)
            return

    def same_name_pairs(self, built):
        ctx, fam = self.ctx, self.fam
        by = collections.defaultdict(list)
        for i, x, nm in built:
            by[nm].append((i, x))
        for i, x, nm in built:
            ctx.count(("pairs-name", fam.name, self.labels[i][0], len(by[nm]) > 1))
        for nm, mem in by.items():
            if len(mem) < 2:
                continue
            cand = [(a, b) for k, a in enumerate(mem) for b in mem[k + 1:]]
            cand.sort(key=lambda ab: len(diff_params(self.specs[ab[0][0]], self.specs[ab[1][0]])))  # one-parameter pairs first
            for (i0, x0), (i1, x1) in cand[: 3 * len(mem)]:
                self.stats["same-name-pairs"] += 1
                params = diff_params(self.specs[i0], self.specs[i1])
                ptag = "+".join(params)
                try:
                    m0 = (canon_chunks(x0.chunks), str(x0.dtype))
                    m1 = (canon_chunks(x1.chunks), str(x1.dtype))
                except Exception:
                    m0 = m1 = None
                # the collection objects may be the very same expression (singleton): ask what each CALL denotes
                d0, d1 = self.denotation(i0), self.denotation(i1)
                if d0 is None or d1 is None:
                    self.stats["same-name-pair-undecidable"] += 1
                    continue
                self.stats["same-name-pairs-compared"] += 1
                if not samebits(d0[1], d1[1]):
                    if d0[0] == "alone" and not self.stable_alone(i0, i1):
                        continue
                    if d0[0] == "numpy" and not self.really_two_arrays(i0, i1):
                        continue
                    self.fail(
                        f"pairs:one-name-two-arrays:{fam.name}:{ptag}",
                        f"{fam.name}: two calls differing only in {params} get the name {nm!r} but denote different arrays ({d0[0]} oracle)",
                        name=nm, i=i0, j=i1, differing=params, value_i=brief(d0[1]), value_j=brief(d1[1]), oracle=d0[0],
                    )
                    return
                if m0 != m1:
                    self.fail(f"pairs:one-name-two-layouts:{fam.name}:{ptag}",
                              f"{fam.name}: two calls differing only in {params} get the name {nm!r} but advertise different chunks/dtype",
                              name=nm, i=i0, j=i1, differing=params, meta_i=m0, meta_j=m1)
                    return

    def really_two_arrays(self, i0, i1):
        """NumPy says the two calls differ.  The package may deviate from NumPy consistently (C01's subject, e.g. x[True]
        read as x[1]): the name is wrong only if the package ITSELF computes two arrays for the two calls -- alone from
        empty registries, or (process-wide caches) in two fresh processes."""
        a0, a1 = self.alone(i0), self.alone(i1)
        if a0[0] != "ok" or a1[0] != "ok":
            return True
        if not samebits(a0[1], a1[1]):
            return True
        if self.stats["fresh-process-pair-confirmations"] >= 3:
            self.stats["same-name-pair-numpy-differs-unconfirmed(cap)"] += 1
            return False
        self.stats["fresh-process-pair-confirmations"] += 1
        f0, f1 = fresh_value(self.fam, self.specs[i0]), fresh_value(self.fam, self.specs[i1])
        if f0[0] == "ok" and f1[0] == "ok" and not samebits(f0[1], f1[1]):
            return True
        self.stats["same-name-pair-numpy-differs-but-package-computes-one-array(C01 subject)"] += 1
        self.stats[f"deviates-from-numpy-consistently:{self.fam.name}:{'+'.join(diff_params(self.specs[i0], self.specs[i1]))}"] += 1
        return False

    def recompute_stable(self, i, x):
        """One collection computed twice: one name, so one array (families without a NumPy reference only)."""
        try:
            with np.errstate(all="ignore"):
                v1, v2 = compute_one(x), compute_one(x)
        except Exception:
            self.stats["recompute-raised"] += 1
            return None
        if samebits(v1, v2):
            return v1
        self.fail(f"pairs:recompute-differs:{self.fam.name}",
                  f"{self.fam.name}: ONE collection (name {x.name!r}) computed twice gives two different arrays", i=i, name=x.name, first=brief(v1), second=brief(v2))
        return None

    def stable_alone(self, i0, i1):
        """Alone values are an oracle only when they are reproducible (a second evaluation agrees)."""
        for i in (i0, i1):
            again = alone_value(self.reg, self.fam, self.specs[i])
            if again[0] != "ok" or not samebits(again[1], self._alone[i][1]):
                self.stats["alone-value-not-reproducible"] += 1
                return False
        return True

    def check_value(self, i, thunk, how):
        fam = self.fam
        self.ctx.count(("pairs-compute", fam.name, how))
        try:
            with np.errstate(all="ignore"):
                import warnings

                with warnings.catch_warnings():
                    warnings.simplefilter("ignore")
                    got = ("ok", thunk())
        except Exception as e:
            got = ("err", f"{type(e).__name__}: {str(e)[:160]}")
        den = self.denotation(i)
        if den is None:
            self.stats["member-without-oracle"] += 1
            return
        kind, want = den
        if got[0] == "ok":
            ok = samebits(got[1], want) if (fam.exact or kind == "alone") else close(got[1], want)
            if ok:
                return
        self.stats["value-differs-from-oracle"] += 1
        if kind == "numpy" and got[0] == "ok":
            # cheap first: the same call alone, from empty registries, in this process
            al = self.alone(i)
            if al[0] == "ok" and samebits(al[1], got[1]):
                self.stats["differs-from-numpy-but-same-alone"] += 1
                self.stats[f"not-numpy-but-history-independent:{fam.name}:{self.labels[i][0]}"] += 1
                if self.stats["fresh-process-confirmations"] >= ESCALATION_CAP:
                    return
                self.stats["fresh-process-confirmations"] += 1
        # escalate: a FRESH process decides whether the difference is due to the companions / the history
        fr = fresh_value(fam, self.specs[i])
        if fr[0] != "ok":
            self.stats["escalation:fresh-process-also-fails"] += 1
            return
        if got[0] == "ok" and (samebits(got[1], fr[1]) if fam.exact else close(got[1], fr[1])):
            # same result without any history: not a naming problem (C01's subject, or an imprecise reference)
            self.stats["escalation:same-in-fresh-process"] += 1
            return
        lab = self.labels[i][0]
        if got[0] == "ok":
            self.fail(f"pairs:value-depends-on-companions:{fam.name}:{lab}",
                      f"{fam.name}: a call computed {how} gives another array than the same call in a fresh process (near-duplicates alive: one computation substituted for another)",
                      i=i, how=how, got=brief(got[1]), fresh_process=brief(fr[1]), oracle=kind, want=brief(want))
        else:
            self.fail(f"pairs:raises-only-with-companions:{fam.name}:{lab}",
                      f"{fam.name}: a call computed {how} raises ({got[1]}) but computes in a fresh process (near-duplicates alive)",
                      i=i, how=how, error=got[1], fresh_process=brief(fr[1]))


# ------------------------------------------------------------------------------ driver


def run(ctx, reg, only=None, budget_s=None):
    rng = ctx.rng
    fams = families()
    stats = collections.Counter()
    t0 = ctx.elapsed()
    budget = budget_s if budget_s is not None else ctx.scale(18, 240)
    order_f = list(fams)
    rng.shuffle(order_f)
    classes_before = {e.skey[0] for ents in reg.by_name.values() for e in ents}
    done = 0
    computed = 0
    times = collections.Counter()
    plan = []
    for fam in order_f:
        if only and fam.name not in only:
            continue
        try:
            specs, labels = fam.specs(rng)
        except Exception as e:
            stats[f"family-broken:{fam.name}:{type(e).__name__}"] += 1
            continue
        order = list(range(len(specs)))
        rng.shuffle(order)
        plan.append((fam, specs, labels, order, rng.random() < 0.15))
    plan.sort(key=lambda p: not p[0].one_sig)  # the fixed probes first (stable sort: the rest stays shuffled)
    # pass A, ALWAYS complete: names (call level) + registry (node level) for every family, in both build orders
    failed = set()
    for fam, specs, labels, order, _m in plan:
        t_f = ctx.elapsed()
        for o in (order, order[::-1]):
            g = Group(ctx, reg, fam, specs, labels, o, stats)
            g.run(do_compute=False, do_merged=False)
            bad = g.failed
            del g
            gc.collect(1)  # the other order starts from scratch (no collection of the first pass alive)
            if bad:
                failed.add(fam.name)
                break
        done += 1
        times[fam.name] += ctx.elapsed() - t_f
        if done == 1:
            ctx.sample({"kind": "near-duplicate-group", "family": fam.name, "specs": specs[:4]})
    names_s = ctx.elapsed() - t0
    # pass B, time-boxed: every member computed separately and all members in one merged dask.compute
    for fam, specs, labels, order, merged_reverse in plan:
        if fam.name in failed:
            continue
        if ctx.elapsed() - t0 > budget:
            stats["families-not-computed(time)"] += 1
            continue
        t_f = ctx.elapsed()
        g = Group(ctx, reg, fam, specs, labels, order, stats)
        g.run(do_compute=True, do_merged=True)
        computed += 1
        if not g.failed and merged_reverse:
            del g
            gc.collect(1)
            Group(ctx, reg, fam, specs, labels, order[::-1], stats).run(do_compute=False, do_merged=True)
        times[fam.name] += ctx.elapsed() - t_f
    times = {k: round(v, 2) for k, v in times.items()}
    stats["seconds-names-pass"] = round(names_s, 1)
    ctx.notes["pairs"] = {k: v for k, v in stats.items() if ":" not in k}
    ctx.notes["pairs_detail"] = {k: v for k, v in stats.items() if ":" in k}
    ctx.notes["pairs_slowest"] = dict(sorted(times.items(), key=lambda kv: -kv[1])[:12])
    ctx.notes["pairs_families"] = {"total": len(fams), "run": done, "with_computes": computed, "seconds": round(ctx.elapsed() - t0, 1)}
    classes_after = {e.skey[0] for ents in reg.by_name.values() for e in ents}
    ctx.notes["pairs_new_expr_classes"] = sorted(classes_after - classes_before)
    try:
        ctx.notes["expr_classes_never_seen"] = sorted(all_expr_classes() - classes_after)
    except Exception:
        pass


def all_expr_classes():
    import importlib
    import pkgutil

    import dask_array as da
    from dask_array._expr import ArrayExpr

    for m in pkgutil.walk_packages(da.__path__, "dask_array."):
        if ".tests" in m.name or "_frisky" in m.name or "test_" in m.name:
            continue
        try:
            importlib.import_module(m.name)
        except Exception:
            pass
    out = set()
    stack = [ArrayExpr]
    while stack:
        c = stack.pop()
        for s in c.__subclasses__():
            if s.__name__ not in out:
                out.add(s.__name__)
                stack.append(s)
    return out


def replay(ctx, reg, case):
    fam = family_by_name(case["family"])
    if fam is None:
        ctx.notes["replay"] = f"unknown family {case['family']}"
        return
    stats = collections.Counter()
    for order in (case["order"], case["order"][::-1]):
        g = Group(ctx, reg, fam, case["specs"], case["labels"], order, stats)
        g.run(do_compute=True, do_merged=True)
        if g.failed:
            break
        del g
        gc.collect()
    ctx.notes["pairs"] = dict(stats)
