"""C15, chunk tuples with UNKNOWN (nan) block sizes reaching the rechunk machinery.

An axis whose blocks come (partly) from a boolean-mask selection has nan entries in its chunk tuple; WHERE the nans
sit depends on how the array was put together: `concatenate([known, masked, known])` gives (3, 3, nan, nan, 3, 3).
A rechunk may not change such an axis (the crosswalk on it is the identity: new block j = the whole of old block j)
while the other, known, axes get the ordinary exact crosswalk.  The class explored here is the POSITION pattern of the
nans per axis -- start / end / middle / everywhere / alternating / a single nan among many known / two islands / both
ends / random -- on one or several axes, with the rechunk changing only known axes, nothing, or (must be refused) an
unknown axis.

Streams (every quick run; a deterministic sweep over all patterns first, then seeded random):
  nan-crosswalk  `old_to_new` / `intersect_chunks` on rank 1-3 chunkings; oracle = brute force on positions for known
                 axes, identity for unknown axes, C-ordered product for `intersect_chunks`; the known axes are also
                 compared with the model (`rc.old_to_new`, one axis at a time).
  nan-validate   `_validate_rechunk`: accepts iff unknown axes are unchanged (nan-for-nan, known-for-known) and known
                 axes keep their length; every kind of change on an unknown axis must be refused (ValueError).
  nan-estimate   `plan_rechunk` (must be the single step [new]), `estimate_graph_size`, `_number_of_blocks`,
                 `_largest_block_size`, `_rechunk_stage_transfer`, `_choose_rechunk_method`: no exception, nan-safe.
  nan-api        arrays built through the public API (slices of a from_array cut at block boundaries, some of them
                 boolean-masked by a dask mask, concatenated again; one or two axes; optionally wrapped in map_blocks /
                 arithmetic / stack) then x.rechunk(spec, ...) with dict / tuple / scalar specs (int, -1, explicit
                 tuples, None, 'auto'; threshold / block_size_limit / balance / method kwargs).  Oracles: NumPy on the
                 same data; advertised chunks (`Rechunk.chunks`) = expected normalisation on known axes and the same nan
                 pattern on unknown axes; every block of the executed graph has exactly the expected shape (unknown
                 sizes from the mask's popcounts); `transfer_bytes` does not raise; a spec that changes an unknown axis
                 must be refused.
Signatures: nan:crosswalk:{raises,rank,unknown-axis,known-axis,intersect}, nan:validate:{refuses-unchanged,accepts-changed},
  nan:estimate:{raises,plan}, nan:api:{raises,chunks,values,blocks,accepts-changed-unknown-axis,transfer-bytes}.
"""
from __future__ import annotations

import itertools
import math
import warnings

from harness import gen
from harness.core import err_name, f_list

EXC = (AssertionError, IndexError, ValueError, TypeError, ZeroDivisionError, OverflowError, KeyError, AttributeError,
       NotImplementedError, RuntimeError)

PATTERNS = ("start", "end", "middle", "all", "alternating", "single", "islands", "ends", "random")


# --------------------------------------------------------------------------- encoding

def to_nan(chunks):
    return tuple(tuple(math.nan if c is None else int(c) for c in ax) for ax in chunks)


def lay(c):
    return [None if (isinstance(v, float) and math.isnan(v)) else int(v) for v in c]


def lays(chunks):
    return [lay(c) for c in chunks]


def has_nan(ax):
    return any(c is None for c in ax)


def f_cross(ax):
    if not ax:
        return "-"
    return ";".join(("_" if not blk else ",".join(f"{i}@{s.start}:{s.stop}" for i, s in blk)) for blk in ax)


# --------------------------------------------------------------------------- generators

def nan_axis(rng, pattern=None, length=None, zeros=0.0):
    """A chunk tuple (None = unknown) with the nans placed by `pattern`."""
    pattern = pattern or rng.choice(PATTERNS)
    L = length or rng.choice([1, 2, 3, 3, 4, 5, 6, 7])
    known = [rng.choice([1, 2, 3, 3, 4, 5]) if rng.random() >= zeros else 0 for _ in range(L)]
    if pattern == "all":
        mask = [True] * L
    elif pattern == "start":
        k = rng.randint(1, max(1, L - 1))
        mask = [i < k for i in range(L)]
    elif pattern == "end":
        k = rng.randint(1, max(1, L - 1))
        mask = [i >= L - k for i in range(L)]
    elif pattern == "middle":
        L = max(L, 3)
        known = (known + [3, 2, 4])[:L]
        a = rng.randint(1, L - 2)
        b = rng.randint(a + 1, L - 1)
        mask = [a <= i < b for i in range(L)]
    elif pattern == "alternating":
        off = rng.randint(0, 1)
        mask = [(i + off) % 2 == 0 for i in range(L)]
        if not any(mask):
            mask[0] = True
    elif pattern == "single":
        L = max(L, 4)
        known = (known + [2, 3, 1, 4])[:L]
        j = rng.randrange(L)
        mask = [i == j for i in range(L)]
    elif pattern == "islands":
        L = max(L, 5)
        known = (known + [2, 3, 1, 4, 2])[:L]
        mask = [False] * L
        mask[1] = True
        mask[rng.randint(3, L - 1) if L > 4 and rng.random() < 0.5 else 3] = True
        if L > 5:
            mask[-2] = True
    elif pattern == "ends":
        L = max(L, 3)
        known = (known + [3, 2, 4])[:L]
        mask = [i in (0, L - 1) for i in range(L)]
    else:
        mask = [rng.random() < 0.5 for _ in range(L)]
        if not any(mask):
            mask[rng.randrange(L)] = True
    return [None if m else k for m, k in zip(mask, known)]


def pattern_of(ax):
    """classify the nan positions of one axis (for ctx.count)"""
    m = [c is None for c in ax]
    if not any(m):
        return "known"
    if all(m):
        return "all"
    first, last = m[0], m[-1]
    runs = sum(1 for i, v in enumerate(m) if v and (i == 0 or not m[i - 1]))
    if runs == 1:
        return "start" if first else ("end" if last else ("single" if sum(m) == 1 else "middle"))
    if first and last:
        return "ends+" if runs > 2 else "ends"
    return ("islands" if not first and not last else "mixed") + ("" if runs <= 2 else "+")


def rand_known_pair(rng, zeros=0.0):
    n = rng.choice([1, 2, 3, 4, 6, 8, 8, 12])
    o = list(gen.rand_chunks(rng, n, zeros=zeros, maxparts=6))
    w = list(gen.rand_chunks(rng, n, zeros=zeros, maxparts=6))
    if rng.random() < 0.2:
        w = list(o)
    return o, w


def rand_crosswalk_case(rng):
    rank = rng.choice([1, 2, 2, 2, 3, 3])
    n_unknown = rng.choice([1, 1, 1, 2]) if rank > 1 else 1
    if rng.random() < 0.05:
        n_unknown = 0
    unknown_axes = set(rng.sample(range(rank), min(rank, n_unknown)))
    old, new = [], []
    for ax in range(rank):
        if ax in unknown_axes:
            u = nan_axis(rng, zeros=rng.choice([0, 0, 0.2]))
            old.append(u)
            new.append(list(u))
        else:
            o, w = rand_known_pair(rng, zeros=rng.choice([0, 0, 0, 0.3]))
            old.append(o)
            new.append(w)
    return {"kind": "nan-crosswalk", "old": old, "new": new}


SWEEP_UNKNOWN = [
    [None], [None, None], [None, 3], [3, None], [2, None, 4], [2, 2, None, None, 3], [3, 3, None, None, 3, 3],
    [3, None, 3, None, 2], [None, 2, None], [5, None, None, 1], [None, 2, 2, None], [1, 2, None, 3, 4, 5],
    [None, None, 2, 2], [2, 2, None, None], [1, None, 1, None, 1, None, 1], [0, None, 2], [2, None, 0, 3],
]
SWEEP_KNOWN = [
    ([4, 4], [2, 2, 2, 2]), ([3, 5], [8]), ([8], [1, 7]), ([2, 3, 3], [3, 2, 3]), ([2, 2], [2, 2]), ([1], [1]),
    ([2, 0, 2], [1, 3]),
]


def sweep_crosswalk_cases():
    for u in SWEEP_UNKNOWN:
        for ko, kn in SWEEP_KNOWN:
            yield {"kind": "nan-crosswalk", "old": [list(u), list(ko)], "new": [list(u), list(kn)]}
            yield {"kind": "nan-crosswalk", "old": [list(ko), list(u)], "new": [list(kn), list(u)]}
        yield {"kind": "nan-crosswalk", "old": [list(u)], "new": [list(u)]}
    for u, v in itertools.islice(itertools.product(SWEEP_UNKNOWN[2:9], SWEEP_UNKNOWN[4:10]), 0, None, 3):
        for ko, kn in SWEEP_KNOWN[:4]:
            yield {"kind": "nan-crosswalk", "old": [list(u), list(ko), list(v)], "new": [list(u), list(kn), list(v)]}


# --------------------------------------------------------------------------- oracles (helper level)

def known_axis_msg(old, new, rows):
    """brute force on positions (same contract as C15.brute_crosswalk)"""
    if len(rows) != len(new):
        return f"{len(rows)} rows for {len(new)} new blocks"
    ostart = [0]
    for c in old:
        ostart.append(ostart[-1] + c)
    pos = 0
    for j, blk in enumerate(rows):
        if not blk:
            return f"new block {j}: empty piece list"
        got = []
        for piece in blk:
            try:
                i, s = piece
            except Exception:  # noqa: BLE001
                return f"new block {j}: malformed piece {piece!r}"
            if not (isinstance(i, int) and 0 <= i < len(old)):
                return f"new block {j}: old block index {i!r} out of range"
            if not (isinstance(s.start, int) and isinstance(s.stop, int)) or s.step not in (None, 1):
                return f"new block {j}: non-integer slice {s}"
            if not 0 <= s.start <= s.stop <= old[i]:
                return f"new block {j}: slice {s} outside old block {i} of width {old[i]}"
            got.extend(range(ostart[i] + s.start, ostart[i] + s.stop))
        if got != list(range(pos, pos + new[j])):
            return f"new block {j}: pieces do not cover positions [{pos}, {pos + new[j]})"
        pos += new[j]
    return None


def unknown_axis_msg(old, rows):
    """identity: row j = [(j, slice(0, size or None))]"""
    if len(rows) != len(old):
        return f"{len(rows)} rows for {len(old)} blocks"
    for j, blk in enumerate(rows):
        if len(blk) != 1:
            return f"block {j}: expected one piece, got {len(blk)}"
        try:
            i, s = blk[0]
        except Exception:  # noqa: BLE001
            return f"block {j}: malformed piece {blk[0]!r}"
        if i != j:
            return f"block {j}: taken from old block {i!r}"
        if s.start not in (0, None) or s.step not in (1, None):
            return f"block {j}: slice {s} does not start at 0"
        if s.stop != old[j]:  # None for an unknown size, the width for a known one
            return f"block {j}: slice {s} should stop at {old[j]}"
    return None


def _rows_repr(cw):
    out = []
    for ax in cw:
        try:
            out.append([[[i if isinstance(i, int) else repr(i), repr(s)] for i, s in blk] for blk in ax])
        except Exception:  # noqa: BLE001
            out.append(repr(ax)[:200])
    return out


def check_crosswalk_case(ctx, R, case, pairs=None):
    old_l, new_l = case["old"], case["new"]
    old, new = to_nan(old_l), to_nan(new_l)
    try:
        cw = R.old_to_new(old, new)
        inter = [tuple(e) for e in R.intersect_chunks(old, new)]
    except EXC as e:
        ctx.fail("nan:crosswalk:raises", dict(case, error=repr(e)), "old_to_new / intersect_chunks raises on a valid request (unknown axes unchanged)")
        if pairs is not None:
            for o, w in zip(old_l, new_l):
                if not has_nan(o):
                    pairs.append((f"rc.old_to_new {f_list(o)} {f_list(w)}", err_name(e)))
        return False
    ctx.count(("nan-xwalk", len(old_l), tuple(sorted({pattern_of(o) for o in old_l})), any(o != w for o, w in zip(old_l, new_l))))
    if len(cw) != len(old_l):
        ctx.fail("nan:crosswalk:rank", dict(case, got=len(cw)), "old_to_new returns a crosswalk for another number of axes")
        return False
    ok = True
    for ax, (o, w, rows) in enumerate(zip(old_l, new_l, cw)):
        if has_nan(o):
            msg = unknown_axis_msg(o, rows)
            sig = "nan:crosswalk:unknown-axis"
        else:
            msg = known_axis_msg(o, w, rows)
            sig = "nan:crosswalk:known-axis"
            if pairs is not None and msg is None:
                pairs.append((f"rc.old_to_new {f_list(o)} {f_list(w)}", "ok " + f_cross(rows)))
        if msg:
            ok = False
            ctx.fail(sig, dict(case, axis=ax, problem=msg, got=_rows_repr(cw)[ax]),
                     "the crosswalk must be the identity on an axis with unknown block sizes and the exact interval intersection on a known axis")
    if not ok:
        return False
    # intersect_chunks: one entry per new block (C order), each the C-ordered product of the per-axis pieces
    want = [tuple(itertools.product(*[cw[ax][j] for ax, j in enumerate(idx)])) for idx in itertools.product(*[range(len(w)) for w in new_l])]
    if len(inter) != len(want) or any(tuple(a) != b for a, b in zip(inter, want)):
        ctx.fail("nan:crosswalk:intersect", dict(case, entries=len(inter), expected=len(want)),
                 "intersect_chunks is not the C-ordered product of the per-axis crosswalk rows (one entry per new block)")
        return False
    return True


def variants_of_unknown_axis(rng, ax):
    """changes of an axis with unknown sizes that a rechunk must refuse"""
    out = []
    L = len(ax)
    known = [i for i, c in enumerate(ax) if c is not None]
    unknown = [i for i, c in enumerate(ax) if c is None]
    if known:
        i = rng.choice(known)
        out.append(("known-entry-changed", [c + 1 if j == i else c for j, c in enumerate(ax)]))
    if known and unknown:
        i, j = rng.choice(known), rng.choice(unknown)
        v = list(ax)
        v[i], v[j] = v[j], v[i]
        out.append(("nan-moved", v))
    out.append(("nans-replaced", [3 if c is None else c for c in ax]))
    out.append(("merged", [None] if L > 1 else [None, None]))
    if L > 1:
        out.append(("dropped-block", list(ax[:-1]) if has_nan(ax[:-1]) else list(ax[1:])))
    out.append(("extra-block", list(ax) + [rng.choice([None, 2])]))
    if len(known) >= 2:
        i, j = known[0], known[-1]
        if ax[i] > 0:
            out.append(("known-sum-kept", [c - 1 if k == i else (c + 1 if k == j else c) for k, c in enumerate(ax)]))
    return [(n, v) for n, v in out if v != list(ax)]


def check_validate_case(ctx, R, case):
    """case: old, new (None = nan), expect 'accept' | 'refuse'"""
    old, new = to_nan(case["old"]), to_nan(case["new"])
    try:
        R._validate_rechunk(old, new)
        got = "accept"
    except ValueError:
        got = "refuse"
    except EXC as e:
        got = "raises " + type(e).__name__
    ctx.count(("nan-validate", case["expect"], case.get("variant"), len(old)))
    if got == case["expect"]:
        return True
    if case["expect"] == "accept":
        ctx.fail("nan:validate:refuses-unchanged", dict(case, got=got),
                 "_validate_rechunk refuses a rechunk that leaves every axis with unknown sizes unchanged and keeps the known lengths")
    elif got == "accept":
        ctx.fail("nan:validate:accepts-changed", dict(case, got=got),
                 "_validate_rechunk accepts a rechunk that changes an axis with unknown block sizes")
    else:
        return True  # another exception class is still a refusal
    return False


def check_estimate_case(ctx, R, case):
    """planner and estimates on nan layouts: no exception; plan_rechunk must return the single step [new]"""
    import dask

    old, new = to_nan(case["old"]), to_nan(case["new"])
    itemsize = case.get("itemsize", 8)
    out = {}
    try:
        with dask.config.set({"array.rechunk.method": None}):
            out["plan"] = R.plan_rechunk(old, new, itemsize, case.get("threshold"), case.get("limit"))
            out["graph"] = R.estimate_graph_size(old, new)
            out["nblocks"] = R._number_of_blocks(old)
            out["largest"] = R._largest_block_size(old)
            out["transfer"] = R._rechunk_stage_transfer(old, new, itemsize)
            out["method"] = R._choose_rechunk_method(old, new, threshold=case.get("threshold"))
    except EXC as e:
        ctx.fail("nan:estimate:raises", dict(case, error=repr(e), done=sorted(out)),
                 "a planner / estimate function raises on chunkings with unknown block sizes (unknown axes unchanged)")
        return False
    ctx.count(("nan-estimate", len(old), tuple(sorted({pattern_of(o) for o in case["old"]}))))
    plan = out["plan"]
    any_nan = any(has_nan(o) for o in case["old"])
    good = isinstance(plan, list) and len(plan) >= 1 and lays(plan[-1]) == case["new"] and (not any_nan or len(plan) == 1)
    if not good:
        ctx.fail("nan:estimate:plan", dict(case, plan=[lays(s) for s in plan] if isinstance(plan, list) else repr(plan)),
                 "plan_rechunk on a chunking with unknown sizes is not the single step [new]")
        return False
    want_blocks = math.prod(len(o) for o in case["old"])
    lo, hi = out["transfer"]
    if out["nblocks"] != want_blocks or not isinstance(out["graph"], int) or out["graph"] < 1 or (any_nan and not (math.isnan(lo) and math.isnan(hi))) \
            or out["method"] not in ("tasks", "p2p"):
        ctx.fail("nan:estimate:plan", dict(case, nblocks=out["nblocks"], graph=repr(out["graph"]), transfer=repr(out["transfer"]), method=repr(out["method"])),
                 "an estimate on a chunking with unknown sizes is not nan-safe (block count / graph size / transfer bytes / method)")
        return False
    return True


# --------------------------------------------------------------------------- API level

def _ident(b):
    return b


def _segments_for(rng, pattern, lo=1, hi=4):
    """segments of one axis: [{"chunks": [...], "bits": [0/1...] or None}]; masked segments give unknown blocks.
    The POSITION pattern of the masked segments is what matters."""
    def seg(masked, nblocks=None):
        nb = nblocks or rng.choice([1, 1, 2])
        chunks = [rng.randint(lo, hi) for _ in range(nb)]
        n = sum(chunks)
        bits = None
        if masked:
            style = rng.random()
            if style < 0.35:
                bits = [1] * n
            elif style < 0.9:
                bits = [int(rng.random() < 0.6) for _ in range(n)]
            else:
                bits = [0] * n  # selects nothing: zero-size blocks of unknown size
        return {"chunks": chunks, "bits": bits}

    k, m = False, True
    shapes = {
        "start": [m, k], "end": [k, m], "middle": [k, m, k], "all": [m], "alternating": [m, k, m, k][: rng.choice([3, 4])],
        "single": [k, k, m, k], "islands": [k, m, k, m, k], "ends": [m, k, m], "known": [k],
        "random": [rng.random() < 0.5 for _ in range(rng.randint(2, 4))],
    }
    flags = shapes[pattern]
    if pattern == "random" and not any(flags):
        flags[rng.randrange(len(flags))] = True
    if pattern == "single":
        rng.shuffle(flags)
    return [seg(f, 1 if pattern == "single" and f else None) for f in flags]


def rand_spec_axis(rng, n, unknown, mode):
    """one axis of a rechunk spec.  mode 'keep' -> a form that leaves the axis alone, 'change' -> changes it.
    Returns a JSON-able token: "omit" | None | "same" | int | -1 | "auto" | [ints]"""
    if mode == "keep":
        return rng.choice(["omit", None, "same"])
    if unknown:
        return rng.choice([-1, rng.randint(1, 4), "auto", "known-tuple", "merge-tuple"])
    r = rng.random()
    if r < 0.3:
        return -1
    if r < 0.65:
        return rng.randint(1, max(1, n))
    return list(c for c in gen.rand_chunks(rng, n, maxparts=6))


def rand_api_case(rng, pattern=None, second=None, change=None):
    rank = rng.choice([2, 2, 2, 3])
    axes = []
    pat0 = pattern or rng.choice(PATTERNS)
    pats = [pat0] + [(second if (second and i == 1) else rng.choice(["known", "known", "known"] + list(PATTERNS[:4]))) for i in range(1, rank)]
    if rank == 3:
        pats[2] = "known" if pats[1] != "known" else pats[2]
    order = list(range(rank))
    rng.shuffle(order)
    pats = [pats[order.index(i)] for i in range(rank)]
    for p in pats:
        axes.append(_segments_for(rng, p, lo=1, hi=3 if rank == 3 else 4))
    unknown = [any(s["bits"] is not None for s in segs) for segs in axes]
    # the rechunk: which axes change
    change = change or rng.choice(["known", "known", "known", "none", "unknown", "both"])
    spec = []
    for ax, segs in enumerate(axes):
        n = sum(sum(s["chunks"]) for s in segs)
        if unknown[ax]:
            mode = "change" if change in ("unknown", "both") else "keep"
        else:
            mode = "change" if change in ("known", "both") else "keep"
        spec.append(rand_spec_axis(rng, n, unknown[ax], mode))
    if change in ("unknown", "both") and not any(unknown):
        change = "known" if change == "both" else "none"
    form = rng.choice(["dict", "dict", "tuple"])
    if form == "tuple":
        spec = [None if t == "omit" else t for t in spec]
    kwargs = {}
    if rng.random() < 0.25:
        kwargs["threshold"] = rng.choice([1, 2, 4])
    if rng.random() < 0.25:
        kwargs["block_size_limit"] = rng.choice([1, 16, 64, 10**6])
    if rng.random() < 0.15:
        kwargs["method"] = "tasks"
    if rng.random() < 0.1:
        kwargs["balance"] = True
    return {"kind": "nan-api", "axes": axes, "wrap": rng.choice(["none", "none", "ident", "add", "stack", "neg"]), "form": form,
            "spec": spec, "kwargs": kwargs, "build_order": rng.choice(["asc", "desc"])}


def scalar_api_case(rng, pattern):
    """whole-array scalar specs (-1 / int / 'auto'): touch every axis, so with an unknown axis they must be refused"""
    c = rand_api_case(rng, pattern, change="none")
    c["form"] = "scalar"
    c["spec"] = rng.choice([-1, 2, "auto"])
    c["kwargs"] = {}
    return c


def build_api(case):
    """-> (dask array, numpy array, expected chunk layout per axis (None = unknown), true sizes per axis)"""
    import numpy as np

    import dask_array as da

    axes = case["axes"]
    shape = tuple(sum(sum(s["chunks"]) for s in segs) for segs in axes)
    base_chunks = tuple(tuple(c for s in segs for c in s["chunks"]) for segs in axes)
    a = (np.arange(math.prod(shape), dtype="int64") * 7 + 3).reshape(shape)
    base = da.from_array(a, chunks=base_chunks)
    nd = len(shape)
    # per axis: segment extents, advertised layout, true sizes, NumPy selection
    starts, advertised, true, sel = [], [], [], []
    for segs in axes:
        pos, st, adv, tru, keep = 0, [], [], [], []
        for s in segs:
            n = sum(s["chunks"])
            st.append((pos, pos + n))
            if s["bits"] is not None:
                adv += [None] * len(s["chunks"])
                off = 0
                for c in s["chunks"]:
                    tru.append(int(sum(s["bits"][off:off + c])))
                    off += c
                keep += [pos + i for i, b in enumerate(s["bits"]) if b]
            else:
                adv += list(s["chunks"])
                tru += list(s["chunks"])
                keep += list(range(pos, pos + n))
            pos += n
        starts.append(st)
        advertised.append(adv)
        true.append(tru)
        sel.append(np.array(keep, dtype=int))
    a = a[np.ix_(*sel)]
    mask_order = list(range(nd)) if case.get("build_order", "asc") == "asc" else list(range(nd - 1, -1, -1))

    # a grid of cells (one per combination of segments): each cell is a slice of the from_array cut at block boundaries,
    # boolean-masked by a dask mask along every axis whose segment is masked; the cells are concatenated axis by axis
    def cell(idx):
        p = base[tuple(slice(*starts[ax][i]) for ax, i in enumerate(idx))]
        for ax in mask_order:
            s = axes[ax][idx[ax]]
            if s["bits"] is not None:
                m = da.from_array(np.array(s["bits"], dtype=bool), chunks=(tuple(s["chunks"]),))
                p = p[(slice(None),) * ax + (m,)]
        return p

    def assemble(ax, prefix):
        if ax == nd:
            return cell(prefix)
        parts = [assemble(ax + 1, prefix + (i,)) for i in range(len(axes[ax]))]
        return da.concatenate(parts, axis=ax, allow_unknown_chunksizes=True) if len(parts) > 1 else parts[0]

    x = assemble(0, ())
    wrap = case.get("wrap", "none")
    if wrap == "ident":
        x = x.map_blocks(_ident, dtype=x.dtype)
    elif wrap == "add":
        x, a = x + 1, a + 1
    elif wrap == "neg":
        x, a = -x, -a
    elif wrap == "stack":
        x, a = da.stack([x, x + 5], axis=0), np.stack([a, a + 5], axis=0)
        advertised, true = [[1, 1]] + advertised, [[1, 1]] + true
    return x, a, advertised, true


def _norm_known(tok, n, prev):
    """expected normalised chunks of a KNOWN axis of length n for a spec token (None if not predictable here)"""
    if tok in ("omit", None, "same"):
        return list(prev)
    if tok == -1:
        return [n]
    if isinstance(tok, int):
        return [tok] * (n // tok) + ([n % tok] if n % tok else []) if n else [0]
    if isinstance(tok, list):
        return list(tok)
    return None  # 'auto'


def resolve_spec(case, x_layout):
    """-> (python spec for x.rechunk, expected layout per axis or None when unpredictable, changes_unknown, uses_auto)"""
    nd = len(x_layout)
    toks = case["spec"]
    if case["form"] == "scalar":
        tok = toks
        changes_unknown = any(has_nan(l) for l in x_layout)
        exp = None if tok == "auto" else [_norm_known(tok, sum(l), l) if not has_nan(l) else None for l in x_layout]
        return tok, exp, changes_unknown, tok == "auto"
    toks = list(toks)
    if case.get("wrap") == "stack":  # the stacked (new, known) axis comes first: merge / keep it
        toks = [case.get("stack_tok", -1)] + toks
    toks = (toks + ["omit"] * nd)[:nd]
    py, exp = {}, []
    changes_unknown = uses_auto = False
    for ax, (tok, l) in enumerate(zip(toks, x_layout)):
        unknown = has_nan(l)
        if tok == "same":
            val = tuple(math.nan if c is None else c for c in l)
        elif tok == "known-tuple":
            val = tuple(2 if c is None else c for c in l)
        elif tok == "merge-tuple":
            val = (math.nan,) if len(l) > 1 else (math.nan, math.nan)
        elif isinstance(tok, list):
            val = tuple(tok)
        else:
            val = tok
        if unknown:
            if tok not in ("omit", None, "same"):
                changes_unknown = True
            exp.append(list(l))
        else:
            if tok == "auto":
                uses_auto = True
            exp.append(_norm_known(tok, sum(l), l))
        if tok != "omit":
            py[ax] = val
    if case["form"] == "tuple":
        spec = tuple(py.get(ax) for ax in range(nd))
    else:
        spec = py
    return spec, exp, changes_unknown, uses_auto


def check_api_case(ctx, case):
    import numpy as np

    import dask

    try:
        with warnings.catch_warnings():
            warnings.simplefilter("ignore")
            x, a, layout, true = build_api(case)
            got_layout = lays(x.chunks)
    except EXC as e:
        # building the source is not the property under test here (C03/C17 own it): count, do not fail
        ctx.notes["nan_api_source_refused"] = ctx.notes.get("nan_api_source_refused", 0) + 1
        ctx.notes.setdefault("nan_api_source_refused_example", {"case": case, "error": repr(e)[:200]})
        return True
    if got_layout != layout:
        ctx.notes["nan_api_source_layout_differs"] = ctx.notes.get("nan_api_source_layout_differs", 0) + 1
        ctx.notes.setdefault("nan_api_source_layout_example", {"case": case, "got": got_layout, "expected": layout})
        return True
    spec, exp, changes_unknown, uses_auto = resolve_spec(case, layout)
    kwargs = dict(case.get("kwargs") or {})
    pats = tuple(sorted({pattern_of(l) for l in layout}))
    key = ("nan-api", len(layout), pats, case["form"], changes_unknown, uses_auto, tuple(sorted(kwargs)), case.get("wrap"),
           exp is not None and any(e is not None and e != l for e, l in zip(exp, layout)))
    stage = "rechunk"
    try:
        with warnings.catch_warnings():
            warnings.simplefilter("ignore")
            y = x.rechunk(spec, **kwargs)
            stage = "chunks"
            chunks = lays(y.chunks)
            stage = "transfer_bytes"
            tb_err = None
            try:
                tb = getattr(y.expr, "transfer_bytes", None)
                _ = tuple(tb) if tb is not None and not isinstance(tb, (int, float)) else tb
            except EXC as e:
                tb_err = repr(e)
            stage = "graph"
            graph = dict(y.__dask_graph__())
            keys = list(_flatten(y.__dask_keys__()))
            stage = "compute"
            blocks = dask.get(graph, keys)
            got = y.compute(scheduler="sync")
    except EXC as e:
        ctx.count(key + ("refused",))
        refusal_ok = changes_unknown or uses_auto or kwargs.get("balance")
        if refusal_ok and isinstance(e, (ValueError, NotImplementedError)):
            return True
        if refusal_ok and stage in ("rechunk", "chunks"):
            return True  # any refusal before a graph exists
        ctx.fail("nan:api:raises", dict(case, stage=stage, error=repr(e)[:300], chunks=layout),
                 "x.rechunk(spec) that only changes axes with KNOWN block sizes raises (at " + stage + ") where NumPy is fine")
        return False
    ctx.count(key + ("ok",))
    if tb_err is not None:
        ctx.fail("nan:api:transfer-bytes", dict(case, error=tb_err, chunks=layout), "Rechunk.transfer_bytes raises on a layout with unknown block sizes")
        return False
    if changes_unknown and not kwargs.get("balance"):
        # the call went through although the spec asks for other blocks on an unknown axis: only a spec that happens to
        # describe the existing blocks (e.g. -1 on a single block) may leave the layout as it is
        if any(has_nan(l) and c != l for c, l in zip(chunks, layout)) or len(chunks) != len(layout):
            ctx.fail("nan:api:accepts-changed-unknown-axis", dict(case, chunks=layout, got_chunks=chunks),
                     "x.rechunk(spec) accepts a spec that changes an axis with unknown block sizes")
            return False
    if not kwargs.get("balance") and exp is not None and all(e is not None for e in exp) and not changes_unknown and chunks != exp:
        ctx.fail("nan:api:chunks", dict(case, chunks=layout, got_chunks=chunks, expected=exp),
                 "x.rechunk(spec).chunks is not the requested chunking on the known axes / the unchanged layout on the unknown axes")
        return False
    got = np.asarray(got)
    if got.shape != a.shape or not np.array_equal(got, a):
        ctx.fail("nan:api:values", dict(case, chunks=layout, got_chunks=chunks, got_shape=list(got.shape), want_shape=list(a.shape)),
                 "x.rechunk(spec) on a layout with unknown block sizes changes the values")
        return False
    # every block of the executed graph: advertised known sizes are real; unknown ones are the mask's popcounts
    if not changes_unknown and not kwargs.get("balance"):
        real = [[t if c is None else c for c, t in zip(cl, tl)] if len(cl) == len(tl) else cl for cl, tl in zip(chunks, true)]
        idxs = list(itertools.product(*[range(len(c)) for c in chunks]))
        if len(idxs) == len(blocks):
            for idx, b in zip(idxs, blocks):
                want = tuple(real[ax][i] for ax, i in enumerate(idx))
                if any(w is None for w in want):
                    continue
                if tuple(np.asarray(b).shape) != want:
                    ctx.fail("nan:api:blocks", dict(case, chunks=layout, got_chunks=chunks, block=list(idx), block_shape=list(np.asarray(b).shape), expected=list(want)),
                             "a block of x.rechunk(spec) does not have the advertised (known) / selected (unknown) size")
                    return False
    return True


def _flatten(keys):
    for k in keys:
        if isinstance(k, list):
            yield from _flatten(k)
        else:
            yield k


# --------------------------------------------------------------------------- search

def search(ctx, R):
    import time

    rng = ctx.rng
    t0 = time.time()
    pairs = []
    n = bad = vbad = ebad = 0
    # 1. crosswalk: deterministic sweep over every nan position pattern, then random
    for case in sweep_crosswalk_cases():
        n += 1
        bad += not check_crosswalk_case(ctx, R, case, pairs if n % 4 == 0 else None)
        if bad >= 25:
            break
    for i in range(ctx.scale(1500, 25000)):
        case = rand_crosswalk_case(rng)
        if bad < 40:  # the class is reported with 40 concrete inputs already; the other streams go on
            n += 1
            ok = check_crosswalk_case(ctx, R, case, pairs if i % 3 == 0 else None)
            bad += not ok
        if i % 600 == 0:
            ctx.sample({"case": case})
        # 2. validation: the unchanged request must be accepted, every change of an unknown axis refused
        if i % 3 == 0 and vbad < 20:
            vbad += not check_validate_case(ctx, R, {"kind": "nan-validate", "old": case["old"], "new": case["new"], "expect": "accept", "variant": "valid"})
            unk = [ax for ax, o in enumerate(case["old"]) if has_nan(o)]
            if unk:
                ax = rng.choice(unk)
                for name, v in variants_of_unknown_axis(rng, case["old"][ax]):
                    new = [list(w) for w in case["new"]]
                    new[ax] = v
                    vbad += not check_validate_case(ctx, R, {"kind": "nan-validate", "old": case["old"], "new": new, "expect": "refuse", "variant": name})
        # 3. planner / estimates
        if i % 4 == 0 and ebad < 20:
            ebad += not check_estimate_case(ctx, R, {"kind": "nan-estimate", "old": case["old"], "new": case["new"], "itemsize": rng.choice([1, 4, 8]),
                                         "threshold": rng.choice([None, 1, 4]), "limit": rng.choice([None, 8, 1024])})
    ctx.notes["nan_crosswalk_cases"] = n
    ctx.notes["nan_crosswalk_cases_failing"] = bad
    if pairs:
        ctx.correspond("old_to_new(known axis beside unknown axes)", pairs)
    t1 = time.time()
    # 4. public API: every pattern with a rechunk of the known axes first (deterministic order), then scalar specs, then random
    m = mbad = 0
    api_cases = []
    for p in PATTERNS:
        api_cases.append(rand_api_case(rng, p, second="known", change="known"))
    for p in ("middle", "single", "islands", "ends"):
        api_cases.append(rand_api_case(rng, p, change="known"))
    for p in ("middle", "all", "start"):
        api_cases.append(scalar_api_case(rng, p))
    for p in ("middle", "end", "alternating", "all"):
        api_cases.append(rand_api_case(rng, p, change="unknown"))
    for _ in range(ctx.scale(260, 2500)):
        api_cases.append(rand_api_case(rng))
    budget = ctx.scale(7.0, 90.0)
    for case in api_cases:
        if mbad >= 10 or time.time() - t1 > budget:
            break
        m += 1
        mbad += not check_api_case(ctx, case)
        if m % 40 == 1:
            ctx.sample({"case": case})
    ctx.notes["nan_api_cases"] = m
    ctx.notes["nan_api_cases_failing"] = mbad
    ctx.notes["nan_stream_seconds"] = {"helpers": round(t1 - t0, 2), "api": round(time.time() - t1, 2)}


def replay(ctx, R, case):
    kind = case.get("kind")
    if kind == "nan-crosswalk":
        pairs = []
        check_crosswalk_case(ctx, R, {"kind": kind, "old": case["old"], "new": case["new"]}, pairs)
        if pairs:
            ctx.correspond("old_to_new(known axis beside unknown axes)", pairs)
    elif kind == "nan-validate":
        check_validate_case(ctx, R, {k: case[k] for k in ("kind", "old", "new", "expect", "variant") if k in case})
    elif kind == "nan-estimate":
        check_estimate_case(ctx, R, {k: case[k] for k in ("kind", "old", "new", "itemsize", "threshold", "limit") if k in case})
    elif kind == "nan-api":
        check_api_case(ctx, {k: case[k] for k in ("kind", "axes", "wrap", "form", "spec", "kwargs", "build_order", "stack_tok") if k in case})
    else:
        return False
    return True
