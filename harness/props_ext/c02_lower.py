"""C02 / C17, lowering of elemwise nodes whose operands are chunked differently.

`Elemwise._lower` (dask_array/_blockwise.py) calls `unify_chunks_expr(*self.args)` (dask_array/_expr.py) and
replaces every operand whose chunks differ from its target by `a.rechunk(target)`.
Model: lean/DaskArrayModel/Model/LowerUnify.lean (`unifyTargets`, `lowerZip`, `lowerZipB`, `ExprU` / `lowerAll`);
theorems: Props/C02Lower.lean, Props/C17Lower.lean; driver family `lwu.*` (Drv/LowerUnify.lean).

(1) correspondence, model vs the REAL functions on the same generated inputs
    * `lwu.targets`: 2-3 operands (`x + y`, `np.add(x, y)`, `da.where(c, x, y)`), ranks 0-3, lower-rank operands,
      length-1 and (policy refine only) zero-length axes / zero-width chunks, dtypes of several itemsizes, every
      policy value (`auto`, `coarse`, `refine`, an unknown string, unset) x limits (unset, 0, tiny, medium, a byte
      string, huge): the chunks of every operand after the ONE `_lower()` step and after `lower_completely()`, and
      the chunks of the lowered node.  The float cost pass of policy "auto" is the model's oracle, recovered from
      the real run with the limit disabled (as in harness/props/C17.py).
    * `lwu.lower`: two sources with data, the operand / result chunks and the VALUES computed from the lowered
      real tree against the blocks the model computes after its own lowering.
    * `lwu.tree`: nested programs (elemwise over elemwise, unary maps, transposes, explicit rechunks between).
(2) search on the real API, oracle = NumPy and the raw form (independent of the model):
    raw vs lowered vs NumPy values; after lowering every operand of every aligned elemwise node carries one
    common layout per index (length-1 axes excepted); under policy refine no operand's blocks are merged.
A failure is reported only when one of these oracles fails on the real code.
"""
from __future__ import annotations

import warnings

import numpy as np

from harness import gen
from harness.props import C17

FAM_T = "lwu.targets"
DT_ITEM = {"int16": 2, "int32": 4, "int64": 8, "bool": 1}
BINOPS = {"add": np.add, "sub": np.subtract, "mul": np.multiply, "maximum": np.maximum}
KNOWN_ZERO = "broadcast-axis-zero-width-chunk"


# --------------------------------------------------------------------------- encodings

def f_layout(chunks):
    chunks = [list(c) for c in chunks]
    return "-" if not chunks else "/".join(",".join(str(int(v)) for v in c) if c else "_" for c in chunks)


def f_ints(l):
    l = list(l)
    return "_" if not l else ",".join(str(int(v)) for v in l)


def f_lim(v):
    return "N" if v is None else str(int(v))


def model_policy(policy):
    """`common_blockdim if policy == "refine" else coarse_blockdim`; everything but refine / coarse is cost-aware"""
    return policy if policy in ("refine", "coarse") else "auto"


def config_of(policy, limit):
    cfg = {"array.unify-chunks-limit": limit}
    if policy is not None:
        cfg["array.unify-chunks-policy"] = policy
    return cfg


# --------------------------------------------------------------------------- generators

def rand_layout(rng, n, base, zeros):
    if n == 0:
        return rng.choice([(0,), (0,), (0, 0)]) if zeros else (0,)
    if n == 1 and not zeros:
        return (1,)
    r = rng.random()
    if base is not None and r < 0.3:
        c = C17.coarsen(rng, base)
    elif base is not None and r < 0.45:
        c = tuple(base)
    else:
        c = gen.rand_chunks(rng, n, maxparts=5)
    if zeros and rng.random() < 0.5:
        c = list(c)
        c.insert(rng.randint(0, len(c)), 0)
        c = tuple(c)
    return c


def gen_operands(rng, nops, zeros=False, maxrank=3):
    """operands aligned at the right over common axis lengths `dims[j]` (label j counts from the right)"""
    rank = rng.randint(0 if rng.random() < 0.08 else 1, maxrank)
    dims = [rng.choice([1, 2, 3, 4, 5, 6, 8, 9] + ([0] if zeros else [])) for _ in range(rank)]
    bases = [gen.rand_chunks(rng, d, maxparts=6) if d > 0 else None for d in dims]
    ops = []
    full = rng.randrange(nops)
    for k in range(nops):
        r = rank if k == full else rng.randint(0 if rng.random() < 0.1 else min(1, rank), rank)
        shape, chunks = [], []
        for n in range(r):
            j = r - 1 - n
            d = dims[j] if (k == full or rng.random() < 0.8) else 1
            shape.append(d)
            chunks.append(list(rand_layout(rng, d, bases[j] if d == dims[j] else None, zeros)))
        ops.append({"shape": shape, "chunks": chunks, "dtype": rng.choice(["int16", "int32", "int64"]),
                    "mul": rng.choice([1, 2, 3]), "off": rng.randint(0, 3), "mod": rng.choice([3, 4])})
    return ops


def limits_for(rng, ops):
    sizes = [C17.block_bytes(o["chunks"], DT_ITEM[o["dtype"]]) if o["chunks"] else DT_ITEM[o["dtype"]] for o in ops]
    med = rng.choice(sorted({max(sizes) + 1, max(sizes) * 2, min(sizes) * 2 or 1, max(sizes)}))
    out = [None, rng.choice([rng.randint(1, 8), med, med])]
    if rng.random() < 0.15:
        out.append(rng.choice([0, f"{med} B", 2**40]))
    return out


def np_data(o):
    shape = tuple(o["shape"])
    n = int(np.prod(shape)) if shape else 1
    a = ((np.arange(n, dtype="int64") * o["mul"] + o["off"]) % o["mod"]).reshape(shape)
    return (a % 2 == 0) if o["dtype"] == "bool" else a.astype(o["dtype"])


def f_src(o):
    return "~".join([f_ints(o["shape"]), f_layout(o["chunks"]), str(o["mul"]), str(o["off"]), str(o["mod"])])


# --------------------------------------------------------------------------- the real side

def compute_expr(e):
    import dask
    from dask_array._new_collection import new_collection

    with warnings.catch_warnings():
        warnings.simplefilter("ignore")
        with dask.config.set({"array.optimize-graph": False}):
            return np.asarray(new_collection(e).compute(scheduler="sync"))


def oracle_pre(node, rank):
    """layouts in force before the size guard, by label 0..rank-1 (the model's oracle under policy auto)"""
    import dask
    from dask_array._expr import unify_chunks_expr

    with dask.config.set({"array.unify-chunks-limit": None}):
        pre, _, _ = unify_chunks_expr(*node.args, warn=False)
    return [pre.get(j, ()) for j in range(rank)]


def operand_chunks(node):
    return [tuple(tuple(int(v) for v in c) for c in a.chunks) for a in node.elemwise_args]


def fmt_targets(node):
    return "ok " + " ".join(f_layout(c) for c in operand_chunks(node)) + " out=" + f_layout(node.chunks)


def build_elemwise(da, form, das, nps):
    if form == "where":
        return da.where(das[0], das[1], das[2]), np.where(nps[0], nps[1], nps[2])
    if form == "ufunc":
        return np.add(das[0], das[1]), np.add(nps[0], nps[1])
    return BINOPS[form](das[0], das[1]), BINOPS[form](nps[0], nps[1])


def check_aligned(ctx, low, policy, raw_pairs, case):
    """C17's clause on the lowered tree (model-independent)"""
    from dask_array._blockwise import Elemwise

    for node in low.walk():
        if not isinstance(node, Elemwise):
            continue
        seen = {}
        for a, ind in C17.array_pairs(node):
            for n, j in enumerate(ind):
                if a.shape[n] == 1:
                    continue
                c = tuple(int(v) for v in a.chunks[n])
                if seen.setdefault(j, c) != c:
                    ctx.fail("lower-unify:operands-misaligned", dict(case, index=int(j), layouts=[list(seen[j]), list(c)]),
                             "after lowering two operands of an elemwise node carry different layouts on one index")
                    return
    if raw_pairs is not None and any(tuple(getattr(b, "shape", ())) != tuple(a.shape) for a, b in zip(raw_pairs, low.elemwise_args)):
        return  # operands no longer correspond by position: the per-operand clause does not apply (values are compared by the caller)
    if policy == "refine" and raw_pairs is not None:
        for a, b in zip(raw_pairs, low.elemwise_args):
            for n in range(len(a.shape)):
                if a.shape[n] > 1 and not C17.bset(a.chunks[n]) <= C17.bset(b.chunks[n]):
                    ctx.fail("lower-unify:refine-merges", dict(case, before=list(map(int, a.chunks[n])), after=list(map(int, b.chunks[n]))),
                             "policy refine: lowering merged blocks of an operand")
                    return


def eval_point(ctx, case, with_values):
    """one (operands, form, policy, limit) point from clean state -> correspondence pairs"""
    import dask
    import dask_array as da
    from dask_array._blockwise import Elemwise

    ops, form, policy, limit = case["operands"], case["form"], case["policy"], case["limit"]
    limit_bytes = C17.parse_limit(limit)
    zeros = case.get("zeros", False)
    C17.clear_state()
    pairs = []
    with dask.config.set(config_of(policy, limit)), warnings.catch_warnings():
        warnings.simplefilter("ignore")
        nps = [np_data(o) for o in ops]
        das = [da.from_array(a, chunks=tuple(tuple(c) for c in o["chunks"])) for a, o in zip(nps, ops)]
        rank = max(len(o["shape"]) for o in ops)
        head = None
        try:
            z, want = build_elemwise(da, form, das, nps)
            node = z.expr
            if not isinstance(node, Elemwise):
                return pairs
            pre = oracle_pre(node, rank)
            head = " ".join([model_policy(policy), f_lim(limit_bytes), f_layout(pre)])
            raw_pairs = list(node.elemwise_args)
            one = node._lower()
            impl_one = fmt_targets(one if one is not None else node)
            low = node.lower_completely()
            impl_low = fmt_targets(low) if isinstance(low, Elemwise) else None
        except Exception as e:  # noqa: BLE001
            if head is None:
                # construction itself raised (chunks are computed eagerly): the model must refuse as well; the
                # oracle is irrelevant on that path
                head = " ".join([model_policy(policy), f_lim(limit_bytes), "-"])
            req = " ".join([FAM_T, head, f_ints(DT_ITEM[o["dtype"]] for o in ops)] + [f_layout(o["chunks"]) for o in ops])
            pairs.append((req, "err " + type(e).__name__))
            ctx.count(("targets-raises", type(e).__name__, zeros))
            if not zeros:
                ctx.fail(f"lower-unify:raises:{type(e).__name__}", dict(case, error=repr(e)[:200]),
                         "building / lowering an elemwise over broadcastable operands with positive chunks raises")
            return pairs
        req = " ".join([FAM_T, head, f_ints(DT_ITEM[o["dtype"]] for o in ops)] + [f_layout(o["chunks"]) for o in ops])
        pairs.append((req, impl_one))
        if impl_low is not None:
            pairs.append((req, impl_low))
        ctx.count(("targets", form, len(ops), model_policy(policy), limit is None, one is not None,
                   len({len(o["shape"]) for o in ops}) > 1, any(1 in o["shape"] for o in ops), zeros))
        if zeros:
            return pairs  # zero-width chunks: layouts only (value defects of that family are known findings of C01/C02)
        # ---- search: NumPy / raw form as oracle
        check_aligned(ctx, low, model_policy(policy), raw_pairs if isinstance(low, Elemwise) else None, case)
        try:
            v_raw = compute_expr(node)
            v_low = compute_expr(low)
        except Exception as e:  # noqa: BLE001
            ctx.fail(f"lower-unify:compute-raises:{type(e).__name__}", dict(case, error=repr(e)[:200]), "raw or lowered form raises when computed")
            return pairs
        if v_low.shape != want.shape or not np.array_equal(v_low, want) or v_raw.shape != want.shape or not np.array_equal(v_raw, v_low):
            ctx.fail("lower-unify:values-differ", dict(case, got_shape=list(v_low.shape), want_shape=list(want.shape)),
                     "the lowered elemwise (operands rechunked to the unified layout) computes different values than the raw form / NumPy")
            return pairs
        if with_values and form in BINOPS and isinstance(low, Elemwise) and want.size <= 400:
            ia, ib = (DT_ITEM[o["dtype"]] for o in ops)
            ca, cb = operand_chunks(low)
            same = tuple(ops[0]["shape"]) == tuple(ops[1]["shape"])
            reqv = " ".join(["lwu.lower", head, str(ia), str(ib), form, f_src(ops[0]), f_src(ops[1])])
            impl = (f"ok wf=1 a={f_layout(ca)} b={f_layout(cb)} out={f_layout(low.chunks)} eq=1 zip={'1' if same else 'N'} "
                    f"{f_ints(v_low.shape)} {f_ints(v_low.ravel().tolist())}")
            pairs.append((reqv, impl))
    return pairs


# --------------------------------------------------------------------------- nested programs

def gen_tree(rng):
    """a small program over `src`, `zipu`, `map neg`, `transpose`, `rechunk` (steps as dicts); every new operand
    broadcasts against the current result (its shape = trailing axes of the current shape, some of length 1)"""
    steps = []

    def src(shape):
        steps.append({"op": "src", "shape": list(shape), "chunks": [list(rand_layout(rng, d, None, False)) for d in shape],
                      "dtype": rng.choice(["int16", "int32", "int64"]), "mul": rng.choice([1, 2, 3]), "off": rng.randint(0, 3), "mod": 3})
        return len(steps) - 1

    def operand_for(shape):
        r = rng.randint(1, len(shape)) if shape else 0
        return [d if rng.random() < 0.85 else 1 for d in shape[len(shape) - r:]]

    rank = rng.randint(1, 3)
    shape = [rng.choice([1, 2, 3, 4, 5]) for _ in range(rank)]
    cur = src(shape)
    for _ in range(rng.randint(1, 3)):
        r = rng.random()
        if r < 0.6:
            osh = operand_for(shape)
            other = src(osh)
            a, b = (cur, other) if rng.random() < 0.6 else (other, cur)
            steps.append({"op": "zipu", "fn": rng.choice(list(BINOPS)), "a": a, "b": b})
            shape = list(np.broadcast_shapes(tuple(shape), tuple(osh)))
        elif r < 0.75:
            steps.append({"op": "map", "fn": "neg", "k": cur})
        elif r < 0.9 and rank >= 2:
            # transpose, then combine with an operand in the transposed orientation: labels change under the node
            perm = list(range(rank))
            rng.shuffle(perm)
            steps.append({"op": "transpose", "k": cur, "perm": perm})
            shape = [shape[p] for p in perm]
            t = len(steps) - 1
            osh = operand_for(shape)
            other = src(osh)
            steps.append({"op": "zipu", "fn": rng.choice(list(BINOPS)), "a": t, "b": other})
            shape = list(np.broadcast_shapes(tuple(shape), tuple(osh)))
        else:
            steps.append({"op": "rechunk", "k": cur, "chunks": None})
        cur = len(steps) - 1
    return steps


def eval_tree(ctx, steps, policy, limit):
    import dask
    import dask_array as da
    from dask_array._expr import unify_chunks_expr

    C17.clear_state()
    limit_bytes = C17.parse_limit(limit)
    case = {"tree": steps, "policy": policy, "limit": limit}
    toks, das, nps = [], [], []
    rng_chunks = ctx.rng
    with dask.config.set(config_of(policy, limit)), warnings.catch_warnings():
        warnings.simplefilter("ignore")
        try:
            for st in steps:
                if st["op"] == "src":
                    a = np_data(st)
                    nps.append(a)
                    das.append(da.from_array(a, chunks=tuple(tuple(c) for c in st["chunks"])))
                    toks.append("src~" + f_src(st))
                elif st["op"] == "zipu":
                    x, y = das[st["a"]], das[st["b"]]
                    z = BINOPS[st["fn"]](x, y)
                    rank = max(x.ndim, y.ndim)
                    pre = oracle_pre(z.expr, rank)
                    nps.append(BINOPS[st["fn"]](nps[st["a"]], nps[st["b"]]))
                    das.append(z)
                    toks.append("~".join(["zipu", st["fn"], str(x.dtype.itemsize), str(y.dtype.itemsize), f_layout(pre), str(st["a"]), str(st["b"])]))
                elif st["op"] == "map":
                    das.append(-das[st["k"]])
                    nps.append(-nps[st["k"]])
                    toks.append(f"map~neg~{st['k']}")
                elif st["op"] == "transpose":
                    das.append(das[st["k"]].transpose(st["perm"]))
                    nps.append(nps[st["k"]].transpose(st["perm"]))
                    toks.append(f"transpose~{st['k']}~{f_ints(st['perm'])}")
                elif st["op"] == "rechunk":
                    x = das[st["k"]]
                    if st["chunks"] is None:
                        st["chunks"] = [list(rand_layout(rng_chunks, d, None, False)) for d in x.shape]
                    das.append(x.rechunk(tuple(tuple(c) for c in st["chunks"])))
                    nps.append(nps[st["k"]])
                    toks.append(f"rechunk~{st['k']}~{f_layout(st['chunks'])}")
            z, want = das[-1], nps[-1]
            raw = z.expr
            low = raw.lower_completely()
            v_raw, v_low = compute_expr(raw), compute_expr(low)
        except Exception as e:  # noqa: BLE001
            ctx.fail(f"lower-unify:tree-raises:{type(e).__name__}", dict(case, error=repr(e)[:200]), "building / lowering / computing a nested elemwise program raises")
            return []
    ctx.count(("tree", tuple(s["op"] for s in steps), model_policy(policy), limit is None))
    check_aligned(ctx, low, model_policy(policy), None, case)
    if v_low.shape != want.shape or not np.array_equal(v_low, want) or not np.array_equal(v_raw, v_low):
        ctx.fail("lower-unify:values-differ", dict(case, got_shape=list(v_low.shape), want_shape=list(want.shape)),
                 "a lowered nested elemwise program computes different values than the raw form / NumPy")
        return []
    req = " ".join(["lwu.tree", model_policy(policy), f_lim(limit_bytes), ";".join(toks)])
    impl = f"ok wf=1 chunks={f_layout(low.chunks)} eq=1 den=1 {f_ints(v_low.shape)} {f_ints(v_low.ravel().tolist())}"
    return [(req, impl)]


# --------------------------------------------------------------------------- run

POLICIES = ("auto", "coarse", "refine", "refine", None, "finest")


def branch_key(req, model):
    t = req.split()
    return (t[0], t[1], t[2] == "N", model.split(" ")[0:2][-1][:12] if model.startswith("err") else "ok", len(req) // 24)


def replay_case(ctx, case):
    if "tree" in case:
        ctx.correspond("lwu.tree", eval_tree(ctx, case["tree"], case["policy"], case["limit"]), branch_key)
    else:
        ctx.correspond(FAM_T, eval_point(ctx, {k: v for k, v in case.items() if k in ("operands", "form", "policy", "limit", "zeros")}, True), branch_key)


def run(ctx, replay=None):
    if replay is not None:
        return replay_case(ctx, replay["case"])
    probe = ctx.driver.run(["lwu.targets refine N - 8,8 2,1 1,2"])
    if probe and probe[0] == "bad-op":
        ctx.notes["lwu_driver"] = "not available in this build"
        return
    rng = ctx.rng
    npts = ctx.scale(400, 4000)
    ntree = ctx.scale(200, 2000)
    pairs_t, pairs_v = [], []
    for i in range(npts):
        form = rng.choice(["add", "sub", "mul", "maximum", "ufunc", "where", "where"])
        nops = 3 if form == "where" else 2
        policy = POLICIES[i % len(POLICIES)]
        zeros = policy == "refine" and rng.random() < 0.35
        ops = gen_operands(rng, nops, zeros=zeros)
        if form == "where":
            ops[0]["dtype"] = "bool"
        for limit in limits_for(rng, ops):
            case = {"operands": ops, "form": form, "policy": policy, "limit": limit, "zeros": zeros}
            got = eval_point(ctx, case, with_values=(form in BINOPS))
            for req, impl in got:
                (pairs_v if req.startswith("lwu.lower") else pairs_t).append((req, impl))
        if i < 2:
            ctx.sample({"lower-unify": {"operands": ops, "form": form, "policy": policy}})
    pairs_tree = []
    for i in range(ntree):
        steps = gen_tree(rng)
        policy = POLICIES[i % len(POLICIES)]
        limit = rng.choice([None, None, rng.randint(1, 64)])
        pairs_tree += eval_tree(ctx, steps, policy, limit)
    ctx.correspond(FAM_T, pairs_t, branch_key)
    ctx.correspond("lwu.lower", pairs_v, branch_key)
    ctx.correspond("lwu.tree", pairs_tree, branch_key)
    ctx.notes["lwu.points"] = npts
    ctx.notes["lwu.trees"] = ntree
    ctx.assumptions.append(
        "elemwise lowering (Props/C02Lower, C17Lower): known chunk sizes; array operands only (no scalars / where= / out=); "
        "the float cost pass of policy 'auto' enters the model as an oracle recovered from the real run with the limit disabled; "
        "zero-width chunks only in the layout correspondence under policy refine"
    )
