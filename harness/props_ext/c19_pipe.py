"""C19: the map_overlap pipeline computes the global stencil (dask_array/_overlap.py).

`overlap` = rechunk → `boundaries` → `overlap_internal` → `chunk.trim`; `map_overlap` = `overlap` → `map_blocks(func)` →
`trim_internal`.  Model: lean/DaskArrayModel/Model/OverlapPipe.lean (`boundaryBlocks`, `overlapInternal`, `chunkTrim`,
`trimInternal`, `pipeline`, per-axis index map `axisSrc` and its product `pipelineND`); driver family `ovp.*`
(Drv/OverlapPipe.lean); theorems Props/C19Overlap.lean (`C19o_pipeline_eq_global`: the pipeline is `g ∘ padB`, the global
meaning used by the slice rule of C02).

(1) correspondence, every function evaluated REWRITE-FREE (`lower_completely()` + the synchronous scheduler, block by
    block; no simplify) on position-encoding integer arrays, so the source of every element of every block is read
    off its value:
      `ovp.boundaries`  the real `boundaries` (1-d, every kind, constant fills, depth 0);
      `ovp.internal`    the real `overlap_internal` (scalar and `(l, r)` depth, one-sided depths, chunks below / at /
                        just above the depth — below the depth the real `slice(-d, None)` silently takes the whole
                        neighbour and the advertised chunks are wrong: the model does the same) incl. `.chunks`;
      `ovp.rechunk`     `_get_overlap_rechunked_chunks` (the guard `overlap` establishes);
      `ovp.overlap`     the real `overlap` on the chunks it rechunks to;
      `ovp.trim`        the real `trim_internal` incl. `.chunks` (what `_trim` cuts from which side of which block);
      `ovp.pipeline`    the lowered `da.map_overlap(wsum, …)` with and without `trim`, block by block;
      `ovp.src`         the per-axis index map against the values of the real 1-d `overlap` blocks;
      `ovp.ndblock`     2-d / 3-d `overlap` (and `trim_internal` of it) on mixed kinds / depths per axis: every block
                        against the PRODUCT of the per-axis index maps (corner neighbours, fill precedence).
(2) search, oracle = NumPy (`np.pad` per axis in axis order, then the kernel over the valid region; for `trim=False`
    the kernel applied to each extended region), independent of the model: `da.map_overlap` and
    `da.overlap.overlap` + `map_blocks` + `da.overlap.trim_overlap`, optimized (`compute()`) and rewrite-free, depth as
    scalar / tuple / dict / `(l, r)`, boundary as string / number / tuple / dict, depth-0 axes, chunks below / at / above
    the depth (incl. asymmetric depths with chunks BETWEEN the two depths, where only the guard on the larger depth
    helps), kernels: separable edge-replicating weighted moving sum and a NON-separable box kernel (reads the corner
    neighbours).  Case kind "ovpipe" (replay: `check(ctx, case)`); signatures `ovpipe:<entry>:<raw|optimized>:differs-from-numpy`,
    `ovpipe:<entry>:<how>:raises:<Exc>`, `ovpipe:<entry>:chunks-do-not-cover-shape`.
"""
from __future__ import annotations

import warnings

import numpy as np

from harness.core import err_name, f_list

KINDS = ("none", "periodic", "reflect", "nearest", "constant")
NP_MODE = {"periodic": "wrap", "reflect": "symmetric", "nearest": "edge", "none": "edge", "constant": "constant"}
FILL = -7  # constant fill used with position-encoding arrays (positions are >= 0)


# --------------------------------------------------------------------------- helpers

def f_ll(blocks):
    blocks = [list(b) for b in blocks]
    if not blocks:
        return "-"
    return ";".join(f_list(int(v) for v in b) for b in blocks)


def raw_blocks(expr):
    """(nested list of computed blocks, lowered expression) of exactly this expression — no simplify"""
    import dask
    from dask._expr import Expr

    with warnings.catch_warnings():
        warnings.simplefilter("ignore")
        low = expr.lower_completely()
        dsk = Expr.__dask_graph__(low)
        return dask.get(dsk, low.__dask_keys__()), low


def flat_blocks(nested, ndim):
    out = []

    def rec(b, ax):
        if ax == ndim:
            out.append(np.asarray(b))
        else:
            for c in b:
                rec(c, ax + 1)

    rec(nested, 0)
    return out


def chunks_with(rng, n, least, style):
    """chunkings of an axis of length n relative to `least` (the depth)"""
    least = max(1, least)
    if style == "single" or n <= least:
        return (n,)
    if style == "small":  # some chunk below the depth
        sizes = [1, 1, 2, max(1, least - 1), least, least + 1]
    elif style == "at":  # at / just above the depth
        sizes = [least, least, least + 1, least + 2]
    else:
        sizes = [least, least + 1, least + 3, 2 * least + 1, 7]
    out, left = [], n
    while left > 0:
        c = min(rng.choice(sizes), left)
        out.append(c)
        left -= c
    if style != "small" and len(out) > 1 and out[-1] < least:
        last = out.pop()
        out[-1] += last
    return tuple(out)


def gen_axis(rng, kinds=KINDS, maxd=4, nmax=22):
    kind = rng.choice(kinds)
    if kind == "none" and rng.random() < 0.6:
        dl, dr = rng.randint(0, maxd), rng.randint(0, maxd)
    else:
        dl = dr = rng.randint(0 if rng.random() < 0.08 else 1, maxd)
    n = rng.randint(max(1, dl, dr), nmax)
    return kind, dl, dr, n


def depth_arg(dl, dr):
    return dl if dl == dr else (dl, dr)


def bval(kind):
    return FILL if kind == "constant" else kind


def cut(x, cs):
    out, p = [], 0
    for c in cs:
        out.append(x[p:p + c])
        p += c
    return out


# --------------------------------------------------------------------------- (1) correspondence, one axis

def correspond_1d(ctx):
    import dask_array as da
    from dask_array import _overlap as O

    rng = ctx.rng
    P = {k: [] for k in ("ovp.boundaries", "ovp.internal", "ovp.rechunk", "ovp.overlap", "ovp.trim", "ovp.pipeline", "ovp.src")}
    from harness.props_ext.c02_overlap import wsum_fn

    def guarded(fn):
        try:
            with warnings.catch_warnings():
                warnings.simplefilter("ignore")
                return fn()
        except Exception as e:  # noqa: BLE001
            return err_name(e)

    for _ in range(ctx.scale(70, 600)):
        kind, dl, dr, n = gen_axis(rng)
        d = max(dl, dr)
        base = rng.choice([0, 100])
        x = np.arange(base, base + n, dtype=np.int64)
        style = rng.choice(["single", "small", "at", "at", "above", "above"])
        cs = chunks_with(rng, n, d, style)
        X = da.from_array(x, chunks=(cs,))
        blks = cut(x, cs)

        # boundaries (symmetric depth only: a tuple depth is a TypeError in `periodic` etc.)
        if dl == dr:
            def f_b():
                nested, _ = raw_blocks(O.boundaries(X, {0: dl}, {0: bval(kind)}).expr)
                return "ok " + f_ll(flat_blocks(nested, 1))
            P["ovp.boundaries"].append((f"ovp.boundaries {kind} {dl} {dr} {FILL} {f_ll(blks)}", guarded(f_b)))

        # overlap_internal on ANY chunking (also below the depth)
        def f_i():
            oi = O.overlap_internal(X, {0: depth_arg(dl, dr)})
            nested, _ = raw_blocks(oi.expr)
            return "ok " + f_ll(flat_blocks(nested, 1)) + " " + f_list(oi.chunks[0])
        P["ovp.internal"].append((f"ovp.internal {dl} {dr} {f_ll(blks)}", guarded(f_i)))

        # the guard
        def f_r():
            return "ok " + f_list(O._get_overlap_rechunked_chunks(X, {0: depth_arg(dl, dr)}, {0: bval(kind)})[0])
        r = guarded(f_r)
        P["ovp.rechunk"].append((f"ovp.rechunk {kind} {dl} {dr} {f_list(cs)}", r))
        if not r.startswith("ok") or (dl != dr and kind != "none"):
            continue
        cs2 = tuple(int(t) for t in r[3:].split(","))
        blks2 = cut(x, cs2)

        # overlap (rechunk included) on the chunks it rechunks to
        def f_o():
            nested, _ = raw_blocks(O.overlap(X, {0: depth_arg(dl, dr)}, {0: bval(kind)}).expr)
            return "ok " + f_ll(flat_blocks(nested, 1))
        ov = guarded(f_o)
        P["ovp.overlap"].append((f"ovp.overlap {kind} {dl} {dr} {FILL} {f_ll(blks2)}", ov))

        # the index map, read off the values
        if ov.startswith("ok") and ov != "ok -":
            for k, blk in enumerate(ov[3:].split(";")):
                vals = [] if blk == "_" else [int(t) for t in blk.split(",")]
                toks = ["f" if v == FILL else f"i{v - base}" for v in vals]
                P["ovp.src"].append((f"ovp.src {kind} {dl} {dr} {FILL} {f_list(cs2)} {k}", "ok " + (",".join(toks) if toks else "_")))

        # trim_internal on an array whose blocks are the overlap blocks
        def f_t():
            o = O.overlap(X, {0: depth_arg(dl, dr)}, {0: bval(kind)})
            t = O.trim_internal(o, {0: depth_arg(dl, dr)}, {0: bval(kind)})
            nested, _ = raw_blocks(t.expr)
            return "ok " + f_ll(flat_blocks(nested, 1)) + " " + f_list(t.chunks[0])
        if ov.startswith("ok"):
            P["ovp.trim"].append((f"ovp.trim {kind} {dl} {dr} {ov[3:]}", guarded(f_t)))

        # the whole pipeline with the halo-reading kernel, with and without trim
        vals = [rng.randint(-9, 9) for _ in range(n)]
        V = da.from_array(np.array(vals, dtype=np.int64), chunks=(cs,))
        for trim in (1, 0):
            def f_p():
                y = da.map_overlap(wsum_fn([(dl, dr)]), V, depth={0: depth_arg(dl, dr)}, boundary={0: (3 if kind == "constant" else kind)},
                                   trim=bool(trim), dtype="int64")
                nested, _ = raw_blocks(y.expr)
                return "ok " + f_ll(flat_blocks(nested, 1))
            if dl == 0 and dr == 0:
                continue  # map_overlap escapes to map_blocks; nothing of the pipeline runs
            P["ovp.pipeline"].append((f"ovp.pipeline {kind} {dl} {dr} 3 {trim} {f_list(cs2)} {f_list(vals)}", guarded(f_p)))

    def bkey(req, model):
        t = req.split()
        return (t[0], t[1] if t[1] in KINDS else "-", model.count(";") > 0, model[:6])

    return P, bkey


# --------------------------------------------------------------------------- (1b) correspondence, n-D blocks

def correspond_nd(ctx):
    import itertools

    import dask_array as da
    from dask_array import _overlap as O

    rng = ctx.rng
    pairs = []
    for _ in range(ctx.scale(24, 250)):
        nd = rng.choice([2, 2, 2, 3])
        axes = [gen_axis(rng, maxd=3 if nd == 2 else 2, nmax=12 if nd == 2 else 7) for _ in range(nd)]
        if rng.random() < 0.2:
            k = rng.randrange(nd)
            axes[k] = ("none", 0, 0, axes[k][3])
        shape = tuple(a[3] for a in axes)
        consts = [-(7 + 10 * k) for k in range(nd)]  # a different fill per axis: corner precedence is visible
        A = np.arange(int(np.prod(shape)), dtype=np.int64).reshape(shape)
        css = [chunks_with(rng, a[3], max(a[1], a[2]), rng.choice(["single", "at", "at", "above"])) for a in axes]
        X = da.from_array(A, chunks=tuple(css))
        depth = {k: depth_arg(a[1], a[2]) for k, a in enumerate(axes)}
        boundary = {k: (consts[k] if a[0] == "constant" else a[0]) for k, a in enumerate(axes)}
        try:
            with warnings.catch_warnings():
                warnings.simplefilter("ignore")
                css2 = O._get_overlap_rechunked_chunks(X, depth, boundary)
                o = O.overlap(X, depth, boundary)
                nested_o, _ = raw_blocks(o.expr)
                t = O.trim_internal(o, depth, boundary)
                nested_t, _ = raw_blocks(t.expr)
        except Exception:  # noqa: BLE001
            ctx.count(("nd", "raises"))
            continue
        for trim, nested in ((0, nested_o), (1, nested_t)):
            blocks = flat_blocks(nested, nd)
            ids = list(itertools.product(*[range(len(c)) for c in css2]))
            if len(blocks) != len(ids):
                pairs.append((f"ovp.ndblock {','.join(a[0] for a in axes)} {','.join(f'{a[1]}.{a[2]}' for a in axes)} {f_list(consts)} "
                              f"{';'.join(f_list(c) for c in css2)} {f_list(ids[0])} {trim}", f"block-count {len(blocks)}"))
                continue
            picks = ids if len(ids) <= 6 else [ids[0], ids[-1]] + rng.sample(ids, 4)
            for K in picks:
                blk = blocks[ids.index(K)]
                req = (f"ovp.ndblock {','.join(a[0] for a in axes)} {','.join(f'{a[1]}.{a[2]}' for a in axes)} {f_list(consts)} "
                       f"{';'.join(f_list(c) for c in css2)} {f_list(K)} {trim}")
                pairs.append((req, "ok " + f_list(blk.shape) + " " + f_list(int(v) for v in blk.ravel())))

    def bkey(req, model):
        t = req.split()
        return ("nd", t[1], t[6], model[:8])

    return pairs, bkey


def correspond(ctx):
    """one driver call for all `ovp.*` requests"""
    P, key1 = correspond_1d(ctx)
    nd_pairs, keyn = correspond_nd(ctx)
    pairs = [p for v in P.values() for p in v] + nd_pairs

    def bkey(req, model):
        return keyn(req, model) if req.startswith("ovp.ndblock") else key1(req, model)

    ctx.correspond("ovp", pairs, branch_key=bkey)
    info = {k: len(v) for k, v in P.items()}
    info["ovp.ndblock"] = len(nd_pairs)
    return {"correspondence": info}


# --------------------------------------------------------------------------- (2) search

def box_kernel_fn(axes_d):
    """NON-separable: sum over the whole box of (1 + Σ_a 3^a · t_a) · value, edge-replicated (reads corner neighbours)"""
    import itertools

    def box(b):
        if b.size == 0:
            return b
        pw = [(l, r) for (l, r) in axes_d]
        p = np.pad(b, pw, mode="edge")
        out = np.zeros(b.shape, dtype=np.int64)
        for ts in itertools.product(*[range(l + r + 1) for (l, r) in axes_d]):
            w = 1 + sum((3 ** a) * t for a, t in enumerate(ts)) + (ts[0] * ts[-1])
            sl = tuple(slice(t, t + n) for t, n in zip(ts, b.shape))
            out = out + w * p[sl]
        return out

    return box


def np_pad_all(a, axes_d, axes_b, edge_none):
    p = a
    for k, ((l, r), b) in enumerate(zip(axes_d, axes_b)):
        if not (l or r):
            continue
        kind = b if isinstance(b, str) else "constant"
        if kind == "none" and not edge_none:
            continue
        pw = [(0, 0)] * a.ndim
        pw[k] = (l, r)
        kw = {"constant_values": b} if kind == "constant" else {}
        p = np.pad(p, pw, mode=NP_MODE[kind], **kw)
    return p


def oracle_trim(a, axes_d, axes_b, kernel):
    """definition: extend every overlap axis by its kind (kind none: the kernel's own edge replication), apply the kernel
    with edge replication to the EXTENDED array and keep the region of the original array"""
    p = np_pad_all(a, axes_d, axes_b, edge_none=True)
    q = kernel(p)
    sl = tuple(slice(l, l + n) if (l or r) else slice(None) for (l, r), n in zip(axes_d, a.shape))
    return q[sl]


def oracle_notrim(a, axes_d, axes_b, kernel, chunks):
    """`trim=False`: the kernel applied to every extended region (clipped at the array edges for kind none)"""
    import itertools

    p = np_pad_all(a, axes_d, axes_b, edge_none=False)
    per_axis = []
    for (l, r), b, cs in zip(axes_d, axes_b, chunks):
        padded = (l or r) and not (isinstance(b, str) and b == "none")
        off = l if padded else 0
        total = sum(cs) + ((l + r) if padded else 0)
        regs, s = [], 0
        for c in cs:
            regs.append((max(0, s + off - l), min(total, s + off + c + r)))
            s += c
        per_axis.append(regs)
    rows = None

    def rec(ax, sel):
        if ax == a.ndim:
            return kernel(p[tuple(slice(u, v) for u, v in sel)])
        return np.concatenate([rec(ax + 1, sel + [reg]) for reg in per_axis[ax]], axis=ax)

    return rec(0, [])


def spell(rng, axes_d, axes_b):
    """depth / boundary argument spellings that mean the same per-axis values"""
    nd = len(axes_d)
    sym = all(l == r for l, r in axes_d)
    forms = ["dict"]
    if sym:
        forms.append("tuple")
        if len({l for l, _ in axes_d}) == 1:
            forms.append("scalar")
    f = rng.choice(forms)
    if f == "scalar":
        depth = axes_d[0][0]
    elif f == "tuple":
        depth = tuple(l for l, _ in axes_d)
    else:
        depth = {k: (l if l == r else (l, r)) for k, (l, r) in enumerate(axes_d) if (l or r) or rng.random() < 0.5}
    forms = ["dict", "tuple"]
    if len({str(b) for b in axes_b}) == 1:
        forms.append("scalar")
    g = rng.choice(forms)
    if g == "scalar":
        boundary = axes_b[0]
    elif g == "tuple":
        boundary = tuple(axes_b)
    else:
        boundary = {k: b for k, b in enumerate(axes_b) if b != "none" or rng.random() < 0.5}
    return depth, boundary, f + "/" + g


def gen_case(rng):
    nd = rng.choice([1, 1, 2, 2, 2, 3])
    axes_d, axes_b, shape, chunks = [], [], [], []
    for k in range(nd):
        kind, dl, dr, n = gen_axis(rng, maxd=3 if nd < 3 else 2, nmax=18 if nd == 1 else 10 if nd == 2 else 6)
        if nd > 1 and rng.random() < 0.2:
            kind, dl, dr = "none", 0, 0
        axes_d.append([dl, dr])
        axes_b.append(rng.choice([0, 3, -7]) if kind == "constant" else kind)
        shape.append(n)
        chunks.append(list(chunks_with(rng, n, max(dl, dr), rng.choice(["single", "small", "at", "at", "above"]))))
    if rng.random() < 0.25:
        # asymmetric depth under boundary none with chunks BETWEEN the two depths (only the larger depth's guard helps)
        lo_d, hi_d = sorted([rng.randint(0, 2), rng.randint(2, 4)])
        if lo_d == hi_d:
            hi_d += 1
        dl, dr = (lo_d, hi_d) if rng.random() < 0.5 else (hi_d, lo_d)
        n = rng.randint(hi_d + 2, 16)
        cs, left = [], n
        while left > 0:
            c = min(rng.randint(max(1, lo_d), hi_d), left)
            cs.append(c)
            left -= c
        axes_d[0], axes_b[0], shape[0], chunks[0] = [dl, dr], "none", n, cs
    if all(l == 0 and r == 0 for l, r in axes_d):
        axes_d[0] = [1, 1]
        shape[0] = max(shape[0], 2)
        chunks[0] = [shape[0]]
    entry = rng.choice(["map_overlap", "map_overlap", "map_overlap", "overlap+trim", "notrim"])
    kern = rng.choice(["wsum", "wsum", "box", "box"])
    return {"kind": "ovpipe", "shape": shape, "chunks": chunks, "depth": axes_d, "boundary": axes_b, "entry": entry, "kern": kern,
            "spell": rng.randrange(10**6)}


def data_of(shape):
    n = int(np.prod(shape))
    k = np.arange(n, dtype=np.int64)
    return ((k * k * 29 + k * 13 + 3) % 199 - 90).reshape(shape)


def check(ctx, case):
    import random

    import dask_array as da
    from dask_array import _overlap as O

    from harness.props_ext.c02_overlap import wsum_fn
    from harness.props_ext.rawfree import raw_eval

    shape = tuple(case["shape"])
    axes_d = [tuple(d) for d in case["depth"]]
    axes_b = list(case["boundary"])
    a = data_of(shape)
    kernel = wsum_fn(axes_d) if case["kern"] == "wsum" else box_kernel_fn(axes_d)
    depth, boundary, form = spell(random.Random(case["spell"]), axes_d, axes_b)
    entry = case["entry"]
    kinds = "+".join(sorted({b if isinstance(b, str) else "constant" for (l, r), b in zip(axes_d, axes_b) if l or r}))
    asym = any(l != r for l, r in axes_d)
    small = any(min(c) < max(d) for c, d in zip(case["chunks"], axes_d))

    def build():
        x = da.from_array(a, chunks=tuple(tuple(c) for c in case["chunks"]))
        if entry == "map_overlap":
            return da.map_overlap(kernel, x, depth=depth, boundary=boundary, dtype="int64")
        o = O.overlap(x, depth=depth, boundary=boundary)
        y = o.map_blocks(kernel, dtype="int64")
        if entry == "overlap+trim":
            return O.trim_overlap(y, depth, boundary)
        return y  # "notrim": what map_overlap(trim=False) is defined to be

    with warnings.catch_warnings():
        warnings.simplefilter("ignore")
        try:
            y = build()
            if entry == "notrim":
                x = da.from_array(a, chunks=tuple(tuple(c) for c in case["chunks"]))
                full_d = {k: (l if l == r else (l, r)) for k, (l, r) in enumerate(axes_d)}
                full_b = {k: b for k, b in enumerate(axes_b)}
                layout = O._get_overlap_rechunked_chunks(x, full_d, full_b)
                want = oracle_notrim(a, axes_d, axes_b, kernel, layout)
            else:
                want = oracle_trim(a, axes_d, axes_b, kernel)
        except Exception as e:  # noqa: BLE001  (a refusal at construction: not wrong data)
            ctx.count(("ovpipe", entry, kinds, "refused", type(e).__name__))
            return "refused"
        outcome = "ok"
        for how in ("raw", "optimized"):
            try:
                yy = build()
                got = np.asarray(raw_eval(yy.expr)) if how == "raw" else np.asarray(yy.compute(scheduler="sync"))
            except Exception as e:  # noqa: BLE001
                ctx.fail(f"ovpipe:{entry}:{how}:raises:{type(e).__name__}", dict(case, outcome=repr(e)[:300], depth_arg=repr(depth), boundary_arg=repr(boundary)),
                         f"{entry} with a halo-reading kernel was built but raises when evaluated ({how})")
                outcome = "raises"
                continue
            if got.shape != want.shape or not np.array_equal(got, want):
                ctx.fail(f"ovpipe:{entry}:{how}:differs-from-numpy", dict(case, got=got.tolist(), want=want.tolist(), depth_arg=repr(depth), boundary_arg=repr(boundary)),
                         f"{entry} ({how}) differs from the definition: np.pad per axis, kernel over the extended array, original region kept")
                outcome = "differs"
            elif how == "optimized" and entry != "notrim" and tuple(map(sum, yy.chunks)) != shape:
                ctx.fail(f"ovpipe:{entry}:chunks-do-not-cover-shape", dict(case, chunks=[list(c) for c in yy.chunks]),
                         "the advertised chunks of the trimmed result do not add up to the input shape")
                outcome = "bad-chunks"
    key = ("ovpipe", entry, case["kern"], len(shape), kinds, asym, small, form, outcome)
    ctx.count(key)
    return outcome


def corpus():
    out = []
    for b in ["none", "periodic", "reflect", "nearest", 3]:
        out.append({"kind": "ovpipe", "shape": [12], "chunks": [[3, 4, 5]], "depth": [[2, 2]], "boundary": [b], "entry": "map_overlap", "kern": "wsum", "spell": 1})
        out.append({"kind": "ovpipe", "shape": [8, 6], "chunks": [[2, 3, 3], [2, 4]], "depth": [[2, 2], [1, 1]], "boundary": [b, b], "entry": "map_overlap", "kern": "box", "spell": 2})
        out.append({"kind": "ovpipe", "shape": [8, 6], "chunks": [[2, 3, 3], [2, 4]], "depth": [[2, 2], [1, 1]], "boundary": [b, "none"], "entry": "notrim", "kern": "box", "spell": 3})
    out.append({"kind": "ovpipe", "shape": [12], "chunks": [[3, 4, 5]], "depth": [[1, 3]], "boundary": ["none"], "entry": "map_overlap", "kern": "wsum", "spell": 4})
    out.append({"kind": "ovpipe", "shape": [12], "chunks": [[3, 4, 5]], "depth": [[4, 0]], "boundary": ["none"], "entry": "overlap+trim", "kern": "wsum", "spell": 5})
    out.append({"kind": "ovpipe", "shape": [9, 7], "chunks": [[1, 1, 3, 4], [7]], "depth": [[2, 1], [0, 3]], "boundary": ["none", "none"], "entry": "map_overlap", "kern": "box", "spell": 6})
    return out


def search(ctx):
    rng = ctx.rng
    tally = {}
    cases = corpus() + [gen_case(rng) for _ in range(ctx.scale(100, 1200))]
    for k, case in enumerate(cases):
        r = check(ctx, case)
        name = f"{case['entry']}/{len(case['shape'])}d/{case['kern']}/{r}"
        tally[name] = tally.get(name, 0) + 1
        if k in (7, 40):
            ctx.sample(case)
    return tally


# --------------------------------------------------------------------------- entry

def run(ctx, replay=None):
    if replay is not None:
        return check(ctx, replay["case"] if "case" in replay else replay)
    info = correspond(ctx)
    tally = search(ctx)
    info["search"] = dict(sorted(tally.items()))
    ctx.extra["ovpipe"] = info
    ctx.assumptions.append(
        "ovpipe: the real boundaries / overlap_internal / overlap / trim_internal / lowered map_overlap are evaluated rewrite-free on "
        "position-encoding arrays and compared block by block with the model; the search oracle is np.pad per axis (axis order) + the kernel "
        "over the extended array (kernels replicate edges themselves, which is the function's own behaviour under boundary 'none')"
    )
