"""C06 extension: GRAPH-KEY level pairing and USER-PINNED names.

Stream KEYS.  For call families whose layers create INTERNAL task keys (sequential / Blelloch scans, tree
reductions, arg-reductions, top-k, overlap, rechunk, shuffle / take, reshape, store-free io, histogram, percentile,
contractions, ...) a base call and its ONE-keyword variants are built in one process.  For every member BOTH graphs
are materialized (the optimized one the collection schedules, and the rewrite-free lowering).  Every key that occurs
in the graphs of two different members must denote ONE computation: the key is executed in each graph separately and
the results (structure, shape, dtype, bytes) are compared.  Then `dask.compute(a, b)` (both orders) and one consumer of
both (`da.stack([a, b])`) must give what each member gives when computed on its own.
Parameters are Python SOURCE strings, the family's call is a source string too: a case replays from the dict alone.
Families of the c06_pairs catalogue are sampled in addition (time-boxed).

Stream NAMES.  Every creation / io / map_blocks / blockwise / from_delayed / from_map / reduction API that takes
`name=` is built with a (unique) user name, every pushdown trigger is applied (basic / stepped / integer slices, fancy
takes, rechunk, transposes, broadcast, reshape, reductions, two-step chains) and
  (a) the values of the product and of consumers whose own shape hides the extent (sum, (t+1).sum(), mean; computed in
      one merged dask.compute with the whole array's sum) are compared with NumPy -- and with the SAME program without
      `name=` (a deviation that does not depend on the name is C01's subject, not reported here);
  (b) no node of the optimized tree and no key of the scheduled graph carries the user's name unless it has the
      original's shape / chunks / dtype / block values.
A fixed probe per API builds two DIFFERENT arrays under one user name (`user-name:<api>:second-array-is-first`).
"""
from __future__ import annotations

import collections
import gc
import itertools
import warnings

import numpy as np

from harness.props_ext import c06_pairs as P

# ------------------------------------------------------------------------------ helpers (module level: tokenised by name)


def f_const(shape, k=0):
    n = int(np.prod(shape))
    return ((np.arange(n) * 7 + 3 * k) % 11 - 4.0).reshape(shape)


def f_blk(v, n=2, k=0):
    return np.arange(n) * 1.0 + 10 * v + k


def f_addk(block, k=0):
    return block + k


def f_np_sum(x, **kw):
    kw.pop("computing_meta", None)
    return np.sum(x, **kw)


def f_ident(x):
    return x


def f_getter_plain(a, idx, *args, **kw):
    return np.asarray(a[idx])


def f_getter_plus(a, idx, *args, **kw):
    return np.asarray(a[idx]) + 1


def f_roll(b, k=0.0):
    return b + np.roll(b, 1, axis=0) + k


def f_gu_mean(x, k=0.0):
    return np.mean(x, axis=-1) + k


def f_fromfunction(i, j, k=0.0):
    return (i * 10 + j) * 1.0 + k


def SET(x, idx, v):
    """y = copy of x; y[idx] = v (in-place assignment on a fresh collection over an identically named base)"""
    y = x.copy() if isinstance(x, np.ndarray) else (x + 0)
    y[idx] = v
    return y


def hot(dtype, shape, k=0):
    """data close to the overflow of the small integer types (sums / products wrap in the narrow accumulators)"""
    n = int(np.prod(shape))
    base = (np.arange(n, dtype="int64") * 37 + 200 + 11 * k) % 256
    dt = np.dtype(dtype)
    if dt.kind == "i":
        base = base - 128
    if dt.kind == "f":
        base = base + 0.25
    return base.astype(dt).reshape(shape)


class NS(P.Namespace):
    def __init__(self, mode="da"):
        super().__init__(mode)
        import dask

        g = globals()
        for k in list(g):
            if k.startswith("f_"):
                self.ns[k] = g[k]
        self.ns["dask"] = dask
        self.ns["H"] = self.H
        self.ns["D"] = f_const
        self.ns["hot"] = hot
        self.ns["SET"] = SET

    def H(self, dtype, shape, chunks, k=0):
        d = hot(dtype, tuple(shape), k)
        if self.mode == "np":
            return d
        import dask_array as da

        return da.from_array(d, chunks=chunks)


def canon(v, depth=0):
    """structure + shape + dtype + bytes of a task result"""
    if depth > 6:
        return ("deep",)
    if isinstance(v, np.ma.MaskedArray):
        return ("ma", canon(np.ma.getdata(v).copy() * ~np.ma.getmaskarray(v) if v.dtype.kind in "biufc" else np.ma.getdata(v), depth + 1), canon(np.ma.getmaskarray(v), depth + 1))
    if isinstance(v, np.ndarray):
        if v.dtype.names:
            return ("rec", v.shape, tuple((n, canon(np.asarray(v[n]), depth + 1)) for n in v.dtype.names))
        if v.dtype.kind == "O":
            return ("nd", v.shape, "O", repr(v.tolist()))
        if v.dtype.kind in "fc" and v.size and np.isnan(v).any():  # sign / payload of a NaN is not compared (dask.tokenize normalises NaN literals: trusted base)
            v = v.copy()
            if v.dtype.kind == "c":
                v.real[np.isnan(v.real)] = np.nan
                v.imag[np.isnan(v.imag)] = np.nan
            else:
                v[np.isnan(v)] = np.nan
        return ("nd", v.shape, v.dtype.str, np.ascontiguousarray(v).tobytes())
    if isinstance(v, np.generic):
        return canon(np.asarray(v), depth + 1)
    if isinstance(v, (tuple, list)):
        return (type(v).__name__, tuple(canon(e, depth + 1) for e in v))
    if isinstance(v, dict):
        return ("dict", tuple(sorted((repr(k), canon(e, depth + 1)) for k, e in v.items())))
    if isinstance(v, (int, float, bool, str, bytes, type(None), complex)):
        return ("py", type(v).__name__, repr(v))
    return ("opaque", type(v).__name__)


def opaque(c):
    if not isinstance(c, tuple):
        return False
    if c and c[0] in ("opaque", "deep"):
        return True
    return any(opaque(e) for e in c if isinstance(e, tuple))


def short(v, limit=12):
    try:
        if isinstance(v, np.ndarray):
            return {"shape": list(v.shape), "dtype": str(v.dtype), "head": [repr(x) for x in v.ravel()[:limit].tolist()]}
        return repr(v)[:200]
    except Exception:
        return "?"


def quiet():
    w = warnings.catch_warnings()
    w.__enter__()
    warnings.simplefilter("ignore")
    return w


def graphs_of(x):
    """(optimized graph as scheduled, rewrite-free lowering) of a collection, as plain dicts"""
    from dask._expr import Expr

    out = {}
    try:
        out["opt"] = dict(x.__dask_graph__())
    except Exception:
        pass
    try:
        out["raw"] = dict(Expr.__dask_graph__(x.expr.lower_completely()))
    except Exception:
        pass
    return out


def run_keys(dsk, keys):
    from dask.local import get_sync

    with np.errstate(all="ignore"):
        return get_sync(dsk, list(keys))


def compute_one(x):
    import dask

    with dask.config.set(scheduler="sync"), np.errstate(all="ignore"):
        return np.asarray(x.compute())


def same(a, b):
    return canon(np.asarray(a)) == canon(np.asarray(b))


# ------------------------------------------------------------------------------ KEYS: the catalogue

CUM = ["'cumsum'", "'cumprod'", "'nancumsum'", "'nancumprod'"]
DT = ["'u1'", "'i2'", "'f4'", "'f8'", "'u8'", "'i8'", "'c8'"]


def key_families():
    F = []

    def add(name, expr, base, alts, core=False):
        F.append({"name": name, "expr": expr, "base": base, "alts": alts, "core": core})

    # ---- scans (sequential: per-block scan tasks + running totals; blelloch: up/down sweep tasks)
    for tag, x, xs, axes in (("1d", "H('u1',(12,),(4,))", ["H('u1',(12,),(4,),1)", "H('u1',(12,),(3,))", "H('i1',(12,),(4,))", "H('f4',(12,),(4,))"], ["-1", "None"]),
                             ("2d", "H('u1',(6,4),(2,3))", ["H('u1',(6,4),(2,3),1)", "H('u1',(6,4),(3,2))", "H('i2',(6,4),(2,3))"], ["1", "-1", "None", "-2"])):
        for method in ("'sequential'", "'blelloch'"):
            add(f"scan.{method.strip(chr(39))}.{tag}", "getattr(da, fn)(x, axis=axis, dtype=dtype, method=method)",
                {"x": x, "fn": "'cumsum'", "axis": "0", "dtype": "None", "method": method},
                {"dtype": DT, "fn": CUM[1:], "axis": axes, "x": xs, "method": ["'blelloch'" if method == "'sequential'" else "'sequential'"]}, core=True)
    add("scan.method-object", "getattr(x, fn)(axis=axis, dtype=dtype)", {"x": "H('u1',(12,),(4,))", "fn": "'cumsum'", "axis": "0", "dtype": "None"},
        {"dtype": DT[:4], "fn": ["'cumprod'"], "x": ["H('u1',(12,),(6,))"]}, core=True)
    # ---- tree reductions
    RED = ["'sum'", "'prod'", "'mean'", "'var'", "'std'", "'nansum'", "'nanprod'", "'nanmean'", "'nanvar'", "'nanstd'"]
    add("reduce.dtype", "getattr(da, fn)(x, axis=axis, keepdims=keepdims, split_every=split_every, dtype=dtype)",
        {"x": "H('u1',(8,6),(2,3))", "fn": "'sum'", "axis": "0", "keepdims": "False", "split_every": "2", "dtype": "None"},
        {"dtype": DT, "fn": RED[1:], "axis": ["1", "None", "(0, 1)", "-1"], "keepdims": ["True"], "split_every": ["None", "3", "{0: 2, 1: 2}", "4"], "x": ["H('u1',(8,6),(2,3),1)", "H('u1',(8,6),(4,3))", "H('i1',(8,6),(2,3))"]}, core=True)
    add("reduce.nodtype", "getattr(da, fn)(x, axis=axis, keepdims=keepdims, split_every=split_every)",
        {"x": "A('f8',(8,6),(2,3))", "fn": "'max'", "axis": "0", "keepdims": "False", "split_every": "2"},
        {"fn": ["'min'", "'any'", "'all'", "'nanmax'", "'nanmin'", "'ptp'"], "axis": ["1", "None", "(0, 1)"], "keepdims": ["True"], "split_every": ["None", "3", "{0: 4}"], "x": ["A('f8',(8,6),(2,3),1)", "A('i8',(8,6),(2,3))"]}, core=True)
    add("reduce.ddof", "getattr(da, fn)(x, axis=axis, ddof=ddof, split_every=split_every, dtype=dtype)",
        {"x": "A('f8',(8,6),(2,3))", "fn": "'var'", "axis": "0", "ddof": "0", "split_every": "2", "dtype": "None"},
        {"fn": ["'std'", "'nanvar'", "'nanstd'"], "ddof": ["1", "2", "1.5"], "axis": ["1", "None"], "split_every": ["None", "4"], "dtype": ["'f4'", "'f8'", "'c16'"]}, core=True)
    add("reduce.moment", "da.moment(x, order, axis=axis, ddof=ddof, split_every=split_every, dtype=dtype)",
        {"x": "A('f8',(8,6),(2,3))", "order": "3", "axis": "0", "ddof": "0", "split_every": "2", "dtype": "None"},
        {"order": ["2", "4", "5"], "ddof": ["1"], "axis": ["1"], "dtype": ["'f4'"], "split_every": ["None"]})
    ARG = ["'argmax'", "'argmin'", "'nanargmax'", "'nanargmin'"]
    add("reduce.arg", "getattr(da, fn)(x, axis=axis, keepdims=keepdims, split_every=split_every)",
        {"x": "A('f8',(8,6),(2,3))", "fn": "'argmax'", "axis": "0", "keepdims": "False", "split_every": "2"},
        {"fn": ARG[1:], "axis": ["1", "None", "-1"], "keepdims": ["True"], "split_every": ["None", "3"], "x": ["A('f8',(8,6),(2,3),1)", "A('f8',(8,6),(4,6))"]}, core=True)
    add("reduce.topk", "getattr(da, fn)(x, k, axis=axis, split_every=split_every)",
        {"x": "A('f8',(8,6),(2,3))", "fn": "'topk'", "k": "2", "axis": "0", "split_every": "2"},
        {"fn": ["'argtopk'"], "k": ["-2", "3", "1"], "axis": ["1", "-1"], "split_every": ["None", "3"], "x": ["A('f8',(8,6),(2,3),1)"]}, core=True)
    add("reduce.custom", "da.reduction(x, chunk, agg, axis=axis, keepdims=keepdims, dtype=dtype, split_every=split_every, combine=combine, name=name, concatenate=concatenate, output_size=1)",
        {"x": "H('u1',(8,6),(2,3))", "chunk": "f_np_sum", "agg": "f_np_sum", "axis": "0", "keepdims": "False", "dtype": "'u1'", "split_every": "2", "combine": "None", "name": "None", "concatenate": "True"},
        {"dtype": ["'u8'", "'f8'", "'i2'"], "axis": ["1", "None"], "keepdims": ["True"], "split_every": ["None", "3"], "combine": ["f_np_sum"], "name": ["'kr-nm'"], "agg": ["np.max"], "chunk": ["np.max"]})
    add("reduce.average", "da.average(x, axis=axis, weights=weights, keepdims=keepdims)",
        {"x": "A('f8',(6,4),(2,3))", "axis": "0", "weights": "R('f8',(6,),1) + 5", "keepdims": "False"},
        {"weights": ["R('f8',(6,),2) + 5", "None", "A('f8',(6,),(2,),1) + 5", "R('i8',(6,),1) + 5"], "keepdims": ["True"], "axis": ["None"]})
    # ---- overlap
    add("overlap.overlap", "da.overlap(x, depth=depth, boundary=boundary)",
        {"x": "A('f8',(8,4),(4,2))", "depth": "1", "boundary": "'reflect'"},
        {"depth": ["2", "{0: 1, 1: 0}", "{0: 1, 1: 1}", "{0: (1, 0), 1: 0}", "{0: (0, 1), 1: 0}", "(1, 2)"], "boundary": ["'nearest'", "'periodic'", "'none'", "0.0", "1.0", "{0: 0.0, 1: 1.0}", "{0: 'reflect', 1: 'periodic'}"],
         "x": ["A('f8',(8,4),(4,2),1)", "A('f8',(8,4),(2,2))"]}, core=True)
    add("overlap.map_overlap", "da.map_overlap(f, x, depth=depth, boundary=boundary, trim=trim, allow_rechunk=allow_rechunk, dtype='f8', k=k)",
        {"x": "A('f8',(8,4),(4,2))", "f": "f_roll", "depth": "1", "boundary": "'reflect'", "trim": "True", "allow_rechunk": "True", "k": "0.0"},
        {"depth": ["2", "{0: 1, 1: 0}", "(1, 0)", "{0: (1, 0)}"], "boundary": ["'nearest'", "'periodic'", "'none'", "0.0", "1.0", "None"], "trim": ["False"], "k": ["1.0", "2"], "allow_rechunk": ["False"], "x": ["A('f8',(8,4),(2,2))"]}, core=True)
    add("overlap.trim", "da.trim_overlap(da.overlap(x, depth=depth, boundary=boundary), depth=tdepth, boundary=boundary)",
        {"x": "A('f8',(8,4),(4,2))", "depth": "2", "tdepth": "2", "boundary": "'reflect'"},
        {"tdepth": ["1", "{0: 2, 1: 0}", "{0: 1, 1: 2}"], "boundary": ["'none'", "'periodic'"], "depth": ["{0: 2, 1: 2}"]})
    add("overlap.sliding_window", "da.sliding_window_view(x, w, axis=axis, automatic_rechunk=auto)",
        {"x": "A('f8',(10,4),(4,2))", "w": "3", "axis": "0", "auto": "True"}, {"w": ["2", "4", "5"], "axis": ["1", "-1"], "auto": ["False"], "x": ["A('f8',(10,4),(5,4))", "A('f8',(10,4),(3,2))"]})
    add("overlap.coarsen", "da.coarsen(red, x, axes, trim_excess=trim_excess)",
        {"x": "A('f8',(8,6),(4,3))", "red": "np.sum", "axes": "{0: 2}", "trim_excess": "False"},
        {"red": ["np.max", "np.mean", "np.min"], "axes": ["{0: 4}", "{1: 3}", "{0: 2, 1: 3}"], "trim_excess": ["True"], "x": ["A('f8',(8,6),(2,3))"]})
    # ---- rechunk
    add("rechunk", "x.rechunk(chunks, threshold=threshold, block_size_limit=block_size_limit, balance=balance, method=method)",
        {"x": "A('f8',(8,6),(4,3))", "chunks": "(2, 2)", "threshold": "None", "block_size_limit": "None", "balance": "False", "method": "None"},
        {"chunks": ["(2, 6)", "((2, 6), (3, 3))", "((6, 2), (3, 3))", "((6, 2), (2, 4))", "{0: 2}", "{1: 2}", "(3, 2)", "(8, 1)", "(1, 6)", "((1, 7), (5, 1))", "((7, 1), (1, 5))"], "threshold": ["1", "2"], "block_size_limit": ["64", "1e9"],
         "balance": ["True"], "method": ["'tasks'"], "x": ["A('f8',(8,6),(4,3),1)", "A('f8',(8,6),(2,3))", "A('f8',(8,6),(8,6))"]}, core=True)
    add("rechunk.chain", "x.rechunk(c1).rechunk(c2)[sl].rechunk(c3)",
        {"x": "A('f8',(8,6),(4,3))", "c1": "(2, 6)", "c2": "(8, 1)", "sl": "slice(None)", "c3": "(3, 3)"},
        {"c1": ["(1, 6)", "(2, 3)", "(4, 2)"], "c2": ["(8, 2)", "(4, 1)"], "sl": ["slice(0, 6)", "slice(2, 8)", "slice(0, 8, 2)"], "c3": ["(3, 2)", "(2, 3)", "(8, 6)"]})
    # ---- shuffle / take / fancy
    add("shuffle", "da.shuffle(x, indexer, axis)",
        {"x": "A('f8',(6,4),(3,2))", "indexer": "[[0, 1, 2], [3, 4, 5]]", "axis": "0"},
        {"indexer": ["[[0, 2, 1], [3, 4, 5]]", "[[3, 4, 5], [0, 1, 2]]", "[[0, 1], [2, 3]]", "[[0, 1, 2, 3], [4, 5]]", "[[0, 1, 2]]", "[[0, 3], [1, 4], [2, 5]]", "[[5, 0], [4, 1], [3, 2]]", "[[0, 0, 1], [1, 2, 2]]"],
         "axis": ["1"], "x": ["A('f8',(6,4),(2,2))", "A('f8',(6,4),(3,2),1)", "A('f8',(6,4),(6,4))"]}, core=True)
    add("take", "da.take(x, idx, axis=axis)",
        {"x": "A('f8',(6,4),(3,2))", "idx": "[0, 3, 1, 4]", "axis": "0"},
        {"idx": ["[0, 3, 1, 5]", "[3, 0, 4, 1]", "[0, 1, 3, 4]", "[4, 1, 3, 0]", "[0, 3, 1]", "[0, 0, 3, 3]", "np.array([0, 3, 1, 4])", "[5, 4, 3, 2, 1, 0]", "[0, 3, 1, 4, 2, 5]"], "axis": ["1", "-1"],
         "x": ["A('f8',(6,4),(2,2))", "A('f8',(6,4),(3,2),1)"]}, core=True)
    add("getitem.fancy-chain", "x[i0][:, i1][i2]",
        {"x": "A('f8',(6,4),(3,2))", "i0": "[4, 0, 2, 5]", "i1": "[3, 0]", "i2": "slice(None)"},
        {"i0": ["[4, 0, 2, 3]", "[0, 4, 5, 2]", "slice(1, 5)", "[True, False, True, True, False, True]"], "i1": ["[0, 3]", "[3, 1]", "slice(0, 2)", "slice(None, None, -1)"], "i2": ["slice(1, 3)", "[1, 0]", "slice(None, None, 2)", "1"]})
    add("vindex", "x.vindex[i0, i1]", {"x": "A('f8',(6,4),(3,2))", "i0": "[4, 0, 2]", "i1": "[3, 0, 1]"},
        {"i0": ["[4, 0, 3]", "[0, 4, 2]", "[2, 2, 2]"], "i1": ["[0, 3, 1]", "[3, 0, 2]"], "x": ["A('f8',(6,4),(2,2))"]})
    # ---- in-place assignment: keys selecting the same elements in another order / spelling, values differing in order / dtype / broadcast
    M6 = "np.array([False, False, True, True, True, True, True, True, False, False])"
    add("setitem.1d", "SET(x, idx, v)", {"x": "A('f8',(10,),(4,))", "idx": "slice(2, 8)", "v": "R('f8',(6,),1)"},
        {"idx": ["slice(7, 1, -1)", "[2, 3, 4, 5, 6, 7]", "[7, 6, 5, 4, 3, 2]", "slice(-8, -2)", "slice(-3, -9, -1)", "slice(2, 8, 1)", "np.array([2, 3, 4, 5, 6, 7])", "np.array([7, 6, 5, 4, 3, 2])", M6, "slice(3, 9)", "[2, 4, 3, 5, 6, 7]"],
         "v": ["R('f8',(6,),1)[::-1].copy()", "R('f8',(6,),2)", "R('i8',(6,),1)", "R('f4',(6,),1)", "R('f8',(1,),1)", "R('f8',(6,),1).tolist()", "A('f8',(6,),(3,),1)", "A('f8',(6,),(6,),1)", "A('f8',(6,),(3,),1)[::-1]"],
         "x": ["A('f8',(10,),(5,))", "A('f8',(10,),(4,),1)"]}, core=True)
    add("setitem.int", "SET(x, idx, v)", {"x": "A('f8',(10,),(4,))", "idx": "3", "v": "50.0"},
        {"idx": ["-7", "[3]", "slice(3, 4)", "np.int64(3)", "(3,)", "-3", "7", "[3, 3]", "Ellipsis"], "v": ["50", "np.float32(50)", "[50.0]", "51.0", "True"]})
    add("setitem.2d", "SET(x, idx, v)", {"x": "A('f8',(6,4),(3,2))", "idx": "(slice(1, 5), slice(None))", "v": "R('f8',(4,4),1)"},
        {"idx": ["(slice(4, 0, -1), slice(None))", "(slice(1, 5),)", "slice(1, 5)", "([1, 2, 3, 4],)", "([4, 3, 2, 1],)", "(slice(1, 5), slice(None, None, -1))", "(slice(4, 0, -1), slice(None, None, -1))", "(slice(-5, -1),)",
                 "(slice(1, 5), [0, 1, 2, 3])", "(slice(1, 5), [3, 2, 1, 0])", "(np.array([False, True, True, True, True, False]),)", "(slice(2, 6),)"],
         "v": ["R('f8',(4,4),1)[::-1].copy()", "R('f8',(4,4),1)[:, ::-1].copy()", "R('f8',(4,4),1).T.copy()", "R('f8',(1,4),1)", "R('f8',(4,1),1)", "R('f8',(4,),1)", "R('i8',(4,4),1)", "A('f8',(4,4),(2,2),1)", "A('f8',(4,4),(2,2),1)[::-1]"],
         "x": ["A('f8',(6,4),(2,4))"]}, core=True)
    add("setitem.mask", "SET(x, x > thr if m is None else m, v)", {"x": "A('f8',(10,),(4,))", "thr": "0", "m": "None", "v": "9.0"},
        {"thr": ["1", "-1", "0.0"], "m": ["A('bool',(10,),(4,))", "A('bool',(10,),(4,),1)", "R('bool',(10,),0)", "R('bool',(10,),1)"], "v": ["9", "-9.0", "A('f8',(10,),(4,),2)"]})
    # ---- reshape
    add("reshape", "da.reshape(x, shape, merge_chunks=merge_chunks, limit=limit)",
        {"x": "A('f8',(6,4),(2,4))", "shape": "(24,)", "merge_chunks": "True", "limit": "None"},
        {"shape": ["(12, 2)", "(2, 3, 4)", "(6, 2, 2)", "(3, 2, 4)", "(3, 8)", "(4, 6)", "(2, 12)", "(6, 4, 1)", "(1, 24)"], "merge_chunks": ["False"], "limit": ["32", "64", "1e9"],
         "x": ["A('f8',(6,4),(3,4))", "A('f8',(6,4),(2,4),1)", "A('f8',(6,4),(2,2))", "A('f8',(6,4),(1,4))"]}, core=True)
    add("reshape.blockwise", "da.reshape_blockwise(x, shape, chunks=chunks)",
        {"x": "A('f8',(6,4),(2,2))", "shape": "(24,)", "chunks": "None"}, {"shape": ["(3, 2, 4)"], "x": ["A('f8',(6,4),(3,2))", "A('f8',(6,4),(2,4))", "A('f8',(6,4),(2,2),1)"]})
    add("reshape.3d", "da.reshape(x, shape, merge_chunks=merge_chunks)",
        {"x": "A('f8',(2,3,4),(1,3,2))", "shape": "(6, 4)", "merge_chunks": "True"},
        {"shape": ["(2, 12)", "(24,)", "(4, 6)", "(2, 3, 2, 2)", "(3, 2, 4)"], "merge_chunks": ["False"], "x": ["A('f8',(2,3,4),(2,1,4))", "A('f8',(2,3,4),(1,3,4))"]})
    # ---- io (store-free)
    add("io.from_array", "da.from_array(data, chunks=chunks, lock=lock, asarray=asarray, fancy=fancy, getitem=getitem, meta=meta, inline_array=inline_array)",
        {"data": "R('f8',(6,4),0)", "chunks": "(3, 2)", "lock": "False", "asarray": "None", "fancy": "True", "getitem": "None", "meta": "None", "inline_array": "False"},
        {"data": ["R('f8',(6,4),1)", "R('i8',(6,4),0)", "R('f4',(6,4),0)", "np.asfortranarray(R('f8',(6,4),0))", "R('f8',(6,4),0).tolist()"], "chunks": ["(2, 2)", "((3, 3), (2, 2))", "(6, 4)", "-1", "3", "((2, 4), (2, 2))"], "lock": ["True"],
         "asarray": ["True", "False"], "fancy": ["False"], "getitem": ["f_getter_plain", "f_getter_plus"], "meta": ["np.empty((0, 0), dtype='f8')"], "inline_array": ["True"]}, core=True)
    add("io.from_array.slice", "da.from_array(data, chunks=chunks, getitem=getitem, inline_array=inline_array)[sl].rechunk(re)",
        {"data": "R('f8',(8,4),0)", "chunks": "(4, 2)", "getitem": "None", "inline_array": "False", "sl": "slice(0, 4)", "re": "(2, 2)"},
        {"data": ["R('f8',(8,4),1)"], "chunks": ["(2, 2)", "(8, 4)"], "getitem": ["f_getter_plus", "f_getter_plain"], "inline_array": ["True"], "sl": ["slice(4, 8)", "slice(1, 5)", "slice(0, 8, 2)", "[0, 1, 2, 3]", "[3, 2, 1, 0]"], "re": ["(4, 2)", "(2, 4)"]})
    add("io.from_delayed", "da.from_delayed(dask.delayed(f_const)(shape, k), shape=shape, dtype=dtype, meta=meta)",
        {"shape": "(4,)", "k": "0", "dtype": "'f8'", "meta": "None"}, {"k": ["1", "2", "0.0"], "dtype": ["'f4'"], "meta": ["np.empty((0,), dtype='f8')"]})
    add("io.from_map", "da.from_map(f, values, chunks=((n,) * len(values),), dtype=dtype, meta=meta, n=n, k=k)",
        {"f": "f_blk", "values": "[1, 2, 3]", "n": "2", "k": "0", "dtype": "'f8'", "meta": "None"},
        {"values": ["[1, 2, 4]", "(1, 2, 3)", "[3, 2, 1]", "[1.0, 2.0, 3.0]"], "k": ["1", "0.0", "True"], "n": ["3"], "dtype": ["'f4'"]})
    add("io.fromfunction", "da.fromfunction(f_fromfunction, chunks=chunks, shape=shape, dtype=dtype, k=k)",
        {"shape": "(4, 4)", "chunks": "(2, 2)", "dtype": "'f8'", "k": "0.0"}, {"shape": ["(4, 5)"], "chunks": ["(4, 2)", "(2, 4)"], "dtype": ["'f4'"], "k": ["1.0", "1", "True"]})
    add("io.to_delayed-roundtrip", "da.from_delayed(getattr(da, fn)(x, axis=0, dtype=dtype).astype('f8').to_delayed(optimize_graph=og)[blk], shape=(4,), dtype='f8')",
        {"x": "H('u1',(12,),(4,))", "fn": "'cumsum'", "dtype": "None", "og": "True", "blk": "1"}, {"dtype": ["'u1'", "'f4'"], "og": ["False"], "blk": ["2", "0"], "fn": ["'cumprod'"]})
    # ---- statistics / contractions / misc layers with internal keys
    add("histogram", "da.histogram(x, bins=bins, range=rng_, weights=weights, density=density)[0]",
        {"x": "A('f8',(12,),(5,))", "bins": "4", "rng_": "(-4, 6)", "weights": "None", "density": "False"},
        {"bins": ["5", "3", "np.array([-4., 0., 3., 6.])"], "rng_": ["(-5, 6)", "(-4, 7)"], "weights": ["A('f8',(12,),(5,),1)", "A('f8',(12,),(5,),2)", "A('i8',(12,),(5,),1)"], "density": ["True"], "x": ["A('f8',(12,),(5,),3)", "A('f8',(12,),(4,))"]})
    add("bincount", "da.bincount(x, weights=weights, minlength=minlength, split_every=split_every)",
        {"x": "A('u1',(12,),(5,))", "weights": "None", "minlength": "12", "split_every": "None"},
        {"weights": ["A('f8',(12,),(5,),1)", "A('f8',(12,),(5,),2)", "A('i8',(12,),(5,),1)"], "minlength": ["13", "16"], "split_every": ["2"], "x": ["A('u1',(12,),(5,),1)", "A('u1',(12,),(4,))"]})
    add("percentile", "da.percentile(x, q, method=method, internal_method=internal)",
        {"x": "A('f8',(12,),(5,))", "q": "[25, 50]", "method": "'linear'", "internal": "'default'"},
        {"q": ["[25, 75]", "[50]", "50", "[50, 25]"], "method": ["'lower'", "'higher'", "'midpoint'", "'nearest'"], "internal": ["'dask'", "'tdigest'"], "x": ["A('f8',(12,),(4,))", "A('f8',(12,),(5,),1)"]})
    add("quantile-median", "getattr(da, fn)(x, axis=axis)", {"x": "A('f8',(6,4),(6,2))", "fn": "'median'", "axis": "0"}, {"fn": ["'nanmedian'"], "axis": ["1", "(0,)"], "x": ["A('f8',(6,4),(3,4))"]})
    add("tensordot", "da.tensordot(x, y, axes=axes)", {"x": "A('f8',(4,6),(2,3))", "y": "A('f8',(6,4),(3,2),1)", "axes": "1"},
        {"axes": ["((1,), (0,))", "((0,), (1,))", "((1, 0), (0, 1))", "((0, 1), (1, 0))", "0"], "y": ["A('f8',(6,4),(3,2),2)", "A('f8',(6,4),(2,2),1)", "A('f4',(6,4),(3,2),1)"], "x": ["A('f8',(4,6),(4,2))"]})
    add("matmul-dot", "getattr(da, fn)(x, y)", {"x": "A('f8',(4,6),(2,3))", "y": "A('f8',(6,4),(3,2),1)", "fn": "'matmul'"},
        {"fn": ["'dot'", "'inner'", "'outer'", "'vdot'"], "y": ["A('f8',(6,4),(3,2),2)", "A('f8',(6,),(3,),1)", "A('f8',(6,4),(2,4),1)"], "x": ["A('f8',(4,6),(4,3))", "A('f8',(6,),(3,))"]})
    add("einsum", "da.einsum(sub, x, y, dtype=dtype, optimize=opt)", {"sub": "'ij,jk->ik'", "x": "A('f8',(4,6),(2,3))", "y": "A('f8',(6,4),(3,2),1)", "dtype": "None", "opt": "False"},
        {"sub": ["'ij,jk->ki'", "'ij,jk->i'", "'ij,jk'", "'ij,jk->ijk'", "'ij,ji->i'"], "dtype": ["'f4'", "'c16'"], "opt": ["True", "'greedy'"], "y": ["A('f8',(6,4),(3,2),2)"]})
    add("apply_gufunc", "da.apply_gufunc(f_gu_mean, sig, x, axes=axes, output_dtypes=od, k=k, allow_rechunk=True)",
        {"x": "A('f8',(4,6),(2,6))", "sig": "'(i)->()'", "axes": "None", "od": "'f8'", "k": "0.0"}, {"axes": ["[(0,), ()]", "[(1,), ()]"], "od": ["'f4'"], "k": ["1.0", "1"], "x": ["A('f8',(4,6),(4,6))", "A('f8',(4,6),(2,3))"]})
    add("apply_along_axis", "da.apply_along_axis(f, axis, x, dtype=dtype, shape=())", {"f": "np.sum", "axis": "0", "x": "A('f8',(4,6),(2,3))", "dtype": "'f8'"}, {"f": ["np.max", "np.prod"], "axis": ["1", "-1"], "dtype": ["'f4'"], "x": ["A('f8',(4,6),(4,3))"]})
    add("diff-gradient", "getattr(da, fn)(x, **kw)", {"x": "A('f8',(8,4),(3,2))", "fn": "'diff'", "kw": "{'n': 1, 'axis': 0}"},
        {"kw": ["{'n': 2, 'axis': 0}", "{'n': 1, 'axis': 1}", "{'n': 1, 'axis': 0, 'prepend': 0.0}", "{'n': 1, 'axis': 0, 'append': 1.0}", "{'axis': 0}", "{'axis': 1}", "{'axis': 0, 'edge_order': 2}"], "fn": ["'gradient'"], "x": ["A('f8',(8,4),(4,4))"]})
    add("pad", "da.pad(x, pw, mode=mode, **kw)", {"x": "A('f8',(6,4),(3,2))", "pw": "1", "mode": "'constant'", "kw": "{}"},
        {"pw": ["2", "((1, 2), (0, 1))", "(1, 2)"], "mode": ["'edge'", "'reflect'", "'wrap'", "'linear_ramp'", "'mean'", "'maximum'", "'symmetric'", "'minimum'"], "kw": ["{'constant_values': 1.0}", "{'constant_values': (0.0, 1.0)}"], "x": ["A('f8',(6,4),(2,2))"]})
    add("stack-concat", "getattr(da, fn)(xs, axis=axis)", {"xs": "[A('f8',(4,3),(2,2)), A('f8',(4,3),(2,2),1)]", "fn": "'concatenate'", "axis": "0"},
        {"fn": ["'stack'"], "axis": ["1", "-1"], "xs": ["[A('f8',(4,3),(2,2),1), A('f8',(4,3),(2,2))]", "[A('f8',(4,3),(2,2)), A('f8',(4,3),(2,2),2)]", "[A('f8',(4,3),(2,2)), A('f8',(4,3),(4,3),1)]", "[A('f8',(4,3),(2,2)), A('f8',(4,3),(2,2),1), A('f8',(4,3),(2,2))]"]})
    add("roll-repeat-tile", "getattr(da, fn)(x, *args)", {"x": "A('f8',(6,4),(3,2))", "fn": "'roll'", "args": "(1, 0)"},
        {"args": ["(2, 0)", "(1, 1)", "(1,)", "(-1, 0)", "((1, 1), (0, 1))", "(2,)", "(3,)"], "fn": ["'repeat'", "'tile'"], "x": ["A('f8',(6,4),(2,2))"]})
    add("searchsorted-digitize", "getattr(da, fn)(a, v, **kw)", {"a": "da.from_array(np.arange(0., 12., 1.5), chunks=3)", "v": "A('f8',(6,),(3,))", "fn": "'searchsorted'", "kw": "{}"},
        {"kw": ["{'side': 'right'}", "{'side': 'left'}"], "v": ["A('f8',(6,),(3,),1)", "A('f8',(6,),(2,))"], "a": ["da.from_array(np.arange(0., 12., 1.5), chunks=4)", "da.from_array(np.arange(-2., 10., 1.5), chunks=3)"]})
    add("isin-unique", "getattr(da, fn)(x, *args, **kw)", {"x": "A('i8',(12,),(5,))", "fn": "'isin'", "args": "([1, 2, 3],)", "kw": "{}"},
        {"args": ["([1, 2, 4],)", "(A('i8',(3,),(2,),1),)"], "kw": ["{'invert': True}", "{'assume_unique': True}"], "x": ["A('i8',(12,),(4,))", "A('i8',(12,),(5,),1)"]})
    add("where-select", "da.where(c, x, y)", {"c": "A('bool',(6,),(3,))", "x": "A('f8',(6,),(3,))", "y": "0.0"}, {"y": ["1.0", "A('f8',(6,),(3,),1)", "A('f8',(6,),(2,),1)"], "c": ["A('bool',(6,),(3,),1)", "A('bool',(6,),(2,))"], "x": ["A('f8',(6,),(3,),2)", "1.0"]})
    add("astype-chain", "getattr(da, fn)(x.astype(t1), axis=0, dtype=t2).astype(t3)", {"x": "H('u1',(12,),(4,))", "fn": "'cumsum'", "t1": "'u1'", "t2": "None", "t3": "'f8'"},
        {"t1": ["'i2'", "'f4'"], "t2": ["'u1'", "'i2'", "'f4'"], "t3": ["'f4'", "'u8'"], "fn": ["'cumprod'", "'nancumsum'"]}, core=True)
    add("linalg", "getattr(da.linalg, fn)(x, *args)[idx]", {"x": "A('f8',(8,3),(4,3))", "fn": "'qr'", "args": "()", "idx": "1"},
        {"fn": ["'svd'", "'tsqr'"], "idx": ["0"], "x": ["A('f8',(8,3),(2,3))", "A('f8',(8,3),(4,3),1)"]})
    return F


def members(fam):
    """[(label_param, label_value, spec)] base first"""
    out = [("base", "", dict(fam["base"]))]
    for p, vals in fam["alts"].items():
        for v in vals:
            if v == fam["base"].get(p):
                continue
            s = dict(fam["base"])
            s[p] = v
            out.append((p, v, s))
    return out


def build_expr(expr, spec):
    ns = NS("da")
    env = dict(ns.ns)
    env.update(ns.eval(spec))
    return eval(expr, env)  # noqa: S307 (sources written by this harness)


class KeyGroup:
    """members of one family, pooled at graph-key level"""

    def __init__(self, ctx, reg, stats, fam_name, builder, mems, case_base):
        self.ctx, self.reg, self.stats = ctx, reg, stats
        self.fam = fam_name
        self.builder = builder  # spec -> collection
        self.mems = mems  # [(param, value, spec)]
        self.case_base = case_base
        self.failed = False
        self.built = []  # (index, collection)
        self.graphs = {}  # (index, mode) -> dict
        self._alone = {}

    def diff(self, i, j):
        return "+".join(P.diff_params(self.mems[i][2], self.mems[j][2])) or "same"

    def case(self, i, j, **kw):
        c = dict(self.case_base)
        c.update({"shared_keys": "keys", "family": self.fam, "spec_a": self.mems[i][2], "spec_b": self.mems[j][2], "differing": P.diff_params(self.mems[i][2], self.mems[j][2])})
        c.update(kw)
        return c

    def fail(self, sig, i, j, what, **kw):
        self.failed = True
        self.ctx.fail(sig, self.case(i, j, **kw), what)

    def build(self):
        w = quiet()
        try:
            for i, (p, v, spec) in enumerate(self.mems):
                try:
                    x = self.builder(spec)
                    if isinstance(x, (tuple, list)):
                        x = x[0]
                    x.name, x.chunks
                except Exception:
                    self.stats["build-refused"] += 1
                    continue
                self.built.append((i, x))
                self.ctx.count(("keys-member", self.fam, p))
                for mode, g in graphs_of(x).items():
                    self.graphs[(i, mode)] = g
        finally:
            w.__exit__(None, None, None)

    # -- call level: one collection name for two calls => one array (each call evaluated from EMPTY registries)
    def names(self):
        by = collections.defaultdict(list)
        for i, x in self.built:
            try:
                by[x.name].append(i)
            except Exception:
                pass
        for nm, idx in by.items():
            if len(idx) < 2:
                continue
            vals = {}
            for i in idx[:6]:
                spec = self.mems[i][2]
                try:
                    w = quiet()
                    try:
                        vals[i] = self.reg.isolated(lambda spec=spec: compute_one(self.builder(spec)))
                    finally:
                        w.__exit__(None, None, None)
                except Exception:
                    self.stats["isolated-compute-raised"] += 1
            self.stats["same-name-calls"] += len(vals)
            ids = list(vals)
            for i, j in itertools.combinations(ids, 2):
                self.ctx.count(("keys-same-name", self.fam, self.diff(i, j)))
                if same(vals[i], vals[j]):
                    continue
                # reproducible? (each call once more, from empty registries)
                try:
                    again = [self.reg.isolated(lambda spec=self.mems[k][2]: compute_one(self.builder(spec))) for k in (i, j)]
                except Exception:
                    continue
                if not (same(again[0], vals[i]) and same(again[1], vals[j])):
                    self.stats["isolated-compute-not-reproducible"] += 1
                    continue
                self.fail(f"keys:one-name-two-arrays:{self.fam}:{self.diff(i, j)}", i, j,
                          f"{self.fam}: two calls differing in {self.diff(i, j)} get ONE collection name {nm!r} but, each built and computed from empty registries, they are two arrays: "
                          f"{short(vals[i])} vs {short(vals[j])}", name=nm, value_a=short(vals[i]), value_b=short(vals[j]))
                return

    # -- key level
    def keys(self):
        owners = collections.defaultdict(list)
        for (i, mode), g in self.graphs.items():
            for k in g:
                owners[k].append((i, mode))
        need = collections.defaultdict(list)  # graph id -> shared keys
        shared = []
        for k, own in owners.items():
            if len({i for i, _ in own}) < 2:
                continue
            shared.append((k, own))
            for o in own:
                need[o].append(k)
        self.stats["shared-keys"] += len(shared)
        if not shared:
            return
        vals = {}
        w = quiet()
        try:
            for o, ks in need.items():
                try:
                    res = run_keys(self.graphs[o], ks)
                    for k, r in zip(ks, res):
                        vals[(o, k)] = canon(r)
                except Exception:
                    self.stats["graph-exec-raised"] += 1
        finally:
            w.__exit__(None, None, None)
        for k, own in shared:
            seen = {}
            for o in own:
                c = vals.get((o, k))
                if c is None or opaque(c):
                    continue
                seen.setdefault(c, o)
            self.ctx.count(("keys-shared", self.fam, len(own) > 2))
            if len(seen) < 2:
                continue
            # two graphs give two results under one key; prefer two owners belonging to DIFFERENT members
            groups = collections.defaultdict(list)
            for o in own:
                c = vals.get((o, k))
                if c is not None and not opaque(c):
                    groups[c].append(o)
            gl = list(groups.values())
            best = None
            for ga, gb in itertools.combinations(gl, 2):
                for oa in ga:
                    for ob in gb:
                        if best is None or (oa[0] != ob[0] and best[0][0] == best[1][0]):
                            best = (oa, ob)
            o0, o1 = best
            if o0[0] == o1[0]:
                self.stats["one-member-two-forms-disagree"] += 1
            if not self.confirm_key(k, o0, o1):
                self.stats["key-conflict-not-reproducible"] += 1
                continue
            if not self.confirm_isolated(k, o0, o1):
                # only with the history of this process: does not replay from the two calls alone, recorded but not reported
                self.stats["key-conflict-only-with-history"] += 1
                self.ctx.notes.setdefault("shared_keys_history_dependent", []).append(
                    {"family": self.fam, "key": repr(k), "spec_a": self.mems[o0[0]][2], "spec_b": self.mems[o1[0]][2], "forms": [o0[1], o1[1]]})
                continue
            r0 = run_keys(self.graphs[o0], [k])[0]
            r1 = run_keys(self.graphs[o1], [k])[0]
            i, j = o0[0], o1[0]
            self.fail(f"keys:one-key-two-computations:{self.fam}:{self.diff(i, j)}", i, j,
                      f"{self.fam}: graph key {k!r} occurs in the graphs of two calls differing in {self.diff(i, j)} and denotes two different computations "
                      f"({o0[1]} graph of a: {short(r0)}; {o1[1]} graph of b: {short(r1)})",
                      key=repr(k), form_a=o0[1], form_b=o1[1], value_a=short(r0), value_b=short(r1))
            return

    def confirm_key(self, k, o0, o1):
        try:
            a = [canon(run_keys(self.graphs[o0], [k])[0]) for _ in range(2)]
            b = [canon(run_keys(self.graphs[o1], [k])[0]) for _ in range(2)]
        except Exception:
            return False
        return a[0] == a[1] and b[0] == b[1] and a[0] != b[0]

    def confirm_isolated(self, k, o0, o1):
        """the conflict must follow from the two calls alone: both rebuilt from EMPTY registries (what a replay does)"""

        def go():
            out = []
            for o in (o0, o1):
                x = self.builder(self.mems[o[0]][2])
                if isinstance(x, (tuple, list)):
                    x = x[0]
                g = graphs_of(x).get(o[1], {})
                out.append(canon(run_keys(g, [k])[0]) if k in g else None)
            return out

        w = quiet()
        try:
            a, b = self.reg.isolated(go)
        except Exception:
            return False
        finally:
            w.__exit__(None, None, None)
        return a is not None and b is not None and a != b

    # -- merged computations
    def alone(self, i, x):
        if i not in self._alone:
            try:
                self._alone[i] = compute_one(x)
            except Exception:
                self.stats["separate-compute-raised"] += 1
                self._alone[i] = None
        return self._alone[i]

    def stable(self, i, x):
        """the separate value is an oracle only if a second separate compute agrees"""
        try:
            ok = same(compute_one(x), self._alone[i])
        except Exception:
            ok = False
        if not ok:
            self.stats["separate-compute-not-reproducible"] += 1
        return ok

    def merged(self, pairs):
        import dask
        import dask_array as da

        by = dict(self.built)
        nstack = 0
        for i, j in pairs:
            if self.failed:
                return
            a, b = by[i], by[j]
            w = quiet()
            try:
                va, vb = self.alone(i, a), self.alone(j, b)
                if va is None or vb is None:
                    continue
                self.ctx.count(("keys-merged", self.fam, self.diff(i, j)))
                try:
                    with dask.config.set(scheduler="sync"), np.errstate(all="ignore"):
                        ra, rb = dask.compute(a, b)
                except Exception as e:
                    self.stats["merged-compute-raised"] += 1
                    self.stats[f"merged-raised:{self.fam}:{type(e).__name__}"] += 1
                    continue
                for who, r, v in (("first", ra, va), ("second", rb, vb)):
                    if not same(r, v):
                        if not (self.stable(i, a) and self.stable(j, b)):
                            break
                        with dask.config.set(scheduler="sync"), np.errstate(all="ignore"):
                            again = dask.compute(a, b)
                        if not same(again[0 if who == "first" else 1], r):
                            self.stats["merged-not-reproducible"] += 1
                            break
                        self.fail(f"keys:merged-differs-from-separate:{self.fam}:{self.diff(i, j)}", i, j,
                                  f"{self.fam}: dask.compute(a, b) of two calls differing in {self.diff(i, j)}: the {who} result {short(np.asarray(r))} is not what the same collection "
                                  f"computes on its own {short(v)} (one computation substituted for another in the merged graph)",
                                  how="dask.compute(a, b)", which=who, merged=short(np.asarray(r)), separate=short(v))
                        return
                nstack += 1
                if nstack <= 4 and va.shape == vb.shape and va.dtype.kind in "biufc" and vb.dtype.kind in "biufc" and va.ndim < 4:
                    try:
                        with dask.config.set(scheduler="sync"), np.errstate(all="ignore"):
                            both = np.asarray(da.stack([a, b]).compute())
                    except Exception:
                        self.stats["stack-of-both-raised"] += 1
                        continue
                    want = np.stack([va, vb])
                    self.ctx.count(("keys-stack", self.fam))
                    if (both.shape != want.shape or not np.array_equal(both, want.astype(both.dtype), equal_nan=True) or not np.array_equal(both.astype(want.dtype), want, equal_nan=True)) and self.stable(i, a) and self.stable(j, b):
                        self.fail(f"keys:consumer-of-both-differs:{self.fam}:{self.diff(i, j)}", i, j,
                                  f"{self.fam}: da.stack([a, b]) of two calls differing in {self.diff(i, j)} gives {short(both)}, the members computed on their own give {short(want)}",
                                  how="da.stack([a, b])", merged=short(both), separate=short(want))
                        return
            finally:
                w.__exit__(None, None, None)


def run_key_family(ctx, reg, stats, fam, rng, merged_budget, replay_pair=None):
    if "expr" in fam:
        builder = lambda spec: build_expr(fam["expr"], spec)  # noqa: E731
        case_base = {"expr": fam["expr"]}
        mems = members(fam) if replay_pair is None else [("a", "", replay_pair[0]), ("b", "", replay_pair[1])]
    else:  # a family of the c06_pairs catalogue
        pf = fam["pairs_family"]
        builder = lambda spec: P.build(pf, spec)  # noqa: E731
        case_base = {"pairs_family": pf.name}
        if replay_pair is None:
            specs, labels = pf.specs(rng)
            mems = [(l[0], l[1], s) for s, l in zip(specs, labels)]
        else:
            mems = [("a", "", replay_pair[0]), ("b", "", replay_pair[1])]
    g = KeyGroup(ctx, reg, stats, fam["name"], builder, mems, case_base)
    g.build()
    if len(g.built) >= 2:
        g.names()
        if not g.failed:
            g.keys()
        if not g.failed:
            idx = [i for i, _ in g.built]
            pairs = [(idx[0], j) for j in idx[1:]]
            rest = [(i, j) for i, j in itertools.combinations(idx[1:], 2)]
            rng.shuffle(rest)
            pairs = pairs + rest[: max(2, len(idx) // 2)]
            pairs = [(i, j) if rng.random() < 0.5 else (j, i) for i, j in pairs]
            if replay_pair is not None:
                pairs = [(0, 1), (1, 0)]
            g.merged(pairs[:merged_budget])
    failed = g.failed
    if failed:
        reg.pending = []
    del g
    return failed


def run_keys_stream(ctx, reg, stats):
    rng = ctx.rng
    t0 = ctx.elapsed()
    fams = key_families()
    core = [f for f in fams if f["core"]]
    rest = [f for f in fams if not f["core"]]
    rng.shuffle(rest)
    box = ctx.scale(4.5, 60.0)
    done = 0
    for f in core:  # never time-boxed: the signature set must not depend on the machine load
        run_key_family(ctx, reg, stats, f, rng, merged_budget=ctx.scale(6, 60))
        done += 1
        gc.collect(1)
    stats["seconds-core"] = round(ctx.elapsed() - t0, 1)
    for f in rest:
        if ctx.elapsed() - t0 > box:
            stats["families-skipped(time)"] += 1
            continue
        run_key_family(ctx, reg, stats, f, rng, merged_budget=ctx.scale(4, 60))
        done += 1
        gc.collect(1)
    # sample of the c06_pairs catalogue (key level only pays off where layers have internal keys; all are tried over the seeds)
    pf = [f for f in P.families() if not f.name.startswith("random.") and not f.one_sig]
    rng.shuffle(pf)
    sampled = 0
    for f in pf:
        if ctx.elapsed() - t0 > box + ctx.scale(1.5, 30.0):
            break
        try:
            run_key_family(ctx, reg, stats, {"name": "cat." + f.name, "pairs_family": f}, rng, merged_budget=ctx.scale(3, 30))
        except Exception as e:
            stats[f"catalogue-family-broken:{f.name}:{type(e).__name__}"] += 1
        sampled += 1
        gc.collect(1)
    stats["families"] = done
    stats["catalogue-families-sampled"] = sampled
    stats["seconds"] = round(ctx.elapsed() - t0, 1)


# ------------------------------------------------------------------------------ NAMES: user-pinned names

# api -> (dask source, numpy source); NAME is the user's name (None: the unnamed control), K selects the content
SH = {1: ("(10,)", "(5,)"), 2: ("(6, 4)", "(3, 2)")}
NAME_APIS = [
    ("full", "da.full(SH, 2.0 + K, chunks=CH, name=NAME)", "np.full(SH, 2.0 + K)"),
    ("ones", "da.ones(SH, chunks=CH, name=NAME, dtype='f8' if K == 0 else 'f4')", "np.ones(SH, dtype='f8' if K == 0 else 'f4')"),
    ("zeros", "da.zeros(SH, chunks=CH, name=NAME, dtype='f8' if K == 0 else 'i8')", "np.zeros(SH, dtype='f8' if K == 0 else 'i8')"),
    ("full_like", "da.full_like(A('f8', SH, CH), 3.0 + K, name=NAME)", "np.full(SH, 3.0 + K)"),
    ("ones_like", "da.ones_like(A('f8' if K == 0 else 'i8', SH, CH), name=NAME)", "np.ones(SH, dtype='f8' if K == 0 else 'i8')"),
    ("zeros_like", "da.zeros_like(A('f8' if K == 0 else 'i8', SH, CH), name=NAME)", "np.zeros(SH, dtype='f8' if K == 0 else 'i8')"),
    ("from_array", "da.from_array(D(SH, K), chunks=CH, name=NAME)", "D(SH, K)"),
    ("from_array.inline", "da.from_array(D(SH, K), chunks=CH, name=NAME, inline_array=True)", "D(SH, K)"),
    ("from_delayed", "da.from_delayed(dask.delayed(f_const)(SH, K), shape=SH, dtype='f8', name=NAME)", "D(SH, K)"),
    ("from_map", "da.from_map(f_blk, list(range(SH[0] // 2)), chunks=((2,) * (SH[0] // 2),), dtype='f8', name=NAME, k=K) if len(SH) == 1 else SKIP", "np.concatenate([f_blk(v, 2, K) for v in range(SH[0] // 2)])"),
    ("map_blocks", "A('f8', SH, CH, K).map_blocks(f_addk, k=1, dtype='f8', name=NAME)", "D(SH, K) + 1"),
    ("blockwise", "da.blockwise(f_addk, 'ij'[:len(SH)], A('f8', SH, CH, K), 'ij'[:len(SH)], k=1, dtype='f8', name=NAME)", "D(SH, K) + 1"),
    ("elemwise", "da.core.elemwise(np.add, A('f8', SH, CH, K), 1.0, name=NAME)", "D(SH, K) + 1"),
    ("reduction", "da.reduction(A('f8', (4,) + SH, (2,) + CH, K), f_np_sum, f_np_sum, axis=0, dtype='f8', name=NAME)", "D((4,) + SH, K).sum(axis=0)"),
]

TRIGGERS = {
    1: [("slice", "x[:3]", True), ("slice", "x[2:]", False), ("step", "x[::2]", False), ("step", "x[::-1]", False), ("int", "x[3]", True), ("take", "x[[7, 0, 4]]", True), ("take", "da.take(x, [1, 1, 0])", False),
        ("rechunk", "x.rechunk(2)", False), ("rechunk", "x.rechunk(3)[:4]", False), ("broadcast", "da.broadcast_to(x, (2,) + x.shape)", False), ("newaxis", "x[None]", False), ("reshape", "x.reshape(2, 5)", False),
        ("reduce", "x.sum(keepdims=True)", True), ("astype", "x.astype('f4')[:3]", False), ("repeat", "x.repeat(2)", False), ("roll", "da.roll(x, 3)", False), ("flip", "da.flip(x, 0)", False), ("scan", "x.cumsum()", False),
        ("concat", "da.concatenate([x, x[:3]])", False), ("chain", "x[:6][1:4]", True), ("chain", "x[[7, 0, 4, 9]][:2]", False), ("chain", "x[2:9][[3, 0]]", False), ("op-slice", "(x + 1)[:3]", False), ("overlap", "da.overlap(x, 1, 'reflect')", False)],
    2: [("slice", "x[:2]", True), ("slice", "x[:, 1:3]", False), ("slice", "x[1:5, :2]", False), ("step", "x[::2, ::-1]", False), ("int", "x[1]", False), ("int", "x[:, 0]", False), ("take", "x[[3, 0, 5]]", True), ("take", "x[:, [2, 0]]", False),
        ("take", "x[2:5, [3, 1]]", False), ("transpose", "x.T", False), ("transpose", "x.T[:2]", True), ("transpose", "da.swapaxes(x, 0, 1)[1:]", False), ("transpose", "da.moveaxis(x, 0, 1)[[2, 0]]", False),
        ("rechunk", "x.rechunk((2, 4))", False), ("rechunk", "x.rechunk((6, 1))[:, :2]", False), ("broadcast", "da.broadcast_to(x, (2, 6, 4))", True), ("newaxis", "da.expand_dims(x, 0)", False), ("squeeze", "da.squeeze(x[:1])", False),
        ("reshape", "x.reshape(4, 6)", False), ("reshape", "x.ravel()[:5]", False), ("reduce", "x.sum(axis=0)", True), ("reduce", "x.mean(axis=1)[:3]", False), ("reduce", "x[:3].max(axis=0)", False),
        ("chain", "x[:4][1:3]", False), ("chain", "x[[3, 0, 5]][:2]", False), ("chain", "x.T[[2, 0]][:, :3]", False), ("op-slice", "(x * 2)[:2]", False), ("scan", "x.cumsum(axis=0)[:2]", False), ("stack", "da.stack([x, x])[:, :2]", False)],
}


def names_env(rank, k, name):
    ns = NS("da")
    env = dict(ns.ns)
    sh, ch = SH[rank]
    env.update({"SH": eval(sh), "CH": eval(ch), "K": k, "NAME": name, "SKIP": None})
    return env


def np_env(rank, k):
    ns = NS("np")
    env = dict(ns.ns)
    sh, ch = SH[rank]
    env.update({"SH": eval(sh), "CH": eval(ch), "K": k, "NAME": None})
    return env


def close_np(got, want):
    got, want = np.asarray(got), np.asarray(want)
    if got.shape != want.shape:
        return False
    try:
        return bool(np.allclose(got, want, rtol=1e-9, atol=1e-12, equal_nan=True))
    except Exception:
        return False


def trig_np(src, ref):
    env = np_env(1, 0)
    env["x"] = ref
    env["da"] = _NpShim()
    with np.errstate(all="ignore"):
        return np.asarray(eval(src, env))  # noqa: S307


class _NpShim:
    """the trigger sources written for dask, evaluated on the NumPy reference"""

    def __getattr__(self, k):
        return getattr(np, k)

    @staticmethod
    def overlap(x, depth, boundary):
        return np.pad(x, depth, mode={"reflect": "symmetric", "periodic": "wrap", "nearest": "edge"}.get(boundary, boundary))


def np_trigger(src, ref):
    # x.rechunk(...) / reshape(2, 5) spellings exist on dask only: rewrite for the reference
    import re as _re

    s = _re.sub(r"\.rechunk\([^()]*(\([^()]*\))?[^()]*\)", "", src)
    return trig_np(s, ref)


def names_case(api, rank, k, name, trig, **kw):
    c = {"shared_keys": "names", "api": api, "rank": rank, "k": k, "name": name, "trigger": trig}
    c.update(kw)
    return c


def check_named(ctx, stats, api, dsrc, nsrc, rank, k, name, kind, trig, full):
    """one (api, trigger): returns True if a failure was reported"""
    import dask
    import dask_array as da
    from dask_array._collection import Array

    env = names_env(rank, k, name)
    try:
        x = eval(dsrc, env)  # noqa: S307
    except Exception:
        stats[f"names-build-refused:{api}"] += 1
        return False
    if x is None:
        return False
    with np.errstate(all="ignore"):
        ref = np.asarray(eval(nsrc, np_env(rank, k)))  # noqa: S307
    env["x"] = x
    try:
        t = eval(trig, env)  # noqa: S307
        want = np_trigger(trig, ref)
    except Exception:
        stats["names-trigger-refused"] += 1
        return False
    ctx.count(("names", api, kind))
    orig = (tuple(x.shape), P.canon_chunks(x.chunks), str(x.dtype))
    sig_tail = f"{api}:{kind}"

    # (a) values: the product and consumers hiding the extent, each computed ON ITS OWN (a pushdown only fires when the
    # named array has no other dependent in the computation), then all in ONE merged compute with the whole array's sum
    labels = ["t", "t.sum()", "(t + 1).sum()", "t.mean()", "x.sum()"]

    def control():
        """the same program without name=: what the package computes when nothing is pinned"""
        e2 = names_env(rank, k, None)
        e2["x"] = eval(dsrc, e2)  # noqa: S307
        t2 = eval(trig, e2)  # noqa: S307
        out = []
        with dask.config.set(scheduler="sync"), np.errstate(all="ignore"):
            for c in (t2, t2.sum(), (t2 + 1).sum()):
                out.append(c.compute())
            out.extend(dask.compute(t2.mean(), e2["x"].sum()))
            out.extend(dask.compute(t2, t2.sum(), (t2 + 1).sum(), t2.mean(), e2["x"].sum()))
        return out

    got = []
    with dask.config.set(scheduler="sync"), np.errstate(all="ignore"):
        for lab, mk in (("t", lambda: t), ("t.sum()", lambda: t.sum()), ("(t + 1).sum()", lambda: (t + 1).sum())):
            try:
                got.append(mk().compute())
            except Exception as e:
                stats[f"names-compute-raised:{api}:{kind}:{type(e).__name__}"] += 1
                got.append(None)
        try:
            got.extend(dask.compute(t.mean(), x.sum()))
            got.extend(dask.compute(t, t.sum(), (t + 1).sum(), t.mean(), x.sum()))
        except Exception as e:
            stats[f"names-compute-raised:{api}:{kind}:{type(e).__name__}"] += 1
    labels = labels + [l + " [in one dask.compute with the others]" for l in labels]
    if got is not None:
        with np.errstate(all="ignore"):
            wants = [want, want.sum(), (want + 1).sum(), want.mean() if want.size else np.float64("nan"), ref.sum()]
            wants = wants + wants
        for lab, g, w_ in zip(labels, got, wants):
            if g is None or close_np(g, w_):
                continue
            try:
                ctl = control()
                cg = ctl[labels.index(lab)]
            except Exception:
                cg = None
            if cg is not None and close_np(cg, g):
                stats["names-deviates-from-numpy-also-unnamed(C01 subject)"] += 1
                stats[f"c01:{api}:{trig}:{lab}"] += 1
                break
            ctx.fail(f"user-name:{sig_tail}:rewrite-product-value", names_case(api, rank, k, name, trig, consumer=lab, got=short(np.asarray(g)), numpy=short(np.asarray(w_))),
                     f"{api}(name={name!r}) then {trig}: {lab} computes {short(np.asarray(g))}, NumPy (and the same program without name=) gives {short(np.asarray(w_))}")
            return True
    if not full:
        return False
    # (b) tree level: a node of the optimized tree named like the user's array must BE that array
    for lab, c in (("t", t), ("t.sum()", t.sum())):
        try:
            opt = c.expr.optimize()
            nodes = list(opt.walk())
        except Exception:
            stats["names-optimize-raised"] += 1
            continue
        for n in nodes:
            try:
                if n._name != name or not hasattr(n, "chunks"):
                    continue
                meta = (tuple(n.shape), P.canon_chunks(n.chunks), str(n.dtype))
            except Exception:
                continue
            stats["names-node-with-user-name"] += 1
            if meta != orig:
                ctx.fail(f"user-name:{sig_tail}:name-on-other-array", names_case(api, rank, k, name, trig, consumer=lab, level="node", node_class=type(n).__name__, node=list(map(str, meta)), original=list(map(str, orig))),
                         f"{api}(name={name!r}) then {trig}: the optimized tree of {lab} has a {type(n).__name__} node named {name!r} with shape/chunks/dtype {meta}, the user's array has {orig}")
                return True
    # (b) graph level: keys (name, i, ...) of the scheduled graph must hold the original's blocks
    for lab, c in (("t", t), ("(t + 1).sum()", (t + 1).sum())):
        try:
            g = dict(c.__dask_graph__())
        except Exception:
            stats["names-graph-raised"] += 1
            continue
        ks = [key for key in g if isinstance(key, tuple) and key and key[0] == name and all(isinstance(i, int) for i in key[1:])]
        if not ks:
            continue
        stats["names-graph-keys-with-user-name"] += len(ks)
        try:
            res = run_keys(g, ks)
        except Exception:
            stats["names-graph-exec-raised"] += 1
            continue
        bounds = [np.concatenate([[0], np.cumsum(cs)]) for cs in x.chunks]
        for key, r in zip(ks, res):
            idx = key[1:]
            if len(idx) != ref.ndim or any(i >= len(b) - 1 for i, b in zip(idx, bounds)):
                blk = None
            else:
                blk = ref[tuple(slice(int(b[i]), int(b[i + 1])) for i, b in zip(idx, bounds))]
            r = np.asarray(r)
            if blk is None or r.shape != blk.shape or not close_np(r, blk):
                ctx.fail(f"user-name:{sig_tail}:name-on-other-array", names_case(api, rank, k, name, trig, consumer=lab, level="graph-key", key=repr(key), got=short(r), original_block=short(blk) if blk is not None else None),
                         f"{api}(name={name!r}) then {trig}: the graph of {lab} holds key {key!r} = {short(r)}, block {idx} of the user's array is {short(blk) if blk is not None else 'out of range'}")
                return True
    return False


def collide_probe(ctx, stats, api, dsrc, nsrc):
    """two DIFFERENT arrays built under one user name, the first alive: the second must be the second"""
    import dask

    name = f"zz-{api}"
    rank = 1
    try:
        e1 = names_env(rank, 0, name)
        first = eval(dsrc, e1)  # noqa: S307
        if first is None:
            return
        e2 = names_env(rank, 1, name)
        e2["SH"] = (6,)
        e2["CH"] = (3,)
        second = eval(dsrc, e2)  # noqa: S307
        n2 = np_env(rank, 1)
        n2["SH"] = (6,)
        n2["CH"] = (3,)
        with np.errstate(all="ignore"):
            want2 = np.asarray(eval(nsrc, n2))  # noqa: S307
            want1 = np.asarray(eval(nsrc, np_env(rank, 0)))  # noqa: S307
    except Exception:
        stats[f"collide-build-refused:{api}"] += 1
        return
    ctx.count(("names-collide", api))
    try:
        with dask.config.set(scheduler="sync"), np.errstate(all="ignore"):
            g2 = np.asarray(second.compute())
            s2 = np.asarray((second + 1).sum().compute())
    except Exception as e:
        stats[f"collide-compute-raised:{api}:{type(e).__name__}"] += 1
        return
    if first.name != second.name:
        stats[f"collide-name-not-pinned:{api}"] += 1
    ok = close_np(g2, want2) and close_np(s2, (want2 + 1).sum()) and tuple(second.shape) == want2.shape
    if ok:
        stats[f"collide-ok:{api}"] += 1
        return
    is_first = close_np(g2, want1) or close_np(s2, (want1 + 1).sum()) or tuple(second.shape) == want1.shape
    sig = f"user-name:{api}:second-array-is-first" if is_first else f"user-name:{api}:second-array-wrong"
    ctx.fail(sig, {"shared_keys": "collide", "api": api, "name": name, "second_shape": list(map(int, second.shape)), "second_value": short(g2), "numpy_second": short(want2), "numpy_first": short(want1)},
             f"{api}: two different arrays created under the user name {name!r} (first alive): the second one computes {short(g2)} / (second + 1).sum() = {short(s2)}, expected {short(want2)}")


def run_names_stream(ctx, reg, stats):
    rng = ctx.rng
    t0 = ctx.elapsed()
    box = ctx.scale(5.0, 45.0)
    counter = itertools.count()
    bad = collections.Counter()
    extra = []
    for api, dsrc, nsrc in NAME_APIS:
        for rank in (1, 2):
            for kind, trig, core in TRIGGERS[rank]:
                if core:  # the core grid: never time-boxed
                    nm = f"pin-{api}-{rank}-{next(counter)}"
                    if bad[api] >= 2:  # two concrete inputs per API are enough
                        continue
                    if check_named(ctx, stats, api, dsrc, nsrc, rank, 0, nm, kind, trig, full=True):
                        bad[api] += 1
                        reg.pending = []
                else:
                    extra.append((api, dsrc, nsrc, rank, kind, trig))
    stats["names-seconds-core"] = round(ctx.elapsed() - t0, 1)
    rng.shuffle(extra)
    n = 0
    for api, dsrc, nsrc, rank, kind, trig in extra:
        if ctx.elapsed() - t0 > box or bad[api] >= 2:
            stats["names-extra-skipped(time)"] += 1
            continue
        nm = f"pin-{api}-{rank}-x{next(counter)}"
        k = rng.randrange(2)
        if check_named(ctx, stats, api, dsrc, nsrc, rank, k, nm, kind, trig, full=rng.random() < 0.4):
            bad[api] += 1
            reg.pending = []
        n += 1
    stats["names-extra-run"] = n
    for api, dsrc, nsrc in NAME_APIS:
        collide_probe(ctx, stats, api, dsrc, nsrc)
        reg.pending = []  # the registry would report the very same collision under its own signature
    stats["names-seconds"] = round(ctx.elapsed() - t0, 1)


# ------------------------------------------------------------------------------ entry points


def run(ctx, reg):
    stats = collections.Counter()
    t0 = ctx.elapsed()
    run_keys_stream(ctx, reg, stats)
    reg.pending = []  # node level is the pairs / order engines' business: here graphs and user names only
    run_names_stream(ctx, reg, stats)
    reg.pending = []
    ctx.notes["shared_keys"] = {k: v for k, v in stats.items() if ":" not in k}
    ctx.notes["shared_keys_detail"] = {k: v for k, v in stats.items() if ":" in k}
    ctx.notes["shared_keys_seconds"] = round(ctx.elapsed() - t0, 1)


def replay(ctx, reg, case):
    stats = collections.Counter()
    kind = case.get("shared_keys")
    if kind == "keys":
        if case.get("expr"):
            fam = {"name": case["family"], "expr": case["expr"], "core": True}
        else:
            pf = P.family_by_name(case["pairs_family"])
            if pf is None:
                ctx.notes["replay"] = f"unknown family {case['pairs_family']}"
                return
            fam = {"name": case["family"], "pairs_family": pf}
        run_key_family(ctx, reg, stats, fam, ctx.rng, merged_budget=4, replay_pair=(case["spec_a"], case["spec_b"]))
    elif kind == "names":
        for api, dsrc, nsrc in NAME_APIS:
            if api == case["api"]:
                kind_ = next((kd for kd, tr, _ in TRIGGERS[case["rank"]] if tr == case["trigger"]), "replay")
                check_named(ctx, stats, api, dsrc, nsrc, case["rank"], case["k"], case["name"], kind_, case["trigger"], full=True)
    elif kind == "collide":
        for api, dsrc, nsrc in NAME_APIS:
            if api == case["api"]:
                collide_probe(ctx, stats, api, dsrc, nsrc)
    reg.pending = []
    ctx.notes["shared_keys"] = dict(stats)
