"""C10 / C25 — BUILD-TIME vs RUN-TIME environment of lazy objects.

A lazy object (the array `store(..., compute=False)` returns, its `to_delayed()` blocks, the load-stored arrays of
`store(return_stored=True)`, a `from_array(src, lock=...)` collection, a `map_blocks` carrying a lock object) is BUILT under
configuration A (`dask.config.set(scheduler='sync' | 'synchronous' | 'single-threaded' | 'threads' | 'threading' | a get
callable, num_workers=1, pool=<1 worker>)`, or nothing) and EXECUTED later under configuration B (threads with 4-8 workers
through kwargs / config / a pool / the default, or a serial scheduler).  Whatever serialisation the object promises
(`lock=True`, the default of store, or a lock object: accesses of one target / source never overlap) must hold for every ordered
pair (A, B): the scheduler that happened to be configured while the graph was built is not the scheduler that runs it.

Targets / sources are `RacyTarget`s: ONE shared cursor (seek, then access where the cursor points: an overlapping access moves
it), a read-modify-write write log (count + checksum, a lost update shows), a reentrancy counter with a bounded rendezvous wait
(an access that CAN be overlapped IS overlapped; with a working lock nobody can come in and the wait times out) and, for the
recording lock, a check on every access that the calling thread holds the user's lock.  An alarm is raised only on an OBSERVED
overlap / lost update / misplaced block / access without the lock / exception of the threaded run, never on timing; an observed
failure is re-run 3 times and the number of reproductions reported.

A case is a JSON dict {"kind": "bt", "owner": "C10"|"C25", "api": "store"|"from_array"|"map_blocks"|"pipe", "lock": "default"|
"true"|"threading"|"serializable"|"recording"|"false", "build": <env name>, "runs": [<env name>...], "how": "dask.compute"|
"method"|"persist", "shape", "chunks", "optimize", "pre", "store": {"pairs": "one"|"regions"|"distinct", "compute", "return_stored",
"sched_kw", "to_delayed", "bare", "via": "function"|"method" (x.store)}, "fa": {...}, "views": "whole"|"halves"|"joint"}.
Signatures: C10 `buildtime-lock:<api>`; C25 `store:buildtime-lock`.
"""
from __future__ import annotations

import contextlib
import itertools
import threading
import time
import warnings

import numpy as np

from harness.props_ext.c10_locks import RecordingLock, find_locks, lock_identity

SENT = -777.0
_uid = itertools.count()
_ARM_ON_CREATE = None

# ---------------------------------------------------------------------------------------- environments
# name -> (config, compute kwargs, concurrent?)   ("pool:<n>" values are replaced by a fresh executor of n threads)
ENVS = {
    "none": ({}, {}, True),  # the collection default: threads
    "sync": ({"scheduler": "sync"}, {}, False),
    "synchronous": ({"scheduler": "synchronous"}, {}, False),
    "single-threaded": ({"scheduler": "single-threaded"}, {}, False),
    "threads": ({"scheduler": "threads"}, {}, True),
    "threading": ({"scheduler": "threading"}, {}, True),
    "nw1": ({"num_workers": 1}, {}, False),
    "sync+nw1": ({"scheduler": "sync", "num_workers": 1}, {}, False),
    "pool1": ({"pool": "pool:1"}, {}, False),
    "get_sync": ({"scheduler": "callable:get_sync"}, {}, False),
    "threaded_get": ({"scheduler": "callable:threaded_get"}, {}, True),
    # run-time flavours
    "threads4-kw": ({}, {"scheduler": "threads", "num_workers": 4}, True),
    "threading6-kw": ({}, {"scheduler": "threading", "num_workers": 6}, True),
    "threads8-cfg": ({"scheduler": "threads", "num_workers": 8}, {}, True),
    "pool4-cfg": ({"pool": "pool:4"}, {}, True),
    "pool5-kw": ({}, {"scheduler": "threads", "pool": "pool:5"}, True),
    "threaded_get4-cfg": ({"scheduler": "callable:threaded_get", "num_workers": 4}, {}, True),
    "default": ({}, {}, True),
    "sync-kw": ({}, {"scheduler": "sync"}, False),
    "sync-cfg": ({"scheduler": "sync"}, {}, False),
    "single-threaded-kw": ({}, {"scheduler": "single-threaded"}, False),
}
SYNC_LIKE = ("sync", "synchronous", "single-threaded", "get_sync", "sync+nw1")
OTHER_BUILD = ("none", "threads", "threading", "nw1", "pool1", "threaded_get", "threads8-cfg")
RUN_THREADED = ("threads4-kw", "threads8-cfg", "pool4-cfg", "default", "threaded_get4-cfg", "threading6-kw", "pool5-kw")
RUN_SERIAL = ("sync-kw", "sync-cfg", "single-threaded-kw")


@contextlib.contextmanager
def env(name):
    """the configuration `name` is active inside; yields the kwargs for compute / persist"""
    import dask

    cfg, kw, _ = ENVS[name]
    pools = []

    def real(v):
        if isinstance(v, str) and v.startswith("pool:"):
            from concurrent.futures import ThreadPoolExecutor

            p = ThreadPoolExecutor(int(v[5:]))
            pools.append(p)
            return p
        if v == "callable:get_sync":
            from dask.local import get_sync

            return get_sync
        if v == "callable:threaded_get":
            from dask.threaded import get

            return get
        return v

    cfg = {k: real(v) for k, v in cfg.items()}
    kw = {k: real(v) for k, v in kw.items()}
    try:
        with dask.config.set(cfg) if cfg else contextlib.nullcontext():
            yield kw
    finally:
        for p in pools:
            p.shutdown(wait=True)


# ---------------------------------------------------------------------------------------- the racy object

class RacyTarget:
    """array-like that is NOT safe for concurrent access: one shared cursor + a read-modify-write log.  The bookkeeping of the
    detector has its own mutex, which does not serialise the accesses themselves."""

    def __init__(self, data, guard=None):
        self._data = data
        self.shape = data.shape
        self.dtype = data.dtype
        self.ndim = data.ndim
        self._guard = guard
        self._uid = next(_uid)
        self._cursor = None
        self._cv = threading.Condition(threading.Lock())
        self._active = 0
        self._waits_left = 0
        self._wait_s = 0.0
        self._hold_s = 0.0
        self.reset_counters()
        if _ARM_ON_CREATE is not None:  # objects created while a graph is built under a concurrent configuration (eager store)
            self.arm(*_ARM_ON_CREATE)

    def __dask_tokenize__(self):
        return ("RacyTarget", id(self), self._uid)  # every object is a distinct destination

    def reset_counters(self):
        self.max_active = 0
        self.accesses = 0
        self.unguarded = 0
        self.probes = 0
        self.nwrites = 0
        self.checksum = 0.0
        self.misplaced = 0

    def arm(self, waits, wait_s, hold_s):
        self.reset_counters()
        self._waits_left = waits
        self._wait_s = wait_s
        self._hold_s = hold_s

    def _enter(self, key):
        self._cursor = key  # seek
        if self._guard is not None and not self._guard.held_here():
            self.unguarded += 1
        with self._cv:
            self._active += 1
            self.accesses += 1
            if self._active > self.max_active:
                self.max_active = self._active
            if self._active > 1:
                self._cv.notify_all()
            elif self._waits_left > 0 and self.max_active < 2:
                # give an access that CAN overlap the chance to do so (bounded; never the reason for an alarm)
                self._waits_left -= 1
                self._cv.wait(self._wait_s)

    def _leave(self):
        with self._cv:
            self._active -= 1

    def __getitem__(self, key):
        if self._data[key].size == 0:
            self.probes += 1  # metadata probe while the graph is built: not a read of the data
            return np.array(self._data[key])
        self._enter(key)
        try:
            if self._hold_s:
                time.sleep(self._hold_s)
            return np.array(self._data[self._cursor])  # what the cursor points at NOW
        finally:
            self._leave()

    def __setitem__(self, key, value):
        self._enter(key)
        try:
            n, c = self.nwrites, self.checksum  # read ...
            if self._hold_s:
                time.sleep(self._hold_s)
            try:
                self._data[self._cursor] = value  # ... at wherever the cursor points NOW
            except (ValueError, IndexError):
                self.misplaced += 1
            self.nwrites = n + 1  # ... modify-write
            self.checksum = c + float(np.sum(value))
        finally:
            self._leave()


def _mb_writer(block, tgt, lock=None, block_info=None):
    """user function of the map_blocks family: writes its block into `tgt` under the lock object it was given"""
    loc = block_info[0]["array-location"]
    key = tuple(slice(int(a), int(b)) for a, b in loc)
    if lock is not None:
        lock.acquire()
    try:
        tgt[key] = block
    finally:
        if lock is not None:
            lock.release()
    return block


def make_lock(kind):
    if kind in ("true", "default"):
        return True
    if kind == "false":
        return False
    if kind == "threading":
        return threading.Lock()
    if kind == "serializable":
        from dask.utils import SerializableLock

        return SerializableLock()
    if kind == "recording":
        return RecordingLock()
    raise KeyError(kind)


def source_data(case):
    shape = tuple(case["shape"])
    return np.arange(int(np.prod(shape)), dtype="f8").reshape(shape) * 3 + 1 + case.get("dseed", 0)


# ---------------------------------------------------------------------------------------- building

def _pre(x, case):
    pre = case.get("pre", "plain")
    if pre == "elemwise":
        return x * 1.0
    if pre == "rechunk":
        n = x.shape[0]
        return (x + 0).rechunk({0: tuple([1] * n)})
    return x


def _nblocks(a):
    return int(np.prod([len([c for c in cs if c]) for cs in a.chunks]))


def build(case):
    """-> dict(roots, racy=[(obj, role, expect)], want=[arrays]|None, eager=bool); runs INSIDE the build environment"""
    import dask_array as da

    api = case["api"]
    data = source_data(case)
    lock = make_lock(case["lock"])
    guard = lock if isinstance(lock, RecordingLock) else None
    chunks = tuple(tuple(c) for c in case["chunks"])
    n = data.shape[0]
    h = n // 2
    out = {"guard": guard, "data": data, "eager": False, "want": None}
    if api in ("store", "pipe"):
        st = case.get("store") or {}
        racy = []
        if api == "pipe":
            src = RacyTarget(data.copy(), guard)
            x = da.from_array(src, chunks=chunks, lock=lock) + 1.0
            base = data + 1.0
            racy.append((src, "source", {"contents": data.copy()}))
        else:
            x = _pre(da.from_array(data, chunks=chunks), case)
            base = data
        pairs = st.get("pairs", "one")
        if pairs == "one":
            srcs, tix, regions, wants = [x], [0], None, [base]
            if st.get("full_region"):
                regions = tuple(slice(0, s) for s in data.shape)
        elif pairs == "regions":
            srcs, tix = [x[:h], x[h:]], [0, 0]
            regions = [(slice(0, h),), (slice(h, n),)]
            wants = [base[:h], base[h:]]
        else:  # distinct targets
            srcs, tix, regions = [x, x * 2.0], [0, 1], None
            wants = [base, base * 2.0]
        ntargets = max(tix) + 1
        targets = [RacyTarget(np.full(data.shape, SENT), guard) for _ in range(ntargets)]
        expect = [{"contents": np.full(data.shape, SENT), "nwrites": 0, "checksum": 0.0} for _ in range(ntargets)]
        for i, (s, t) in enumerate(zip(srcs, tix)):
            r = None if regions is None else (regions if isinstance(regions, tuple) else regions[i])
            expect[t]["contents"][r if r is not None else ...] = wants[i]
            expect[t]["nwrites"] += _nblocks(s)
            expect[t]["checksum"] += float(np.sum(wants[i]))
        for t, e in zip(targets, expect):
            racy.append((t, "target", e))
        out["racy"] = racy
        out["arm"] = lambda *a: [o.arm(*a) for o, _, _ in racy]
        kw = {"compute": st.get("compute", False), "return_stored": st.get("return_stored", False)}
        if regions is not None:
            kw["regions"] = regions
        if case["lock"] != "default":
            kw["lock"] = lock
        if st.get("sched_kw") is not None:
            kw["scheduler"] = st["sched_kw"]
        if len(srcs) == 1 and st.get("via") == "method":
            r = srcs[0].store(targets[0], **kw)
        elif len(srcs) == 1 and st.get("bare", True):
            r = da.store(srcs[0], targets[0], **kw)
        else:
            r = da.store(srcs, [targets[t] for t in tix], **kw)
        out["eager"] = bool(kw["compute"])
        arrays = [] if r is None else (list(r) if isinstance(r, (tuple, list)) else [r])
        if st.get("to_delayed"):
            out["roots"] = [d for a in arrays for d in a.to_delayed().ravel().tolist()]
        else:
            out["roots"] = arrays
            if kw["return_stored"]:
                out["want"] = wants
        return out
    if api == "from_array":
        src = RacyTarget(data.copy(), guard)
        x = da.from_array(src, chunks=chunks, lock=lock, **(case.get("fa") or {}))
        v = case.get("views", "whole")
        if v == "halves":
            roots, want = [x[:h] + 100.0 * x[h: 2 * h]], [data[:h] + 100.0 * data[h: 2 * h]]
        elif v == "joint":
            roots, want = [x[:h], x[h:] + 0.0], [data[:h], data[h:]]
        else:
            roots, want = [x + 0.0], [data]
        if case.get("to_delayed"):
            roots, want = [d for a in roots for d in a.to_delayed().ravel().tolist()], None
        out.update(roots=roots, want=want, racy=[(src, "source", {"contents": data.copy()})])
        return out
    if api == "map_blocks":
        x = _pre(da.from_array(data, chunks=chunks), case)
        tgt = RacyTarget(np.full(data.shape, SENT), guard)
        y = x.map_blocks(_mb_writer, tgt, lock=lock if lock is not False else None, dtype=x.dtype, meta=x._meta)
        e = {"contents": data.copy(), "nwrites": _nblocks(x), "checksum": float(np.sum(data))}
        out.update(roots=[y], want=[data], racy=[(tgt, "target", e)])
        return out
    raise KeyError(api)


def execute(roots, how, kw):
    import dask

    if how == "method":
        return tuple(r.compute(**kw) for r in roots)
    if how == "persist":
        p = dask.persist(*roots, **kw)
        return dask.compute(*p, scheduler="sync")
    return dask.compute(*roots, **kw)


# ---------------------------------------------------------------------------------------- run_case

WEAK = (1, 0.02, 0.001)  # (rendezvous waits, seconds each, seconds inside the critical section)
STRONG = (3, 0.15, 0.01)


def run_case(ctx, case, count=True):
    """Returns [(signature, detail)] (empty: property holds) or None (construction refused)."""
    global _ARM_ON_CREATE
    import dask

    from harness.props_ext.c10_catalog import joint_graph

    owner = case.get("owner", "C10")
    api = case["api"]
    sig = "store:buildtime-lock" if owner == "C25" else f"buildtime-lock:{api}"
    note = lambda k, n=1: ctx.notes.__setitem__(k, ctx.notes.get(k, 0) + n)
    locked = case["lock"] != "false"
    explicit_sync = (case.get("store") or {}).get("sched_kw") in ("sync", "synchronous", "single-threaded")
    fails = []

    def problems(b, got, label, concurrent):
        """what an execution left behind, as (kind, text); kinds the owner does not decide are dropped by the caller"""
        out = []
        for obj, role, e in b["racy"]:
            if obj.max_active > 1:
                out.append(("overlap", f"{label}: {obj.max_active} accesses of the {role} were in flight at once ({obj.accesses} in total)"))
            if b["guard"] is not None and obj.unguarded:
                out.append(("unguarded", f"{label}: {obj.unguarded} of {obj.accesses} accesses of the {role} ran without holding the lock object passed as lock="))
            if obj.misplaced:
                out.append(("values", f"{label}: {obj.misplaced} block(s) were written where another block's cursor pointed (shape mismatch)"))
            if role == "target" and not b.get("skip_log") and "nwrites" in e:
                if obj.nwrites != e["nwrites"] or abs(obj.checksum - e["checksum"]) > 1e-6 * max(1.0, abs(e["checksum"])):
                    out.append(("values", f"{label}: write log of the target (writes, checksum) = ({obj.nwrites}, {obj.checksum}), a serial NumPy loop over the blocks gives "
                                f"({e['nwrites']}, {e['checksum']})"))
            if not np.array_equal(obj._data, e["contents"]):
                bad = np.argwhere(obj._data != e["contents"])
                out.append(("values", f"{label}: the {role} holds {obj._data[tuple(bad[0])]} at {tuple(int(i) for i in bad[0])} instead of {e['contents'][tuple(bad[0])]} "
                            f"({len(bad)} positions differ)"))
        if b["want"] is not None and got is not None:
            for g, w in zip(got, b["want"]):
                g = np.asarray(g)
                if g.shape != w.shape:
                    out.append(("values", f"{label}: computed result has shape {g.shape}, NumPy {w.shape}"))
                    break
                if not np.array_equal(g, w):
                    i = tuple(int(j) for j in np.argwhere(g != w)[0])
                    out.append(("values", f"{label}: computed result holds {g[i]} at {i}, NumPy {w[i]} ({int(np.sum(g != w))} positions differ)"))
                    break
        return out

    def decided(ps):
        # C25 decides values (what is in the target / what is read back); C10 decides everything observed
        return [p for p in ps if owner == "C10" or p[0] in ("values", "raise")]

    with dask.config.set({"array.optimize-graph": case["optimize"]}), warnings.catch_warnings():
        warnings.simplefilter("ignore")
        # ---- build under A (an eager store also RUNS here, under A's scheduler)
        try:
            with env(case["build"]):
                # targets exist only inside build(); they arm themselves on creation, before any task can run
                _ARM_ON_CREATE = WEAK if ENVS[case["build"]][2] else (0, 0.0, 0.0)
                b = build(case)
        except NotImplementedError:
            note("bt.refused_at_construction")
            return None
        except Exception as e:
            note("bt.construction_raised")
            ex = ctx.notes.setdefault("bt.construction_raised_examples", [])
            if len(ex) < 4:
                ex.append(f"{api} lock={case['lock']} build={case['build']} {case.get('store')}: {type(e).__name__}: {str(e)[:100]}")
            return None
        finally:
            _ARM_ON_CREATE = None
        roots = b["roots"]
        if b["eager"]:
            ps = problems(b, None, f"eager store under build environment {case['build']!r}", ENVS[case["build"]][2])
            if locked:
                fails += decided(ps)
            if count:
                ctx.count()
            # the data stays in the target; later runs only read it back
            for obj, role, e in b["racy"]:
                e.pop("nwrites", None)
        # ---- static: locks in the graph the scheduler will get
        suspicious = False
        static = "not walked"
        if roots:
            try:
                jdsk, _ = joint_graph(roots)
                locks = find_locks(jdsk)
                ids = {lock_identity(lk) for lk in locks}
                static = f"{len(locks)} lock occurrence(s), {len(ids)} distinct lock(s) in the {len(jdsk)}-task graph"
                note("bt.static_graphs")
                if locked and (not locks or len(ids) > (2 if api == "pipe" and case["lock"] != "recording" else 1)):
                    suspicious = True
                    note("bt.static_suspicious")
                if locked and b["guard"] is not None and locks and any(lk is not b["guard"] for lk in locks):
                    fails.append(("static", "the graph holds a lock that is not the lock object passed by the user"))
            except Exception as e:
                note("bt.static_walk_raised")
                ctx.notes.setdefault("bt.static_walk_raised_example", f"{type(e).__name__}: {str(e)[:100]}")

        def one_run(rname, strength):
            """reset, arm, execute under B -> (problems, error text | None)"""
            concurrent = ENVS[rname][2]
            for obj, role, e in b["racy"]:
                if role == "target" and not b["eager"]:
                    obj._data[...] = SENT
                obj.arm(*(strength if concurrent else (0, 0.0, 0.0)))
            err = got = None
            try:
                with env(rname) as kw:
                    got = execute(roots, case.get("how", "dask.compute"), kw)
            except Exception as e:
                err = f"{type(e).__name__}: {str(e)[:120]}"
            label = f"built under {case['build']!r}, run under {rname!r} ({case.get('how', 'dask.compute')})"
            ps = problems(b, got, label, concurrent) if err is None else []
            return ps, err, label

        serial_ok = None
        pending_raise = []
        for rname in case["runs"] if roots else []:
            concurrent = ENVS[rname][2]
            ps, err, label = one_run(rname, STRONG if suspicious else WEAK)
            if count:
                ctx.count(("bt", owner, api, case["lock"], case["build"] in SYNC_LIKE, ENVS[rname][2], case.get("how")))
            if not concurrent:
                serial_ok = err is None if serial_ok is None else (serial_ok and err is None)
            if err is not None:
                (pending_raise if concurrent else []).append((label, err))
                if not concurrent:
                    note("bt.serial_raised")
                    ctx.notes.setdefault("bt.serial_raised_example", f"{api} {case['lock']} {case['build']}->{rname}: {err}")
                continue
            if not locked:
                if concurrent:
                    note("bt.control_overlap_seen" if any(k == "overlap" for k, _ in ps) else "bt.control_no_overlap")
                continue
            if suspicious and concurrent and not ps:
                # the graph looks unserialised but nothing overlapped yet: two more chances
                for _ in range(2):
                    ps, err, label = one_run(rname, STRONG)
                    if ps or err:
                        break
            ps = decided(ps)
            if ps and explicit_sync:
                note("bt.explicit_sync_kwarg_unserialised(noted)")
                ctx.notes.setdefault("bt.explicit_sync_kwarg_example", f"store(..., compute=False, scheduler={case['store']['sched_kw']!r}) run under {rname}: {ps[0][1][:160]}")
                continue
            if ps:
                # confirm: the same run three more times
                again = 0
                for _ in range(3):
                    ps2, err2, _l = one_run(rname, STRONG)
                    if decided(ps2) or err2:
                        again += 1
                fails += [(k, f"{t} [re-run 3 times: failed {again} times; {static}]") for k, t in ps[:3]]
                break  # one environment pair is enough for the report
        if pending_raise and serial_ok:
            fails.append(("raise", f"{pending_raise[0][0]}: the serial run(s) succeed, the threaded run raises {pending_raise[0][1]}"))
        elif pending_raise:
            note("bt.threaded_raised_without_serial_reference")
        if not np.array_equal(b["data"], source_data(case)):
            fails.append(("values", "the NumPy data behind the source changed"))
        if count:
            note("bt.cases")
    fails = decided(fails) if owner == "C25" else fails
    if not fails:
        return []
    return [(sig, " ;; ".join(t for _, t in fails)[:1100])]


# ---------------------------------------------------------------------------------------- generators

def _split(rng, n):
    from harness.props_ext.c10_catalog import compose

    return compose(rng, n, 2, parts_min=4)


def _geometry(rng, small=False):
    if small:  # the environment matrix: 4-6 blocks
        n, m = 2 * rng.randint(4, 5), rng.randint(2, 4)
        return {"shape": [n, m], "chunks": [[2] * (n // 2) if rng.random() < 0.5 else [1, 2] + [2] * (n // 2 - 2) + [1], [m]]}
    n, m = 2 * rng.randint(4, 6), rng.randint(2, 4)
    return {"shape": [n, m], "chunks": [_split(rng, n), [m] if rng.random() < 0.7 else [1, m - 1]]}


def gen_cases(rng, owner="C10"):
    """ENUMERATED in every run: (1) store(compute=False) with the default lock / lock=True built under EVERY build environment and
    run under every threaded run environment (sync-like builds: all of them; other builds: two, rotating) plus a serial one;
    (2) every family of lazy object once, built under a sync-like environment (rotating over the spellings) or another one, run
    under a threaded and a serial environment in seeded order; (3) controls."""
    out = []
    hows = ("dask.compute", "method", "persist")
    thr = list(RUN_THREADED)
    rng.shuffle(thr)
    k = 0

    def runs_for(nthreaded, serial=True):
        nonlocal k
        r = [thr[(k + i) % len(thr)] for i in range(nthreaded)]
        k += nthreaded
        if serial:
            r.insert(rng.randrange(len(r) + 1), rng.choice(RUN_SERIAL))
        return r

    base = lambda **kw: dict({"kind": "bt", "owner": owner, "optimize": rng.random() < 0.7, "how": "dask.compute", "pre": rng.choice(("plain", "plain", "elemwise", "rechunk")),
                              "dseed": rng.randrange(1000)}, **_geometry(rng, kw.get("family") == "matrix"), **kw)
    if owner == "C25":
        # the values side only: what is in the target / read back after a store built under a serial configuration runs threaded
        names = list(SYNC_LIKE[:3])
        rng.shuffle(names)
        fams = [{"pairs": "one"}, {"pairs": "regions"}, {"pairs": "one", "return_stored": True}, {"pairs": "distinct", "to_delayed": True},
                {"pairs": "one", "compute": True, "return_stored": True}, {"pairs": "one", "full_region": True, "bare": False}]
        for i, st in enumerate(fams):
            out.append(base(api="store", lock=("default", "true")[i % 2], build=names[i % 3] if i < 5 else rng.choice(OTHER_BUILD), runs=runs_for(1, serial=i % 2 == 0),
                            how=hows[i % 3] if not st.get("to_delayed") else "dask.compute", store=st))
        return out
    # (1) the matrix
    for i, a in enumerate(SYNC_LIKE):
        out.append(base(api="store", lock=("default", "true")[i % 2], build=a, runs=runs_for(len(thr)), how=hows[i % 3], store={"pairs": "one", "via": ("function", "method")[(i // 2) % 2]}, family="matrix"))
    for i, a in enumerate(OTHER_BUILD):
        out.append(base(api="store", lock=("true", "default")[i % 2], build=a, runs=runs_for(2), how=hows[i % 3], store={"pairs": "one"}, family="matrix"))
    # (2) the families
    fams = []
    for lk in ("threading", "serializable", "recording"):
        fams.append(("store", lk, {"store": {"pairs": rng.choice(("one", "regions", "distinct"))}}))
    fams += [
        ("store", "default", {"store": {"pairs": "regions"}}),
        ("store", "true", {"store": {"pairs": "distinct"}}),
        ("store", "default", {"store": {"pairs": "one", "return_stored": True}}),
        ("store", "true", {"store": {"pairs": "regions", "return_stored": True}}),
        ("store", "default", {"store": {"pairs": "one", "compute": True, "return_stored": True}}),  # eager under A, read back under B
        ("store", "true", {"store": {"pairs": "distinct", "compute": True, "return_stored": True}}),
        ("store", "default", {"store": {"pairs": "one", "compute": True}}),  # eager: everything happens under A
        ("store", "default", {"store": {"pairs": "one", "to_delayed": True, "via": "method"}}),
        ("store", "true", {"store": {"pairs": "regions", "to_delayed": True}}),
        ("store", "true", {"store": {"pairs": "one", "sched_kw": "threads", "full_region": True, "bare": False}}),
        ("pipe", "recording", {"store": {"pairs": "one"}}),
        ("pipe", "true", {"store": {"pairs": "one"}}),
        ("from_array", "true", {"views": "halves", "fa": {}}),
        ("from_array", "serializable", {"views": "joint", "fa": {"inline_array": True}}),
        ("from_array", "threading", {"views": "whole", "fa": {"asarray": False}}),
        ("from_array", "recording", {"views": "halves", "fa": {"fancy": False}}),
        ("from_array", "true", {"views": "joint", "fa": {}, "to_delayed": True}),
        ("map_blocks", "threading", {}),
        ("map_blocks", "serializable", {}),
        ("map_blocks", "recording", {}),
    ]
    names = list(SYNC_LIKE)
    rng.shuffle(names)
    for i, (api, lk, extra) in enumerate(fams):
        a = names[i % len(names)] if rng.random() < 0.7 else rng.choice(OTHER_BUILD)
        how = "dask.compute" if (extra.get("store") or {}).get("to_delayed") or extra.get("to_delayed") else hows[(i + 1) % 3]
        out.append(base(api=api, lock=lk, build=a, runs=runs_for(1), how=how, family="families", **extra))
    # (3) controls (noted, never an alarm): without a lock the detector sees the overlap; an explicit scheduler='sync' kwarg of a
    # lazily built store declares the scheduler of the later compute
    out.append(base(api="store", lock="false", build="none", runs=["threads4-kw"], store={"pairs": "one"}, family="control"))
    out.append(base(api="store", lock="true", build="none", runs=["threads4-kw"], store={"pairs": "one", "sched_kw": "sync"}, family="control"))
    return out


def run(ctx, budget_s, owner="C10"):
    t0 = time.time()
    cases = gen_cases(ctx.rng, owner)
    ctx.notes["bt.generated"] = ctx.notes.get("bt.generated", 0) + len(cases)
    sampled = False
    reported = 0
    for case in cases:
        if reported >= 3:  # enough concrete inputs; every further one costs a shrink and three confirming re-runs
            ctx.notes["bt.skipped_after_3_failures"] = ctx.notes.get("bt.skipped_after_3_failures", 0) + 1
            continue
        if time.time() - t0 > budget_s:
            ctx.notes["bt.stopped_early"] = ctx.notes.get("bt.stopped_early", 0) + 1
            continue
        fails = run_case(ctx, case)
        if not sampled and fails is not None:
            sampled = True
            ctx.sample({"build-vs-run": case["api"], "lock": case["lock"], "build": case["build"], "runs": case["runs"], "store": case.get("store")})
        for sig, detail in fails or []:
            small, d2 = shrink(ctx, case, sig)
            ctx.fail(sig, small, d2 or detail)
            reported += 1
    ctx.notes["bt.seconds"] = round(ctx.notes.get("bt.seconds", 0) + time.time() - t0, 1)


def shrink(ctx, case, sig):
    """smaller replayable case: one run environment, plain source, default options (each step kept only if it still fails)"""
    detail = [None]

    def still(c):
        f = run_case(ctx, c, count=False)
        d = next((d for s, d in f or [] if s == sig), None)
        if d is not None:
            detail[0] = d
        return d is not None

    best = case
    try:
        for rname in case["runs"]:
            if ENVS[rname][2]:
                c = dict(best, runs=[rname])
                if still(c):
                    best = c
                    break
        for patch in ({"pre": "plain"}, {"optimize": True}, {"how": "dask.compute"}, {"chunks": [[2] * (case["shape"][0] // 2), [case["shape"][1]]]}):
            c = dict(best, **patch)
            if c != best and still(c):
                best = c
    except Exception:
        pass
    return best, (detail[0] if best is not case else None)
