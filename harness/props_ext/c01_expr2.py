"""C01, phase 3 — correspondence of the SECOND-LAYER expression model (lean/DaskArrayModel/Model/Expr2.lean,
Model/ExprDerived.lean; theorems Props/C01Ext.lean, Props/C01Derived.lean; driver family `ex2.*`,
Drv/Expr2.lean) with the implementation, on the SAME programs the phase-1 correspondence of
harness/props/C01.py uses.

`progcheck.encode2` expresses, in addition to phase 1: binary ops with NumPy broadcasting (lower rank,
length-1 axes), integer-list `take` along one axis, sliding-window reductions (overlap plan), `clip`,
`broadcast_to`, elementwise `map_blocks`, `None` / `Ellipsis` in basic indices, and it writes the RESULT
of the implementation's implicit chunk unification (C17's subject, not modelled) and of the rechunk
inside `sliding_window_view` into the program as explicit `rechunk` steps (counted in
`x2.chunks_from_impl`), so that the aligned operation on top of it is inside the proved model.

Compared exactly as the phase-1 section does: `ex2.eval` (the model's NumPy meaning `den2`) with the
NumPy value of the program, `ex2.chunks` with the real `.chunks`.  `err unsupported` / `err illformed` =
the model declines (`x2.model_declined`), never a disagreement.  Nothing here can raise an alarm by itself:
a mismatch is a model / implementation disagreement handled by core.finish; the failing-input search of
C01 (programs vs NumPy on the real code) is unchanged.
"""
from __future__ import annotations

import numpy as np

from harness import progcheck as PC, programs as P


def corr_requests(ctx, progs, notes_prefix="x2."):
    """[(request, impl_output, program)] for `ex2.eval` / `ex2.chunks` on the given (prog, want) pairs."""
    reqs = []
    stats = {}

    def note(k, n=1):
        ctx.notes[notes_prefix + k] = ctx.notes.get(notes_prefix + k, 0) + n

    for prog, want in progs:
        env, exc = PC.build(prog)
        if exc is not None:
            continue
        x = env[prog[-1]["out"]]
        try:
            if any(np.isnan(c) for ax in x.chunks for c in ax):
                continue
        except Exception:  # noqa: BLE001 - `.chunks` is lazy and may raise (chunk unification); the search's business
            continue
        if np.asarray(want).dtype.kind not in "iub":
            continue
        try:
            shapes = {k: v.shape for k, v in P.run_np(prog).items()}
            tok = PC.encode2(prog, shapes, env, stats)
        except Exception:  # noqa: BLE001 - an unexpected program layout is "outside", never an alarm
            tok = None
        note("programs")
        if tok is None:
            note("outside_mini_language")
            continue
        reqs.append((f"ex2.eval {tok}", "ok " + PC.f_arr(want), prog))
        reqs.append((f"ex2.chunks {tok}", ("ok " + PC._f_ll([list(c) for c in x.chunks])) if x.ndim else "ok -", prog))
    if stats.get("chunks_from_impl"):
        note("chunks_from_impl", stats["chunks_from_impl"])
    return reqs


def derived_requests(ctx):
    """Derived forms that the program DSL has no op for (`swapaxes`, `moveaxis`, `atleast_2d` of a vector =
    one leading axis): the public function on the real code (value vs NumPy is checked here directly, an
    oracle independent of the model) and `ex2.eval` / `ex2.chunks` of the derived form."""
    import warnings

    import dask_array as da

    rng = ctx.rng
    reqs = []
    for _ in range(ctx.scale(40, 400)):
        rank = rng.randint(1, 4)
        shape = [rng.randint(1, 5) for _ in range(rank)]
        st = {"op": "src", "shape": shape, "chunks": [list(c) for c in P.rand_chunks_nd(rng, shape)],
              "mul": rng.choice([1, 3, 7]), "off": rng.randint(-5, 5), "mod": rng.choice([1 << 20, 11]), "out": "v1"}
        data = P.source_data(st)
        src = f"src~{PC._f_l(shape)}~{PC._f_ll(st['chunks'])}~{st['mul']}~{st['off']}~{st['mod']}"
        kind = rng.choice(["swapaxes", "moveaxis", "atleast"])
        with warnings.catch_warnings():
            warnings.simplefilter("ignore")
            x = da.from_array(data, chunks=tuple(tuple(c) for c in st["chunks"]))
            if kind == "swapaxes":
                a, b = rng.randint(-rank, rank - 1), rng.randint(-rank, rank - 1)
                y, want, step = da.swapaxes(x, a, b), np.swapaxes(data, a, b), f"swapaxes~0~{a}~{b}"
            elif kind == "moveaxis":
                a, b = rng.randint(-rank, rank - 1), rng.randint(-rank, rank - 1)
                y, want, step = da.moveaxis(x, a, b), np.moveaxis(data, a, b), f"moveaxis~0~{a}~{b}"
            else:
                if rank > 2:
                    continue
                y, want, step = da.atleast_2d(x), np.atleast_2d(data), "atleast~0~2"
            got = np.asarray(y.compute(scheduler="sync"))
        case = {"kind": kind, "source": st, "step": step}
        ctx.count(("derived", kind, rank))
        if got.shape != want.shape or not np.array_equal(got, want):
            ctx.fail(f"derived:{kind}:differs-from-numpy", case, f"da.{kind} differs from NumPy")
            continue
        tok = f"{src};{step}"
        reqs.append((f"ex2.eval {tok}", "ok " + PC.f_arr(want), case))
        reqs.append((f"ex2.chunks {tok}", "ok " + PC._f_ll([list(c) for c in y.chunks]), case))
    return reqs


def run_ext(ctx, progs):
    """`progs` = the [(program, numpy_value)] list of C01's own model correspondence."""
    reqs = corr_requests(ctx, progs) + derived_requests(ctx)
    if not reqs:
        return
    outs = ctx.driver.run([r for r, _, _ in reqs])
    if all(o == "bad-op" for o in outs):
        ctx.notes["ex2_driver"] = "not available in this build"
        return
    live = []
    by_req = {}
    for (req, impl, prog), out in zip(reqs, outs):
        if out.startswith("err unsupported") or out.startswith("err illformed") or out == "bad-op":
            ctx.notes["x2.model_declined"] = ctx.notes.get("x2.model_declined", 0) + 1
            continue
        live.append((req, impl))
        by_req[req] = prog
    # which of the accepted programs need the second layer (evidence)
    kinds = ctx.driver.run([f"ex2.kind {r.split(' ', 1)[1]}" for r, _ in live if r.startswith("ex2.eval")])
    ctx.notes["x2.programs_using_layer2"] = ctx.notes.get("x2.programs_using_layer2", 0) + sum(1 for k in kinds if k == "ok ext")
    n0 = len(ctx.disagreements)
    ctx.correspond(
        "expr2(den2,chunks2)", live,
        branch_key=lambda req, model: (req.split()[0], req.count(";"), tuple(sorted({s.split("~")[0] for s in req.split()[1].split(";")}))),
    )
    lifted = 0
    for d in ctx.disagreements[n0:]:
        prog = by_req.get(d["request"])
        d["program"] = prog
        # targeted search: lift the disagreeing input to API level (the program on the real code vs NumPy)
        if isinstance(prog, list) and lifted < 20:
            lifted += 1
            want = P.run_np(prog)[prog[-1]["out"]]
            for opt in (True, False):
                f = PC.check_values(ctx, prog, want, opt)
                if f:
                    ctx.fail(f["sig"], {"program": prog, **f}, "program behind a model disagreement differs from NumPy")
    if lifted:
        ctx.notes["targeted_search"] = (
            f"{lifted} disagreeing ex2 programs re-run on the real code (optimized and unoptimized) against NumPy"
        )
    ctx.assumptions.append(
        "phase-3 model correspondence (ex2.*): the result of implicit chunk unification and of the rechunk inside "
        "sliding_window_view is taken from the implementation and written into the model program as explicit rechunk steps"
    )
