"""C04 — layers that emit SEVERAL INTERNAL STAGES under one node, driven into their deepest configuration.

Class of defect: a node whose `_layer()` is assembled from several stages (multi-stage rechunk: split / merge keys per
plan step; tree reductions with several levels; blelloch scans; shuffle with split groups; map_overlap pipeline; reshape
with rechunk; contraction trees; arg-reductions; sliding-window plans; tall-skinny QR / SVD / LU / Cholesky) and the
stages' PRIVATE keys collide: in a dict the later stage silently overwrites the earlier one, the merged graph gets a
dependency cycle, a dangling reference, or a wrong block.  The common inputs (one or two stages, a few blocks) never
show it: the stream below drives every family through its rarely used knobs (threshold=, block_size_limit=,
array.rechunk.degree-limit, array.rechunk.threshold, array.chunk-size, split_every=2 with many blocks, method=, depth >
chunk width) over sources that do not absorb the operation (cumsum, map_blocks, persisted), picks rechunk inputs by the
REAL planner's stage count (>= 3 stages in every run), and checks

* every C04 fact of the merged graph (C04.check_array: closed, acyclic, advertised keys = grid, block shapes, layer
  contract on every node, keys owned by one layer),
* per node, AT THE SOURCE: every task's own key equals the dict key it is stored under; for TasksRechunk the stages are
  rebuilt one by one with the real `_compute_rechunk` exactly as `_layer` does and their key sets must be pairwise
  disjoint, their total must equal the size of the merged layer (an overwrite in the merge is invisible afterwards);
  every `toolz.merge` performed while a node builds its layer is observed: two merged stage dicts never define one key,
* values: blocks under the advertised keys assemble to what NumPy says (executed graph; sync compute for big graphs),
* the Frisky records path of the same collection (`__frisky_graph__`): no dangling dependency, no cycle, one value per
  key, same values.

case = {"kind": "stages", "family": …, "p": {…}, "source": …, "config": {…}, "optimize": bool}
"""
from __future__ import annotations

import itertools
import time

import numpy as np

from harness import graphs

SUFFIX = "@stages"
SOURCES = ("cumsum", "mapb", "persist", "cumsum", "mapb", "src")


# =========================================================================================== helpers

def _data(shape, mul=7, off=3, mod=11, shift=-5):
    n = int(np.prod(shape)) if len(shape) else 1
    return (((np.arange(n, dtype=np.int64) * mul + off) % mod) + shift).reshape(tuple(shape)).astype("float64")


def _dbl(b):
    return b * 2


def _inc(b):
    return b + 1


def _same(got, want):
    try:
        got = np.asarray(got)
        want = np.asarray(want)
    except Exception:
        return False
    if got.dtype == object or got.shape != want.shape:
        return False
    return bool(np.allclose(got.astype("float64"), want.astype("float64"), rtol=1e-9, atol=1e-9, equal_nan=True))


def _show(v):
    try:
        a = np.asarray(v)
        return f"shape {a.shape} {a.ravel()[:8].tolist()!r}"
    except Exception:
        return repr(v)[:120]


def _note(ctx, key, example=None):
    ctx.notes[key] = ctx.notes.get(key, 0) + 1
    if example is not None:
        ctx.notes.setdefault(key + "_example", example)


def _tt(chunks):
    return tuple(tuple(int(c) for c in d) for d in chunks)


def _uniform(n, k):
    k = max(1, int(k))
    return [k] * (n // k) + ([n % k] if n % k else [])


def _irregular(rng, n, maxparts=None):
    parts = []
    left = n
    while left > 0:
        c = rng.randint(1, max(1, min(left, max(2, n // 3))))
        parts.append(c)
        left -= c
        if maxparts and len(parts) >= maxparts - 1 and left:
            parts.append(left)
            break
    return parts


def make_source(kind, data, chunks):
    """(dask array, NumPy value): a source that does NOT absorb a rechunk / slice placed on it (except the control
    'src')."""
    import dask_array as da

    x = da.from_array(data, chunks=_tt(chunks))
    if kind == "cumsum":
        ax = data.ndim - 1
        return x.cumsum(axis=ax), data.cumsum(axis=ax)
    if kind == "mapb":
        return x.map_blocks(_dbl, dtype=data.dtype), data * 2
    if kind == "persist":
        return (x + 1).persist(scheduler="sync"), data + 1
    return x, data


# =========================================================================================== per-node checks at the source

class _MergeWatch:
    """Observe every toolz.merge performed while a layer is built: stage dicts merged into one layer never share a
    key (the later one would silently win)."""

    def __init__(self):
        self.collisions = []

    def __enter__(self):
        import toolz

        self.toolz = toolz
        self.orig = toolz.merge
        orig = self.orig
        watch = self

        def merge(*dicts, **kw):
            try:
                ds = dicts[0] if len(dicts) == 1 and not isinstance(dicts[0], dict) else dicts
                ds = list(ds)
                seen = {}
                for i, d in enumerate(ds):
                    if not isinstance(d, dict):
                        continue
                    for k in d:
                        if k in seen and seen[k] != i and d[k] is not ds[seen[k]][k]:
                            watch.collisions.append((k, seen[k], i))
                        seen[k] = i
                return orig(*ds, **kw)
            except TypeError:
                return orig(*dicts, **kw)

        toolz.merge = merge
        return self

    def __exit__(self, *exc):
        self.toolz.merge = self.orig
        return False


def rechunk_stage_facts(node):
    """TasksRechunk: rebuild the stages one by one exactly as `_layer` does (real plan_rechunk, real _compute_rechunk)
    and compare at the source.  -> (list[(kind, detail)], number of stages)"""
    from dask_array import _rechunk as R

    out = []
    steps = R.plan_rechunk(node.array.chunks, node.chunks, node.array.dtype.itemsize, node.threshold, node.block_size_limit)
    name = node.array.name
    old = node.array.chunks
    stages = []
    for i, c in enumerate(steps):
        level = len(steps) - i - 1
        name, old, layer = R._compute_rechunk(name, old, c, level, node.name)
        stages.append((level, name, dict(layer)))
    total = 0
    owner = {}
    for level, mname, layer in stages:
        total += len(layer)
        for k in layer:
            if k in owner and owner[k] != level:
                out.append(("stage-keys-collide", f"stages {owner[k]} and {level} of the {len(steps)}-stage plan both define {k!r}"))
                break
            owner[k] = level
    merged = node._layer()
    if len(merged) != total and not out:
        out.append(("stage-task-lost", f"the {len(steps)} stages yield {total} tasks, the merged layer holds {len(merged)}"))
    if len(merged) != len(owner):
        out.append(("stage-task-lost", f"the {len(steps)} stages define {len(owner)} distinct keys (of {total} tasks), the merged layer holds {len(merged)}"))
    # each stage's merge keys are the grid of that stage's chunks under ONE name, stage names pairwise distinct
    names = [m for _, m, _ in stages]
    if len(set(names)) != len(names) or (names and names[-1] != node.name):
        out.append(("stage-names", f"stage output names {names} (node {node.name})"))
    return out, len(steps)


def node_facts(x, stats):
    """Facts checked per node of the lowered expression, at the place the layer is built."""
    from dask._task_spec import GraphNode

    out = []
    for node in x._lowered_expr.walk():
        tname = type(node).__name__
        try:
            with _MergeWatch() as w:
                layer = node._layer()
        except Exception:
            continue  # reported by check_array (graph-raises)
        for k, a, b in w.collisions[:1]:
            out.append(("merged-stages-share-a-key", f"layer {tname} {node._name}: stage dicts #{a} and #{b} merged into the layer both define {k!r}"))
        for k, t in layer.items():
            # (a bare TaskRef stored as a value is a reference to ANOTHER key, converted to an Alias: not a task of its own)
            tk = getattr(t, "key", None) if isinstance(t, GraphNode) else None
            if tk is not None and tk != k:
                out.append(("task-stored-under-other-key", f"layer {tname} {node._name}: task with key {tk!r} stored under {k!r}"))
                break
        firsts = {k[0] if isinstance(k, tuple) else k for k in layer}
        stats["max_private_prefixes"] = max(stats.get("max_private_prefixes", 0), len(firsts))
        if tname == "TasksRechunk":
            facts, ns = rechunk_stage_facts(node)
            stats["max_rechunk_stages"] = max(stats.get("max_rechunk_stages", 0), ns)
            stats["rechunk_nodes_ge3_stages"] = stats.get("rechunk_nodes_ge3_stages", 0) + (ns >= 3)
            out += [(k, f"layer {tname} {node._name} {node.array.chunks} -> {node.chunks}: {d}") for k, d in facts]
    return out


def records_facts(x, want):
    """Frisky records path of the same collection.  -> list[(kind, detail)] or None when declined."""
    from harness.props import C21

    try:
        recs = x.__frisky_graph__()
        outkeys = list(x.__frisky_output_keys__())
    except NotImplementedError:
        return None
    values, problems, dup = C21.exec_records(recs)
    out = []
    for kind, detail in problems:
        if kind in ("dangling-dependency", "records-cycle", "duplicate-key-different-values", "malformed-record"):
            out.append(("records:" + kind, detail))
        else:
            return out or None  # task-raises etc.: not the graph's structure
    if out or want is None:
        return out
    miss = [k for k in outkeys if k not in values]
    if miss:
        out.append(("records:output-key-undefined", f"{miss[:2]} ({len(miss)})"))
    return out


# =========================================================================================== families

def _cfg(case):
    c = {"array.optimize-graph": bool(case["optimize"])}
    c.update(case.get("config") or {})
    return c


def build(case):
    """-> (dask collection, NumPy value or None)"""
    import dask_array as da

    fam = case["family"]
    p = case["p"]
    data = _data(p["shape"], mul=p.get("mul", 7))
    if fam in ("qr", "svd", "lu", "cholesky"):
        rs = np.random.RandomState(p.get("mul", 7))
        data = rs.rand(*p["shape"]) + (np.eye(p["shape"][0]) * p["shape"][0] if fam in ("cholesky", "lu") else 0)
        if fam == "cholesky":
            data = data @ data.T + np.eye(p["shape"][0])
    src = case["source"]
    if fam == "reduce" and "arg" in p["op"]:
        # tie-free data: flat arg-reductions resolve ties in block order, not C order (known finding
        # `reduction:arg-ravel:tie-not-first-in-C-order`, C18) — with distinct values NumPy's answer is the only one
        n = int(np.prod(p["shape"]))
        data = (((np.arange(n, dtype=np.int64) * 37) % 211) - 100).reshape(tuple(p["shape"])).astype("float64")
        src = "mapb" if src == "cumsum" else src  # (a running sum of distinct values need not be distinct)
    x, v = make_source(src, data, p["chunks"])
    if fam == "rechunk":
        kw = {}
        if p.get("threshold"):
            kw["threshold"] = p["threshold"]
        if p.get("limit"):
            kw["block_size_limit"] = p["limit"]
        if p.get("method"):
            kw["method"] = p["method"]
        if p.get("balance"):
            kw["balance"] = True
        new = _tt(p["new"]) if not p.get("new_sizes") else tuple(p["new_sizes"])
        y = x.rechunk(new, **kw)
        post = p.get("post")
        if post == "sum":
            return y.sum(axis=0), v.sum(axis=0)
        if post == "T":
            return y.T, v.T
        if post == "add":
            return y + 1, v + 1
        if post == "rechunk2":
            return y.rechunk(_tt(p["chunks"]), **kw), v
        return y, v
    if fam == "reduce":
        op = p["op"]
        axis = p.get("axis")
        axis = tuple(axis) if isinstance(axis, list) else axis
        kw = dict(axis=axis, split_every=p.get("split_every"))
        if op in ("argmax", "argmin", "nanargmax", "nanargmin"):
            if isinstance(axis, tuple):
                kw["axis"] = axis = axis[0]
            return getattr(da, op)(x, **kw), getattr(np, op)(v, axis=axis)
        if p.get("keepdims"):
            kw["keepdims"] = True
        return getattr(da, op)(x, **kw), getattr(np, op)(v, axis=axis, keepdims=bool(p.get("keepdims")))
    if fam == "topk":
        k = p["k"]
        f = da.argtopk if p.get("arg") else da.topk
        y = f(x, k, axis=p["axis"], split_every=p.get("split_every"))
        if p.get("arg"):
            return y, None  # ties: structure only
        s = np.sort(v, axis=p["axis"])
        s = np.flip(s, axis=p["axis"]) if k > 0 else s
        return y, np.take(s, range(abs(k)), axis=p["axis"])
    if fam == "cumulative":
        op = p["op"]
        return getattr(da, op)(x, axis=p["axis"], method=p["method"]), getattr(np, op)(v, axis=p["axis"])
    if fam == "shuffle":
        idx = [list(g) for g in p["indexer"]]
        y = da.shuffle(x, idx, axis=p["axis"]) if not p.get("take") else da.take(x, [i for g in idx for i in g], axis=p["axis"])
        return y, np.take(v, [i for g in idx for i in g], axis=p["axis"])
    if fam == "overlap":
        depth = p["depth"] if not isinstance(p["depth"], dict) else {int(k): d for k, d in p["depth"].items()}
        y = da.map_overlap(_inc, x, depth=depth, boundary=p["boundary"], trim=True, dtype=v.dtype,
                           allow_rechunk=True)
        return y, v + 1
    if fam == "reshape":
        y = x.reshape(tuple(p["to"]), merge_chunks=bool(p.get("merge_chunks", True)))
        return y, v.reshape(tuple(p["to"]))
    if fam == "contract":
        how = p["how"]
        if how == "matmul":
            return x @ x.T, v @ v.T
        if how == "tensordot":
            return da.tensordot(x, x.T, axes=1), np.tensordot(v, v.T, axes=1)
        if how == "dot":
            return da.dot(x.T, x), np.dot(v.T, v)
        if how == "einsum":
            return da.einsum("ij,kj->ik", x, x), np.einsum("ij,kj->ik", v, v)
        if how == "vdot":
            return da.vdot(x, x), np.vdot(v, v)
        if how == "outer_sum":
            return da.einsum("ij,ij->", x, x), np.einsum("ij,ij->", v, v)
    if fam == "swv":
        w = da.sliding_window_view(x, p["window"], axis=p["axis"])
        wv = np.lib.stride_tricks.sliding_window_view(v, p["window"], axis=p["axis"])
        return getattr(w, p["op"])(axis=-1), getattr(wv, p["op"])(axis=-1)
    if fam == "qr":
        q, r = da.linalg.qr(x)
        return (q if p.get("part") == "q" else r), None
    if fam == "svd":
        u, s, vt = da.linalg.svd(x)
        return s, np.linalg.svd(v, compute_uv=False)
    if fam == "lu":
        pp, l, u = da.linalg.lu(x)
        return (l if p.get("part") == "l" else u), None
    if fam == "cholesky":
        return da.linalg.cholesky(x, lower=True), np.linalg.cholesky(v)
    if fam == "hist":
        if p["how"] == "bincount":
            xi = x.astype("int64")
            vi = v.astype("int64")
            off = int(vi.min())
            return da.bincount((xi - off).ravel(), minlength=4, split_every=p.get("split_every")), np.bincount((vi - off).ravel(), minlength=4)
        if p["how"] == "histogram":
            h, _ = da.histogram(x, bins=5, range=(float(v.min()), float(v.max()) + 1))
            return h, np.histogram(v, bins=5, range=(float(v.min()), float(v.max()) + 1))[0]
        if p["how"] == "median":
            return da.median(x, axis=0), np.median(v, axis=0)
        if p["how"] == "percentile":
            return da.percentile(x.ravel(), [25, 50], internal_method="dask"), None
    raise KeyError(fam)


# ------------------------------------------------------------------------------------------- generators

def real_plan_len(old, new, itemsize, threshold, limit, config):
    import dask
    from dask_array import _rechunk as R

    with dask.config.set(config or {}):
        try:
            return len(R.plan_rechunk(_tt(old), _tt(new), itemsize, threshold, limit))
        except Exception:
            return 0


def _plan_splits_twice(old, new, threshold, limit, config):
    """number of intermediate (level != 0) stages of the real plan that slice blocks"""
    import dask
    from dask_array import _rechunk as R

    with dask.config.set(config or {}):
        try:
            steps = R.plan_rechunk(_tt(old), _tt(new), 8, threshold, limit)
        except Exception:
            return 0, 0
    n = 0
    prev = _tt(old)
    for c in steps[:-1]:
        # a stage slices iff some new boundary falls inside an old block
        for o, nw in zip(prev, c):
            bo = set(itertools.accumulate(o))
            if any(b not in bo for b in itertools.accumulate(nw)):
                n += 1
                break
        prev = c
    return len(steps), n


def gen_rechunk(rng, flavour=None):
    """Candidates are scored by the REAL planner: the one with the most stages (ties: most slicing intermediate
    stages) of a handful is taken, so every run holds plans with >= 3 stages."""
    flavour = flavour or rng.choice(("transpose", "transpose", "random2d", "3d", "degree1d", "degree2d", "config"))
    best = None
    for _ in range(8):
        config = {}
        threshold = rng.choice((1, 2, 2, 3, 4))
        if flavour == "transpose":
            n = rng.choice((12, 16, 20, 20, 24))
            m = rng.choice((n, n, n + 4, n // 2))
            k = rng.choice((1, 1, 2))
            old, new, shape = [_uniform(n, k), [m]], [[n], _uniform(m, k)], [n, m]
            if rng.random() < 0.5:
                old, new = new, old
            limit = 8 * rng.choice((n, 2 * n, 3 * n, 4 * n, m * 2))
        elif flavour == "random2d":
            n, m = rng.randint(8, 20), rng.randint(8, 20)
            shape = [n, m]
            old = [_irregular(rng, n) if rng.random() < 0.5 else _uniform(n, rng.randint(1, 3)), [m] if rng.random() < 0.5 else _uniform(m, rng.randint(4, m))]
            new = [[n] if rng.random() < 0.6 else _uniform(n, rng.randint(4, n)), _irregular(rng, m) if rng.random() < 0.5 else _uniform(m, rng.randint(1, 3))]
            limit = 8 * rng.choice((max(n, m), 2 * max(n, m), 40, 64))
        elif flavour == "3d":
            n, m, q = rng.choice((6, 8, 10)), rng.choice((6, 8, 10)), rng.choice((2, 3, 4))
            shape = [n, m, q]
            old = [_uniform(n, 1), [m], _uniform(q, rng.choice((1, q)))]
            new = [[n], _uniform(m, 1), _uniform(q, rng.choice((1, q)))]
            if rng.random() < 0.5:
                old, new = new, old
            limit = 8 * rng.choice((n * q, 2 * n * q, 2 * n, 4 * n))
        elif flavour == "degree1d":
            n = rng.randint(24, 48)
            shape = [n]
            old = _uniform(n, rng.choice((1, 2, 3))) if rng.random() < 0.6 else _irregular(rng, n)
            new = rng.choice(([n], _uniform(n, rng.choice((7, 11, 13, n // 2))), _uniform(n, rng.choice((1, 2, 5)))))
            old, new = [old], [new]
            if rng.random() < 0.4:
                old, new = new, old
            config = {"array.rechunk.degree-limit": rng.choice((2, 2, 3, 4))}
            threshold, limit = None, None
        elif flavour == "degree2d":
            n, m = rng.randint(8, 16), rng.randint(8, 16)
            shape = [n, m]
            old = [_uniform(n, rng.choice((1, 2, 3))), _uniform(m, rng.choice((1, 2, m)))]
            new = [[n] if rng.random() < 0.5 else _uniform(n, rng.choice((5, 7))), _uniform(m, rng.choice((1, 3, 5, m)))]
            config = {"array.rechunk.degree-limit": rng.choice((2, 3, 4))}
            limit = rng.choice((None, 8 * 2 * max(n, m)))
            threshold = rng.choice((None, 2))
        else:  # the knobs through the configuration: also reaches rechunks inserted by lowering
            n = rng.choice((12, 16, 20))
            shape = [n, n]
            old, new = [_uniform(n, 1), [n]], [[n], _uniform(n, 1)]
            config = {"array.rechunk.threshold": rng.choice((1, 2, 3, 4)), "array.chunk-size": f"{8 * n * rng.choice((1, 2, 3))}B"}
            if rng.random() < 0.4:
                config["array.rechunk.degree-limit"] = rng.choice((2, 3, 5))
            threshold, limit = None, None
        if old == new:
            continue
        ns, nsplit = _plan_splits_twice(old, new, threshold, limit, config)
        cand = ((ns, nsplit), dict(shape=shape, chunks=old, new=new, threshold=threshold, limit=limit), config)
        if best is None or cand[0] > best[0]:
            best = cand
        if ns >= 3 and nsplit >= 2 and rng.random() < 0.6:
            break
    (ns, nsplit), p, config = best
    p["stages"] = ns
    p["mul"] = rng.choice((7, 5, 3))
    p["post"] = rng.choice((None, None, None, "sum", "T", "add", "rechunk2"))
    if rng.random() < 0.15:
        p["method"] = "tasks"
    source = rng.choice(SOURCES)
    if len(p["shape"]) == 1 and source == "cumsum" and rng.random() < 0.5:
        source = "mapb"
    return {"kind": "stages", "family": "rechunk", "flavour": flavour, "p": p, "source": source, "config": config}


REDUCE_OPS = ("sum", "mean", "var", "std", "max", "min", "prod", "any", "all", "nansum", "nanmean", "nanmax", "argmax", "argmin",
              "nanargmax", "nanargmin")


def gen_other(rng, family=None):
    fam = family or rng.choice(("reduce", "reduce", "reduce", "topk", "cumulative", "cumulative", "shuffle", "shuffle", "overlap", "overlap",
                                "reshape", "reshape", "contract", "contract", "swv", "qr", "svd", "hist"))
    config = {}
    source = rng.choice(SOURCES)
    if fam == "reduce":
        nd = rng.choice((1, 2, 2, 3))
        if nd == 1:
            shape = [rng.randint(17, 40)]
            chunks = [_uniform(shape[0], rng.choice((1, 1, 2)))]
        elif nd == 2:
            shape = [rng.randint(6, 12), rng.randint(6, 12)]
            chunks = [_uniform(shape[0], rng.choice((1, 2))), _uniform(shape[1], rng.choice((1, 2, 3)))]
        else:
            shape = [rng.randint(4, 6), rng.randint(4, 6), rng.randint(2, 4)]
            chunks = [_uniform(s, 1) for s in shape]
        op = rng.choice(REDUCE_OPS)
        axes = [None] + list(range(nd)) + ([[0, 1]] if nd >= 2 else [])
        axis = rng.choice(axes)
        if op.startswith(("arg", "nanarg")) and isinstance(axis, list):
            axis = 0
        se = rng.choice((2, 2, 2, 3, None))
        if se is None:
            config = {"split_every": 2}
        elif nd >= 2 and rng.random() < 0.3:
            se = {str(0): 2, str(1): 2}  # json-safe; converted below
        p = dict(shape=shape, chunks=chunks, op=op, axis=axis, split_every=se, keepdims=rng.random() < 0.25)
        if isinstance(se, dict):
            p["split_every"] = 2
    elif fam == "topk":
        n = rng.randint(16, 30)
        shape = [rng.choice((3, 4)), n]
        chunks = [[shape[0]], _uniform(n, rng.choice((1, 2, 3)))]
        p = dict(shape=shape, chunks=chunks, k=rng.choice((1, 2, 3, -2)), axis=1, split_every=rng.choice((2, 2, 3)), arg=rng.random() < 0.3, mul=13)
    elif fam == "cumulative":
        nd = rng.choice((1, 2))
        shape = [rng.randint(12, 30)] if nd == 1 else [rng.randint(8, 16), rng.randint(3, 6)]
        chunks = [_uniform(shape[0], rng.choice((1, 2, 3)))] + ([_uniform(shape[1], rng.choice((1, 2, shape[1])))] if nd == 2 else [])
        p = dict(shape=shape, chunks=chunks, op=rng.choice(("cumsum", "cumsum", "cumprod", "nancumsum")), axis=0,
                 method=rng.choice(("blelloch", "blelloch", "sequential")))
        if p["op"] == "cumprod":
            p["mul"] = 2
    elif fam == "shuffle":
        n = rng.randint(10, 24)
        shape = [rng.choice((3, 4, 6)), n]
        chunks = [_uniform(shape[0], rng.choice((1, 2, shape[0]))), _uniform(n, rng.choice((1, 2, 3, 5)))]
        perm = list(range(n))
        rng.shuffle(perm)
        if rng.random() < 0.4:
            perm = perm + rng.sample(perm, rng.randint(1, n // 2))  # repeated indices
        gs = rng.choice((1, 2, 3, 7, len(perm)))
        idx = [perm[i:i + gs] for i in range(0, len(perm), gs)]
        p = dict(shape=shape, chunks=chunks, indexer=idx, axis=1, take=rng.random() < 0.35)
        if rng.random() < 0.5:
            config = {"array.chunk-size": rng.choice(("64B", "128B", "256B")), "array.chunk-size-tolerance": rng.choice((1.0, 1.25, 2.0))}
    elif fam == "overlap":
        nd = rng.choice((1, 2))
        shape = [rng.randint(12, 24)] if nd == 1 else [rng.randint(8, 14), rng.randint(8, 14)]
        chunks = [_uniform(s, rng.choice((1, 2, 3, 4))) for s in shape]
        depth = rng.choice((1, 2, 3, 5))
        if nd == 2 and rng.random() < 0.5:
            depth = {"0": depth, "1": rng.choice((0, 1, 4))}
        p = dict(shape=shape, chunks=chunks, depth=depth, boundary=rng.choice(("reflect", "periodic", "nearest", "none", 0)))
        if rng.random() < 0.4:
            config = {"array.rechunk.threshold": rng.choice((1, 2)), "array.chunk-size": "128B", "array.rechunk.degree-limit": rng.choice((2, 3, 1000))}
    elif fam == "reshape":
        a, b, c = rng.choice((4, 6, 8)), rng.choice((3, 4, 6)), rng.choice((2, 4, 5))
        form = rng.choice(("merge", "split", "both", "flat"))
        if form == "merge":
            shape, to = [a, b, c], [a * b, c]
        elif form == "split":
            shape, to = [a * b, c], [a, b, c]
        elif form == "both":
            shape, to = [a, b * c], [a * b, c]
        else:
            shape, to = [a, b, c], [a * b * c]
        chunks = [_uniform(s, rng.choice((1, 2, 3, s))) for s in shape]
        p = dict(shape=shape, chunks=chunks, to=to, merge_chunks=rng.random() < 0.6)
        if rng.random() < 0.6:
            config = {"array.rechunk.threshold": rng.choice((1, 2, 4)), "array.chunk-size": rng.choice(("64B", "128B", "256B")),
                      "array.rechunk.degree-limit": rng.choice((2, 3, 1000))}
    elif fam == "contract":
        n, m = rng.randint(4, 8), rng.randint(8, 16)
        shape = [n, m]
        chunks = [_uniform(n, rng.choice((1, 2, n))), _uniform(m, rng.choice((1, 2, 3)))]
        p = dict(shape=shape, chunks=chunks, how=rng.choice(("matmul", "tensordot", "dot", "einsum", "vdot", "outer_sum")))
        config = {"split_every": rng.choice((2, 2, 3))}
    elif fam == "swv":
        n = rng.randint(12, 24)
        shape = [rng.choice((2, 3)), n]
        chunks = [[shape[0]], _uniform(n, rng.choice((2, 3, 4)))]
        p = dict(shape=shape, chunks=chunks, window=rng.choice((2, 3, 5)), axis=1, op=rng.choice(("sum", "max", "mean", "min")))
    elif fam in ("qr", "svd"):
        m, n = rng.choice((12, 16, 20, 24)), rng.choice((2, 3))
        shape = [m, n]
        chunks = [_uniform(m, rng.choice((n, n + 1, 4))), [n]]
        p = dict(shape=shape, chunks=chunks, part=rng.choice(("q", "r")), mul=rng.randint(1, 50))
        source = rng.choice(("mapb", "src", "persist"))
    elif fam in ("lu", "cholesky"):
        n = rng.choice((6, 8, 9, 12))
        k = rng.choice((2, 3)) if n % 3 == 0 else 2
        shape = [n, n]
        chunks = [_uniform(n, k), _uniform(n, k)]
        p = dict(shape=shape, chunks=chunks, part=rng.choice(("l", "u")), mul=rng.randint(1, 50))
        source = "src"
    else:
        n = rng.randint(16, 32)
        how = rng.choice(("bincount", "histogram", "median", "percentile"))
        shape = [n] if how != "median" else [n, 3]
        chunks = [_uniform(n, rng.choice((1, 2, 3)))] + ([[3]] if how == "median" else [])
        p = dict(shape=shape, chunks=chunks, how=how, split_every=2)
        config = {"split_every": 2}
        if how != "median" and source == "cumsum":
            source = "mapb"
    return {"kind": "stages", "family": fam, "p": p, "source": source, "config": config}


# =========================================================================================== one case

def run_case(ctx, case, count=True):
    """-> list[(signature, detail)] or None (construction refused)"""
    import dask

    from harness.props import C04

    fails = []
    label = describe(case)
    stats = {}
    with dask.config.set(_cfg(case)):
        try:
            y, want = build(case)
        except NotImplementedError:
            if count:
                _note(ctx, "stages_refused_at_construction")
            return None
        except Exception as e:  # noqa: BLE001 — raising while the program is BUILT is not a statement about graphs
            if count:
                _note(ctx, "stages_construction_raised", f"{type(e).__name__}: {str(e)[:100]} :: {label}")
            return None
        try:
            info = {}
            bad, nl, nt = C04.check_array(y, label, info=info)
            fails += [(s + SUFFIX, d) for s, d in bad]
            for kind, detail in node_facts(y, stats):
                fails.append((kind + SUFFIX, f"{label}: {detail}"))
            if count:
                ctx.notes["stages_layers_monitored"] = ctx.notes.get("stages_layers_monitored", 0) + nl
                ctx.notes["stages_tasks_checked"] = ctx.notes.get("stages_tasks_checked", 0) + nt
                for k, v in stats.items():
                    if k.startswith("max_"):
                        ctx.notes["stages_" + k] = max(ctx.notes.get("stages_" + k, 0), v)
                    else:
                        ctx.notes["stages_" + k] = ctx.notes.get("stages_" + k, 0) + v
                kinds = tuple(sorted({type(n).__name__ for n in y._lowered_expr.walk()}))
                ctx.count(("stages", case["family"], case.get("flavour") or case["p"].get("op") or case["p"].get("how"),
                           min(stats.get("max_rechunk_stages", 0), 4), case["optimize"], kinds if len(kinds) < 6 else len(kinds)))
            if not fails and want is not None:
                got = None
                if info.get("execute_error") is not None:
                    e = info["execute_error"]
                    if count:
                        _note(ctx, "stages_task_raised_at_runtime", f"{type(e).__name__}: {str(e)[:100]} :: {label}")
                elif info.get("values") is not None:
                    try:
                        got = graphs.assemble(y, info["values"])
                    except Exception as e:  # noqa: BLE001
                        if count:
                            _note(ctx, "stages_assemble_raised", f"{type(e).__name__}: {str(e)[:100]} :: {label}")
                else:
                    try:
                        got = y.compute(scheduler="sync")
                    except Exception as e:  # noqa: BLE001
                        if count:
                            _note(ctx, "stages_task_raised_at_runtime", f"{type(e).__name__}: {str(e)[:100]} :: {label}")
                if got is not None and not _same(got, want):
                    fails.append(("advertised-keys-wrong-value" + SUFFIX,
                                  f"{label}: blocks under the advertised keys assemble to {_show(got)}, NumPy says {_show(want)}"))
            if case.get("records") and nt <= 700:
                rf = records_facts(y, want)
                if rf is None:
                    if count:
                        _note(ctx, "stages_records_declined_or_runtime")
                else:
                    if count:
                        _note(ctx, "stages_records_checked")
                    fails += [(k + SUFFIX, f"{label}: __frisky_graph__: {d}") for k, d in rf]
        except NotImplementedError:
            if count:
                _note(ctx, "stages_refused_later")
        except Exception as e:  # noqa: BLE001
            msg = f"{type(e).__name__}: {e}"
            fails.append((f"graph-raises:{type(e).__name__}" + SUFFIX, f"{label}: building/inspecting the graph raised {msg[:300]}"))
    return fails


def describe(case):
    p = case["p"]
    extra = {k: v for k, v in p.items() if k not in ("shape", "chunks", "mul", "indexer", "stages")}
    return (f"{case['family']}({case['source']} source shape={tuple(p['shape'])} chunks={_tt(p['chunks'])} {extra}) "
            f"config={case.get('config') or {}} optimize-graph={case['optimize']}")


def shrink(case, still):
    cur = case
    for change in ({"records": False}, {"config": {}},):
        c = dict(cur, **change)
        try:
            if c != cur and still(c):
                cur = c
        except Exception:
            pass
    if cur["source"] != "src":
        for src in ("src", "mapb"):
            c = dict(cur, source=src)
            try:
                if c != cur and still(c):
                    cur = c
                    break
            except Exception:
                pass
    p = dict(cur["p"])
    for k in ("post", "method", "keepdims", "balance"):
        if p.get(k):
            c = dict(cur, p={**p, k: None})
            try:
                if still(c):
                    cur, p = c, dict(c["p"])
            except Exception:
                pass
    return cur


# =========================================================================================== stream

# (lu / cholesky / solve need scipy, which this environment does not have: their layers cannot be executed here)
GRID_FAMILIES = ("reduce", "reduce", "topk", "cumulative", "cumulative", "shuffle", "overlap", "overlap", "reshape", "contract", "swv", "qr", "svd", "hist")
GRID_RECHUNK = ("transpose", "transpose", "random2d", "3d", "degree1d", "degree2d", "config")


def run_stream(ctx):
    rng = ctx.rng
    t0 = time.time()
    budget = ctx.scale(8, 120)
    per_sig = {}
    grid = [gen_rechunk(rng, f) for f in GRID_RECHUNK]
    # the seed-independent anchor of the class: a transpose-style rechunk whose plan has >= 3 stages (searched, not fixed)
    for src in ("cumsum", "mapb", "persist"):
        g = gen_rechunk(rng, "transpose")
        g["source"] = src
        g["p"]["post"] = None
        grid.append(g)
    grid += [gen_other(rng, f) for f in GRID_FAMILIES]
    nrand = ctx.scale(110, 2500)
    done = 0
    deep = 0
    for i in range(len(grid) + nrand):
        if time.time() - t0 > budget:
            ctx.notes["stages_stopped_early_at"] = i
            break
        base = grid[i] if i < len(grid) else (gen_rechunk(rng) if rng.random() < 0.45 else gen_other(rng))
        base["records"] = (i % 3 == 0)
        deep += base["p"].get("stages", 0) >= 3
        for opt in (True, False):
            case = dict(base, optimize=opt)
            fails = run_case(ctx, case)
            if fails is None:
                break
            done += 1
            if i in (0, len(GRID_RECHUNK) + 3) and opt:
                ctx.sample({k: v for k, v in case.items()})
            seen = set()
            for sig, detail in fails:
                if sig in seen:
                    continue
                seen.add(sig)
                per_sig[sig] = per_sig.get(sig, 0) + 1
                if per_sig[sig] > 2:
                    _note(ctx, "stages_more_failing_cases")
                    continue
                small = case
                try:
                    def still(c, sig=sig):
                        f = run_case(ctx, c, count=False)
                        return bool(f) and any(s == sig for s, _ in f)

                    small = shrink(case, still)
                    f2 = run_case(ctx, small, count=False)
                    detail = next((d for s, d in (f2 or []) if s == sig), detail)
                except Exception:
                    small = case
                ctx.fail(sig, small, detail)
    ctx.notes["stages_cases"] = done
    ctx.notes["stages_grid"] = len(grid)
    ctx.notes["stages_rechunk_cases_with_ge3_stage_plan"] = deep
    ctx.notes["stages_seconds"] = round(time.time() - t0, 1)


def replay(ctx, case):
    for sig, detail in run_case(ctx, case) or []:
        ctx.fail(sig, case, detail)
