"""C12 extension — the take / shuffle / point-wise (`vindex`) pipeline (`shf.*`).

Target code: `dask_array/_shuffle.py` (`Shuffle._layer`, `_new_chunks`, `_shuffle`), `dask_array/slicing/_vindex.py`
(`_vindex`, `_vindex_array`, `_compute_indexer`, `VIndexArray._layer`), `take` in `dask_array/slicing/_basic.py`.
Model: lean/DaskArrayModel/Model/Shuffle.lean, Model/Vindex.lean; line protocol: Drv/Shuffle.lean (family `shf.`).

`run(ctx)`:
(1) CORRESPONDENCE (`ctx.correspond("shf", …)`), the model's executable definitions vs the REAL graph layers:
    shf.plan    one output chunk of the REAL `Shuffle._layer()` (1-D and n-D, shuffle axis anywhere): the sorter data node,
                the `_getitem` pieces (source block, offsets of the taker data node) in merge order, merged flag, and
                argsort(sorter); n-D: every other-axes block tuple must carry the same pieces and the same other-axes
                coordinates on input and output keys (otherwise the implementation side reads `nd-keys-inconsistent`);
    shf.layer   `_shuffle`'s identity test (`ok id`) and, when NumPy's argsort happens to be the stable one on every chunk,
                the whole plan;
    shf.eval    `_shuffle(x.expr, indexer, 0, …)` computed block by block + the advertised chunks;
    shf.take    `x[list]` block by block / `err IndexError`;
    shf.vnorm   the normalised index arrays read from the real expression (VIndexArray.dict_indexes / Shuffle.indexer);
    shf.vlayer  the `vindex-slice` / `vindex-merge` tasks of the REAL `VIndexArray._layer()`;
    shf.vpoints block / in-block offset per point and axis, reconstructed from the same real layer;
    shf.veval   `d.vindex[i0, …]` (k = ndim index arrays, k = 1 and k >= 2) values per advertised chunk.
(2) SEARCH on the public API with NumPy as oracle (`ctx.fail` only when the real result differs from NumPy, the call
    refuses where NumPy succeeds, or accepts where NumPy raises): `da.take`, `x[..., idx, ...]`, `x.shuffle`, `x.vindex[...]`
    on 1-3-D arrays, index lists / arrays of every integer dtype, negative / repeated / unsorted / empty / length-1 / full
    arange, irregular chunks with zero-length chunks, tiny `array.chunk-size`, broadcasting index arrays with slices and
    integers mixed in, out-of-bounds; optimizer on and off; values, shape, dtype, chunks, every block's shape.
(3) counts per explored class, samples.

Every case dict carries `"shf": 1` (replay marker); `replay(ctx, case)` re-runs one case.
"""
from __future__ import annotations

import itertools
import math
import warnings

import numpy as np

from harness.core import f_list, f_ll

FAM = "shf"
SIG_VINDEX_MULTI = "vindex:multi-array-multi-block"   # listed in known_findings.json (C12)

INT_DTYPES = ["int8", "int16", "int32", "int64", "uint8", "uint16", "uint32", "uint64"]


def _note(ctx, k, n=1):
    ctx.notes["shf." + k] = ctx.notes.get("shf." + k, 0) + n


# ------------------------------------------------------------------------------ small generators


def rand_chunks(rng, maxparts=4, maxc=5, zero=0.2, minsum=1):
    for _ in range(50):
        k = rng.randint(1, maxparts)
        cs = [0 if rng.random() < zero else rng.randint(1, maxc) for _ in range(k)]
        if sum(cs) >= minsum:
            return cs
    return [max(1, minsum)]


def rand_positions(rng, n, length, style=None):
    """in-bounds positions on an axis of n >= 1 elements"""
    style = style or rng.choice(["rand", "rand", "rep", "sorted", "rev", "runs"])
    if style == "rand":
        return [rng.randrange(n) for _ in range(length)]
    if style == "rep":
        pool = [rng.randrange(n) for _ in range(max(1, length // 3))]
        return [rng.choice(pool) for _ in range(length)]
    if style == "sorted":
        return sorted(rng.randrange(n) for _ in range(length))
    if style == "rev":
        return sorted((rng.randrange(n) for _ in range(length)), reverse=True)
    out = []
    while len(out) < length:                      # runs of consecutive positions (np.repeat-like patterns)
        a = rng.randrange(n)
        out.extend(range(a, min(n, a + rng.randint(1, 4))))
    return out[:length]


def rand_indexer(rng, cs, empty=0.15, long=0.25):
    n, mx = sum(cs), max(cs)
    groups = []
    for _ in range(rng.randint(1, 5)):
        r = rng.random()
        if r < empty:
            groups.append([])
        elif r < empty + long:
            groups.append(rand_positions(rng, n, rng.randint(mx + 1, 2 * mx + 3)))
        else:
            groups.append(rand_positions(rng, n, rng.randint(1, max(1, mx))))
    if not any(groups):
        groups.append(rand_positions(rng, n, rng.randint(1, mx)))
    return groups


def identity_indexer(cs):
    out, a = [], 0
    for c in cs:
        out.append(list(range(a, a + c)))
        a += c
    return out


# ------------------------------------------------------------------------------ reading the real layers


def _fname(t):
    return getattr(getattr(t, "func", None), "__name__", "")


def find_node(expr, cls):
    for n in expr.walk():
        if isinstance(n, cls):
            return n
    return None


def read_shuffle_plans(sh):
    """Per output chunk of the REAL `Shuffle._layer()`: (taker, sorter, pieces [(c, offsets)], merged, consistent)."""
    lay = sh._layer()
    axis = sh.axis
    chunks = sh.array.chunks
    inname = sh.array._name
    others = list(itertools.product(*(range(len(c)) for i, c in enumerate(chunks) if i != axis)))
    plans = []

    def piece(g, ct):
        ok = _fname(g) == "_getitem" and len(g.args) == 2
        inkey = g.args[0].key
        coords = tuple(int(v) for v in inkey[1:])
        ok = ok and inkey[0] == inname and coords[:axis] + coords[axis + 1:] == tuple(ct)
        sl = lay[g.args[1].key].value
        ok = ok and sl[0] == 1 and len(sl[1]) == len(chunks)
        ok = ok and all(s == slice(None) for i, s in enumerate(sl[1]) if i != axis)
        offs = np.asarray(sl[1][axis])
        return (coords[axis], [int(v) for v in offs.tolist()], str(offs.dtype)), ok

    for i, taker in enumerate(sh._new_chunks):
        seen = None
        consistent = True
        for ct in others:
            key = (sh._name,) + tuple(ct[:axis]) + (i,) + tuple(ct[axis:])
            t = lay[key]
            if _fname(t) == "concatenate_arrays":
                lst, sref, ax = t.args
                sv = lay[sref.key].value
                sorter = [int(v) for v in np.asarray(sv[1]).tolist()]
                ok = sv[0] == 1 and int(ax) == axis
                pieces = []
                for r in lst.args:
                    p, okp = piece(lay[r.key], ct)
                    pieces.append(p)
                    ok = ok and okp
                cur = (sorter, pieces, 1)
            else:
                p, ok = piece(t, ct)
                # the sorter is not referenced by the single task: recompute it exactly as the code does
                sorter = [int(v) for v in np.argsort(np.array(taker)).tolist()]
                cur = (sorter, [p], 0)
            consistent = consistent and ok
            if seen is None:
                seen = cur
            elif cur != seen:
                consistent = False
        plans.append((list(taker), seen, consistent))
    return plans


def fmt_pieces(pieces):
    return "-" if not pieces else "+".join(f"{c}:{f_list(o)}" for c, o, _ in pieces)


def fmt_plan(sep, plan):
    sorter, pieces, merged = plan
    inv = np.argsort(np.array(sorter, dtype=np.int64), kind="stable").tolist()
    return sep.join([f_list(sorter), fmt_pieces(pieces), str(merged), f_list(inv)])


def compute_blocks(y):
    """every output block of a 1-D collection computed through its own key"""
    import dask
    from dask.core import flatten

    keys = list(flatten(y.__dask_keys__()))
    with dask.config.set(scheduler="sync"), warnings.catch_warnings():
        warnings.simplefilter("ignore")
        vals = dask.get(dict(y.__dask_graph__()), keys)
    return [np.asarray(v) for v in vals]


def fmt_blocks(y):
    blocks = compute_blocks(y)
    if any(b.ndim != 1 for b in blocks):
        return "not-1d"
    return f"ok {f_ll([b.tolist() for b in blocks])} {f_list(y.chunks[0])}"


def read_vindex_groups(v):
    """The `vindex-slice` tasks of the REAL `VIndexArray._layer()` (all axes indexed: one `other_blocks` tuple):
    [(outblock, input block coords, [(location, in-block point)])] in task order."""
    lay = v._layer()
    name = v._name
    slice_tasks = {}
    merges = {}
    for k, t in lay.items():
        if _fname(t) == "_vindex_slice_and_transpose":
            slice_tasks[k] = t
        elif _fname(t) == "_vindex_merge":
            merges[k] = t
        else:
            raise ValueError(f"unexpected task {k!r}")
    owner = {}
    for mk, t in merges.items():
        if mk[0] != name or len(mk) != 2:
            raise ValueError(f"unexpected merge key {mk!r}")
        locs, lst = t.args
        refs = list(lst.args)
        if len(locs) != len(refs):
            raise ValueError("merge indexer and inputs differ in length")
        for loc, r in zip(locs, refs):
            if r.key in owner:
                raise ValueError("slice task merged twice")
            owner[r.key] = (int(mk[1]), [int(q) for q in np.asarray(loc).tolist()])
    groups = []
    for k in sorted(slice_tasks, key=lambda q: q[1]):
        t = slice_tasks[k]
        ref, points, _axis = t.args
        inkey = ref.key
        if inkey[0] != v.array._name:
            raise ValueError("slice task reads another array")
        blocks = [int(b) for b in inkey[1:]]
        cols = [[int(q) for q in np.asarray(p).tolist()] for p in points]
        ob, locs = owner[k]
        if any(len(c) != len(locs) for c in cols):
            raise ValueError("points and locations differ in length")
        rows = sorted(zip(locs, zip(*cols))) if cols else []
        groups.append((ob, blocks, [(l, list(p)) for l, p in rows]))
    if set(owner) != set(slice_tasks):
        raise ValueError("merge inputs are not the slice tasks")
    return groups


def fmt_groups(groups):
    if not groups:
        return "ok -"
    return "ok " + "|".join(f"{ob}/{f_list(bl)}/" + "+".join(f"{l}:{f_list(p)}" for l, p in rows) for ob, bl, rows in groups)


# ------------------------------------------------------------------------------ correspondence


def _arr1(cs):
    import dask_array as da

    n = sum(cs)
    return da.from_array(np.arange(n, dtype=np.int64), chunks=(tuple(cs),))


def corr_plan(ctx, rng, reqs):
    """shf.plan (+ shf.layer) against the REAL `Shuffle._layer()`"""
    import dask_array as da
    from dask_array._shuffle import Shuffle, _shuffle

    nplan = ctx.scale(110, 900)
    for it in range(nplan):
        big = rng.random() < 0.04
        if big:                                     # chunks beyond uint8: offsets / sorter of a wider unsigned type
            cs = [rng.choice([0, 40, 257, 300, 90]) for _ in range(rng.randint(2, 3))]
            if max(cs) < 257:
                cs[rng.randrange(len(cs))] = 300
            n = sum(cs)
            # (short groups: the model's list-based argsort is cubic; what matters is offsets >= 256 inside a block)
            indexer = [rand_positions(rng, n, rng.randint(1, 60)) for _ in range(rng.randint(1, 2))]
        else:
            cs = rand_chunks(rng)
            indexer = identity_indexer(cs) if rng.random() < 0.04 else rand_indexer(rng, cs)
        n = sum(cs)
        rank = 1 if big else rng.choice([1, 1, 2, 2, 3])
        axis = rng.randrange(rank)
        shape, chunks = [], []
        for a in range(rank):
            if a == axis:
                shape.append(n)
                chunks.append(tuple(cs))
            else:
                oc = rand_chunks(rng, maxparts=3, maxc=2, zero=0.1)
                shape.append(sum(oc))
                chunks.append(tuple(oc))
        x = da.from_array(np.arange(math.prod(shape), dtype=np.int64).reshape(shape), chunks=tuple(chunks))
        via = rng.choice(["direct", "direct", "getitem"]) if not any(len(g) == 0 for g in indexer) else "direct"
        try:
            if via == "getitem":
                flat = [p for g in indexer for p in g]
                y = x[(slice(None),) * axis + (flat,)]
                e = y.expr.lower_completely()
                sh = find_node(e, Shuffle)
                if sh is None or sh.array.chunks != x.chunks:
                    _note(ctx, "plan.no_shuffle_node")
                    continue
            else:
                e = _shuffle(x.expr, indexer, axis, "shuffle")
                if e is x.expr:
                    reqs.append((f"shf.layer {f_list(cs)} {f_ll(indexer)}", "ok id"))
                    ctx.count(("shf", "plan", "identity", rank))
                    continue
                sh = e
                if not isinstance(sh, Shuffle):
                    _note(ctx, "plan.no_shuffle_node")
                    continue
        except Exception as ex:  # noqa: BLE001
            reqs.append((f"shf.layer {f_list(cs)} {f_ll(indexer)}", "err " + type(ex).__name__))
            continue
        axis = sh.axis
        cs_real = [int(c) for c in sh.array.chunks[axis]]
        try:
            plans = read_shuffle_plans(sh)
        except NotImplementedError:
            reqs.append((f"shf.plan {f_list(cs_real)} {f_list(sh._new_chunks[0] if sh._new_chunks else [])} N", "err NotImplementedError"))
            continue
        except Exception as ex:  # noqa: BLE001 - an unreadable layer shows up as a disagreement, never as an alarm
            tk = sh._new_chunks[0] if sh._new_chunks else []
            reqs.append((f"shf.plan {f_list(cs_real)} {f_list(tk)} N", "unreadable:" + type(ex).__name__))
            _note(ctx, "plan.unreadable")
            continue
        all_stable = True
        for taker, plan, consistent in plans:
            sorter, pieces, merged = plan
            if not consistent:
                impl = "nd-keys-inconsistent"
            else:
                impl = "ok " + fmt_plan(" ", plan)
            reqs.append((f"shf.plan {f_list(cs_real)} {f_list(taker)} {f_list(sorter)}", impl))
            if sorter != np.argsort(np.array(taker), kind="stable").tolist():
                all_stable = False
            ctx.count(("shf", "plan", rank, axis, "merged" if merged else "single", min(len(pieces), 3),
                       "big" if big else "small", "dup" if len(set(taker)) < len(taker) else "nodup", via))
        if all_stable and via == "direct" and plans and rng.random() < 0.5:
            reqs.append((f"shf.layer {f_list(cs_real)} {f_ll(sh.indexer)}",
                         "ok " + "|".join(fmt_plan("/", p) for _, p, _ in plans)))
        if it < 1:
            ctx.sample({"shf": 1, "corr": "plan", "chunks": [list(c) for c in chunks], "axis": axis, "indexer": indexer})


def corr_eval(ctx, rng, reqs):
    """shf.eval / shf.take against the computed blocks of the real collections"""
    from dask_array._new_collection import new_collection
    from dask_array._shuffle import _shuffle

    for it in range(ctx.scale(70, 600)):
        cs = rand_chunks(rng)
        r = rng.random()
        indexer = identity_indexer(cs) if r < 0.08 else rand_indexer(rng, cs)
        if 0.08 <= r < 0.14:                      # identity with one entry off / one group split
            indexer = identity_indexer(cs)
            g = rng.randrange(len(indexer))
            if indexer[g]:
                indexer[g][rng.randrange(len(indexer[g]))] = rng.randrange(sum(cs))
        x = _arr1(cs)
        req = f"shf.eval {f_list(cs)} {f_ll(indexer)}"
        try:
            y = new_collection(_shuffle(x.expr, indexer, 0, "shuffle"))
            impl = fmt_blocks(y)
        except Exception as ex:  # noqa: BLE001
            impl = "err " + type(ex).__name__
        reqs.append((req, impl))
        ctx.count(("shf", "eval", len(cs), 0 in cs, any(len(g) == 0 for g in indexer), any(len(g) > max(cs) for g in indexer)))
    for it in range(ctx.scale(90, 700)):
        zero_n = rng.random() < 0.03
        cs = [0] * rng.randint(1, 2) if zero_n else rand_chunks(rng)
        n = sum(cs)
        r = rng.random()
        if r < 0.06 or n == 0 and r < 0.7:
            index = []
        elif r < 0.14:
            index = list(range(n))
            if rng.random() < 0.3 and n:
                index[rng.randrange(n)] -= n       # the same identity written with a negative entry
        elif n == 0:
            index = [rng.choice([0, -1, 1])]
        else:
            index = [p - n if rng.random() < 0.3 else p for p in rand_positions(rng, n, rng.randint(1, 2 * n + 2))]
            if rng.random() < 0.1:
                index[rng.randrange(len(index))] = rng.choice([n, -n - 1, n + 3, -n - 7])
        x = _arr1(cs)
        req = f"shf.take {f_list(cs)} {f_list(index)}"
        try:
            y = x[index]
            impl = fmt_blocks(y)
        except Exception as ex:  # noqa: BLE001
            impl = "err " + type(ex).__name__
        reqs.append((req, impl))
        ctx.count(("shf", "take1d", len(cs), 0 in cs, len(index) == 0, any(p < 0 for p in index), impl[:3]))


def rand_css(rng, k, maxparts=3, maxc=3):
    return [rand_chunks(rng, maxparts=maxparts, maxc=maxc, zero=0.2) for _ in range(k)]


def corr_vindex(ctx, rng, reqs):
    """shf.vnorm / shf.vlayer / shf.vpoints / shf.veval against `_vindex` and the REAL `VIndexArray._layer()`"""
    import dask_array as da
    from dask_array._shuffle import Shuffle
    from dask_array.slicing._vindex import VIndexArray

    for it in range(ctx.scale(110, 900)):
        k = rng.choice([1, 2, 2, 2, 3])
        css = rand_css(rng, k)
        sizes = [sum(cs) for cs in css]
        total = math.prod(sizes)
        m = math.prod(max(cs) for cs in css)
        r = rng.random()
        P = 0 if r < 0.04 else rng.randint(1, 3) if r < 0.3 else rng.randint(1, 2 * m + 2) if r < 0.8 else rng.randint(m, 3 * m + 1)
        P = min(P, 40)
        oob = rng.random() < 0.12 and P > 0
        raw = []
        for s in sizes:
            col = [rng.randrange(s) - (s if rng.random() < 0.3 else 0) for _ in range(P)]
            raw.append(col)
        if oob:
            a = rng.randrange(k)
            raw[a][rng.randrange(P)] = rng.choice([sizes[a], -sizes[a] - 1, sizes[a] + 2])
        d = da.from_array(np.arange(total, dtype=np.int64).reshape(sizes), chunks=tuple(tuple(c) for c in css))
        dt = rng.choice(["list", "intp", "int8", "int16", "uint8"] if not any(q < 0 for c in raw for q in c) else ["list", "intp", "int8", "int32"])
        idx = tuple(c if dt == "list" else np.array(c, dtype=dt) for c in raw)
        if P == 0 and dt == "list":
            idx = tuple(np.array(c, dtype=np.intp) for c in raw)
        req_norm = f"shf.vnorm {f_list(sizes)} {f_ll(raw)}"
        req_eval = f"shf.veval {f_ll(css)} {f_ll(raw)}"
        ctx.count(("shf", "vindex-corr", k, "P0" if P == 0 else "P<=m" if P <= m else "P>m", oob, dt))
        try:
            y = d.vindex[idx]
        except Exception as ex:  # noqa: BLE001
            reqs.append((req_norm, "err " + type(ex).__name__))
            reqs.append((req_eval, "err " + type(ex).__name__))
            continue
        v = find_node(y.expr, VIndexArray)
        sh = find_node(y.expr, Shuffle)
        norm = None
        if v is not None and k >= 2:
            norm = [[int(q) for q in np.asarray(v.dict_indexes[a]).ravel().tolist()] for a in range(k)]
        elif sh is not None and k == 1:
            norm = [[int(p) for g in sh.indexer for p in g]]
        elif P == 0:
            norm = [[] for _ in range(k)]
        if norm is not None:
            reqs.append((req_norm, f"ok {f_ll(norm)}"))
        else:
            _note(ctx, "vnorm.identity_or_other")      # k = 1 identity: `_shuffle` returned its input
        try:
            reqs.append((req_eval, fmt_blocks(y)))
        except Exception as ex:  # noqa: BLE001
            reqs.append((req_eval, "err " + type(ex).__name__))
        if v is None or k < 2:
            continue
        try:
            groups = read_vindex_groups(v)
        except Exception as ex:  # noqa: BLE001 - an unreadable layer shows up as a disagreement
            reqs.append((f"shf.vlayer {f_ll(css)} {f_ll(norm)}", "unreadable:" + type(ex).__name__))
            _note(ctx, "vlayer.unreadable")
            continue
        reqs.append((f"shf.vlayer {f_ll(css)} {f_ll(norm)}", fmt_groups(groups)))
        # per point and axis: block and in-block offset, read back from the tasks (point j = outblock * m + location)
        blk = [[None] * P for _ in range(k)]
        off = [[None] * P for _ in range(k)]
        for ob, bl, rows in groups:
            for loc, pt in rows:
                j = ob * m + loc
                if 0 <= j < P:
                    for a in range(k):
                        blk[a][j] = bl[a]
                        off[a][j] = pt[a]
        if all(q is not None for c in blk for q in c):
            reqs.append((f"shf.vpoints {f_ll(css)} {f_ll(norm)}", f"ok {f_ll(blk)} {f_ll(off)}"))
        else:
            reqs.append((f"shf.vpoints {f_ll(css)} {f_ll(norm)}", "points-missing"))
        if it < 1:
            ctx.sample({"shf": 1, "corr": "vindex", "css": css, "inds": raw})


# ------------------------------------------------------------------------------ search: cases


def data_of(case):
    shape = tuple(case["shape"])
    x = np.arange(math.prod(shape), dtype=np.int64).reshape(shape)
    dt = case.get("dtype", "int64")
    if dt != "int64":
        x = x.astype(dt)
    return x


def build_idx(spec):
    """["l", values] (python list, possibly nested) | ["a", values, dtype]"""
    if spec[0] == "l":
        return spec[1]
    return np.array(spec[1], dtype=spec[2])


def build_item(sp):
    if sp[0] == "s":
        return slice(sp[1], sp[2], sp[3])
    if sp[0] == "i":
        return int(sp[1])
    return build_idx(sp)


def np_vindex(x, idx):
    """brute-force meaning of `.vindex`: integers and slices first, then the array-indexed axes are indexed point-wise
    (broadcast) and lead the result"""
    idx = list(idx) + [slice(None)] * (x.ndim - len(idx))
    if len(idx) > x.ndim:
        raise IndexError("too many indices")
    nonfancy = tuple(i if isinstance(i, (int, slice)) else slice(None) for i in idx)
    x1 = x[nonfancy]
    reduced = [i for i in idx if not isinstance(i, int)]
    axes = [k for k, i in enumerate(reduced) if not isinstance(i, slice)]
    arrs = []
    for k in axes:
        a = np.asarray(reduced[k])
        if a.size == 0:
            a = np.zeros(a.shape, dtype=np.intp)
        if a.dtype.kind not in "iu":
            raise IndexError("not an integer array")
        a = a.astype(np.int64)
        if a.size and ((a >= x1.shape[k]) | (a < -x1.shape[k])).any():
            raise IndexError("out of bounds")
        arrs.append(a)
    try:
        arrs = np.broadcast_arrays(*arrs)
    except ValueError as e:
        raise IndexError("shape mismatch") from e
    xt = np.moveaxis(x1, axes, list(range(len(axes))))
    return xt[tuple(arrs)]


def oracle(case, x):
    op = case["op"]
    try:
        if op in ("take", "getitem"):
            idx = build_idx(case["idx"])
            if isinstance(idx, list) and not idx:
                idx = np.zeros(0, dtype=np.intp)
            return "ok", np.asarray(x[(slice(None),) * case["axis"] + (idx,)])
        if op == "shuffle":
            flat = np.array([p for g in case["indexer"] for p in g], dtype=np.intp)
            return "ok", np.asarray(np.take(x, flat, axis=case["axis"]))
        if op == "vindex":
            return "ok", np.asarray(np_vindex(x, [build_item(sp) for sp in case["index"]]))
    except IndexError as e:
        return "err", "IndexError: " + str(e)[:80]
    raise ValueError(op)


def real_call(case, d):
    import dask_array as da

    op = case["op"]
    if op == "take":
        return da.take(d, build_idx(case["idx"]), axis=case["axis"])
    if op == "getitem":
        return d[(slice(None),) * case["axis"] + (build_idx(case["idx"]),)]
    if op == "shuffle":
        return d.shuffle([list(g) for g in case["indexer"]], axis=case["axis"])
    if op == "vindex":
        return d.vindex[tuple(build_item(sp) for sp in case["index"])]
    raise ValueError(op)


def in_vindex_multi_class(case, y, bshape):
    """the listed class `vindex:multi-array-multi-block`: >= 2 index arrays, sliced axes left over, more than one block"""
    if case["op"] != "vindex":
        return False
    nb = sum(1 for sp in case["index"] if sp[0] in ("l", "a") and np.ndim(sp[1]) >= 1)
    try:
        return nb >= 2 and y.ndim > len(bshape) and math.prod(y.numblocks) > 1
    except Exception:  # noqa: BLE001
        return False


def _bshape(case):
    try:
        return np.broadcast_shapes(*(np.shape(sp[1]) for sp in case["index"] if sp[0] in ("l", "a")))
    except ValueError:
        return ()


def check_case(case):
    """[(signature, what)] — empty when the real code agrees with NumPy under both optimizer settings"""
    import dask
    import dask_array as da
    from dask.core import flatten

    op = case["op"]
    tag = "vindex" if op == "vindex" else "shuffle" if op == "shuffle" else "take"
    x = data_of(case)
    want = oracle(case, x)
    out = []
    for opt in (True, False):
        cfg = {"array.optimize-graph": opt, "scheduler": "sync"}
        cfg.update(case.get("cfg") or {})
        prob = None
        with dask.config.set(cfg), warnings.catch_warnings():
            warnings.simplefilter("ignore")
            d = da.from_array(x, chunks=tuple(tuple(c) for c in case["chunks"]))
            y = None
            try:
                y = real_call(case, d)
                r = np.asarray(y.compute())
                got = ("ok", r)
            except Exception as e:  # noqa: BLE001
                got = ("err", type(e).__name__ + ": " + str(e)[:120])
            if want[0] == "err" and got[0] == "ok":
                prob = (f"shf:{tag}:accepts-out-of-bounds", f"NumPy raises {want[1]}; got {got[1].tolist()!r:.120}")
            elif want[0] == "ok" and got[0] == "err":
                prob = (f"shf:{tag}:refuses", f"NumPy returns shape {list(want[1].shape)}; the call raised {got[1]}")
            elif want[0] == "ok":
                w, r = want[1], got[1]
                if w.shape != r.shape:
                    prob = (f"shf:{tag}:wrong-shape", f"shape {list(r.shape)}, NumPy {list(w.shape)}")
                elif not np.array_equal(w, r):
                    bad = np.argwhere(w != r)
                    prob = (f"shf:{tag}:wrong-values", f"{len(bad)} of {w.size} elements differ, first at {bad[0].tolist()}: "
                                                        f"{r[tuple(bad[0])]} != {w[tuple(bad[0])]}")
                elif r.dtype != w.dtype or y.dtype != w.dtype:
                    prob = (f"shf:{tag}:wrong-dtype", f"dtype {r.dtype} (advertised {y.dtype}), NumPy {w.dtype}")
                elif tuple(int(s) for s in y.shape) != w.shape:
                    prob = ("shf:chunks:advertised-shape", f"advertised shape {y.shape}, computed {w.shape}")
                elif len(y.chunks) != w.ndim or any(sum(c) != s for c, s in zip(y.chunks, w.shape)):
                    prob = ("shf:chunks:sum-mismatch", f"chunks {y.chunks!r} do not add up to {w.shape}")
                else:
                    try:
                        keys = list(flatten(y.__dask_keys__()))
                        vals = dask.get(dict(y.__dask_graph__()), keys)
                        ids = list(itertools.product(*[range(len(c)) for c in y.chunks]))
                        if len(ids) != len(keys):
                            prob = ("shf:chunks:block-count-mismatch", f"{len(keys)} keys for chunks {y.chunks!r}")
                        else:
                            starts = [np.concatenate([[0], np.cumsum(c)]).tolist() for c in y.chunks]
                            for bid, val in zip(ids, vals):
                                val = np.asarray(val)
                                exp = tuple(int(c[b]) for c, b in zip(y.chunks, bid))
                                if tuple(val.shape) != exp:
                                    prob = ("shf:chunks:block-shape-mismatch", f"block {list(bid)} has shape {list(val.shape)}, chunks say {list(exp)}")
                                    break
                                sl = tuple(slice(int(st[b]), int(st[b]) + int(c[b])) for st, c, b in zip(starts, y.chunks, bid))
                                if not np.array_equal(val, w[sl]):
                                    prob = ("shf:chunks:block-values-mismatch", f"block {list(bid)} is not the NumPy slice of the result")
                                    break
                    except Exception as e:  # noqa: BLE001
                        prob = (f"shf:{tag}:refuses", f"computing the blocks one by one raised {type(e).__name__}: {str(e)[:120]}")
            if prob and op == "vindex" and y is not None and in_vindex_multi_class(case, y, _bshape(case)):
                prob = (SIG_VINDEX_MULTI, prob[1])
        if prob:
            out.append((prob[0], f"[optimize-graph={opt}] " + prob[1]))
    seen = {}
    for s, wh in out:
        seen.setdefault(s, (s, wh))
    return list(seen.values())


# ------------------------------------------------------------------------------ search: generators


def rand_shape_chunks(rng, rank, axis, axis_n=None, zero=0.15, single_other=False):
    shape, chunks = [], []
    for a in range(rank):
        if a == axis:
            cs = rand_chunks(rng, maxparts=4, maxc=5, zero=zero) if axis_n is None else axis_n
        elif single_other:
            cs = [rng.randint(1, 4)]
        else:
            cs = rand_chunks(rng, maxparts=3, maxc=3, zero=zero / 2)
        shape.append(sum(cs))
        chunks.append(list(cs))
    return shape, chunks


def pick_dtype(rng, vals):
    ok = [t for t in INT_DTYPES if not vals or (np.iinfo(t).min <= min(vals) and max(vals) <= np.iinfo(t).max)]
    return rng.choice(ok)


def rand_cfg(rng, p=0.45):
    if rng.random() >= p:
        return None
    cfg = {"array.chunk-size": rng.choice(["16B", "32B", "64B", "128B", "256B"])}
    if rng.random() < 0.4:                                     # the threshold of `_rechunk_other_dimensions`
        cfg["array.chunk-size-tolerance"] = rng.choice([1.0, 1.1, 2.0, 3.0])
    return cfg


def gen_take(rng):
    rank = rng.choice([1, 1, 2, 2, 3])
    axis = rng.randrange(rank)
    big = rng.random() < 0.03
    if big:
        rank, axis = rng.choice([(1, 0), (2, 0), (2, 1)])
        cs = [rng.choice([0, 257, 300, 120, 33]) for _ in range(rng.randint(2, 3))]
        if max(cs) < 257:
            cs[0] = 260
        shape, chunks = rand_shape_chunks(rng, rank, axis, axis_n=cs)
        if rank == 2:
            o = 1 - axis
            shape[o], chunks[o] = 2, [1, 1]
    else:
        shape, chunks = rand_shape_chunks(rng, rank, axis)
    n = shape[axis]
    r = rng.random()
    if r < 0.06:
        vals, kind = [], "empty"
    elif r < 0.14:
        vals, kind = [rng.randrange(n)], "len1"
    elif r < 0.22:
        vals, kind = list(range(n)), "arange"
    else:
        length = rng.randint(2, 2 * n + 3) if not big else rng.randint(2, 420)
        vals, kind = rand_positions(rng, n, length), "gen"
    neg = False
    if vals and rng.random() < 0.35:
        vals = [p - n if rng.random() < 0.4 else p for p in vals]
        neg = any(p < 0 for p in vals)
    oob = False
    if vals and rng.random() < 0.08:
        vals[rng.randrange(len(vals))] = rng.choice([n, -n - 1, n + 5])
        oob = True
    op = rng.choice(["take", "getitem"])
    if rng.random() < 0.3 and (vals or op == "getitem"):
        idx = ["l", vals]
    else:
        idx = ["a", vals, pick_dtype(rng, vals)]
    case = {"shf": 1, "op": op, "shape": shape, "chunks": chunks, "axis": axis, "idx": idx, "cfg": rand_cfg(rng),
            "dtype": rng.choice(["int64", "int64", "float64", "int16"])}
    key = ("shf", op, f"rank{rank}", f"axis{axis}", idx[2] if idx[0] == "a" else "list", kind, "neg" if neg else "pos",
           "oob" if oob else "inb", "split" if case["cfg"] else "nosplit", "zero-chunk" if 0 in chunks[axis] else "plain", "big" if big else "small")
    return case, key


def gen_shuffle(rng):
    rank = rng.choice([1, 2, 2, 3])
    axis = rng.randrange(rank)
    shape, chunks = rand_shape_chunks(rng, rank, axis)
    for a in range(rank):                                      # longer blocks on the other axes: they get split
        if a != axis and rng.random() < 0.6:
            chunks[a] = rand_chunks(rng, maxparts=2, maxc=7, zero=0.1)
            shape[a] = sum(chunks[a])
    n, mx = shape[axis], max(chunks[axis])
    groups = []
    for _ in range(rng.randint(1, 4)):
        ln = rng.randint(mx + 1, 3 * mx + 4) if rng.random() < 0.45 else rng.randint(1, mx)
        groups.append(rand_positions(rng, n, ln))
    if rng.random() < 0.06:
        groups = identity_indexer([c for c in chunks[axis]])
        if any(len(g) == 0 for g in groups):
            groups = [g for g in groups if g]
    case = {"shf": 1, "op": "shuffle", "shape": shape, "chunks": chunks, "axis": axis, "indexer": groups, "cfg": rand_cfg(rng, 0.6),
            "dtype": "int64"}
    key = ("shf", "shuffle", f"rank{rank}", f"axis{axis}", "long" if any(len(g) > mx for g in groups) else "short",
           "very-long" if any(len(g) > 1.25 * mx for g in groups) and rank > 1 else "-", "split" if case["cfg"] else "nosplit")
    return case, key


BCAST_SHAPES_2 = [((3,), (3,)), ((1,), (4,)), ((3, 1), (1, 4)), ((2, 2), (2, 2)), ((2, 1), (2,)), ((), (3,)), ((2, 3), (3,)), ((5,), (5,)), ((7,), (1,))]


def nested(rng, shp, n, neg=0.3, oob=None):
    a = np.empty(shp, dtype=object)
    for i in np.ndindex(*shp) if shp else [()]:
        v = rng.randrange(n)
        a[i] = v - n if rng.random() < neg else v
    if oob is not None and a.size:
        i = tuple(rng.randrange(s) for s in shp)
        a[i] = oob
    return a.tolist()


def flat_vals(v):
    return [int(q) for q in np.asarray(v, dtype=object).ravel().tolist()]


def static_vindex_multi(case):
    """a cheap over-approximation of the listed class `vindex:multi-array-multi-block` (>= 2 index arrays, a sliced axis
    left over, more than one output block: more points than one block holds, or a sliced axis with several blocks)"""
    arr = [a for a, sp in enumerate(case["index"]) if sp[0] in ("l", "a")]
    sl = [a for a, sp in enumerate(case["index"]) if sp[0] == "s"]
    if len(arr) < 2 or not sl:
        return False
    P = math.prod(_bshape(case))
    m = math.prod(max(case["chunks"][a]) for a in arr)
    return P > m or any(len(case["chunks"][a]) > 1 for a in sl)


def gen_vindex(rng):
    for _ in range(30):
        case, key = _gen_vindex(rng)
        if not static_vindex_multi(case):
            break
    return case, key


def _gen_vindex(rng):
    rank = rng.choice([1, 2, 2, 3, 3])
    k = min(rank, rng.choice([1, 2, 2, 3]))                    # number of index arrays
    arr_axes = sorted(rng.sample(range(rank), k))
    shape, chunks = [], []
    for a in range(rank):
        if a in arr_axes or k == 1:
            cs = rand_chunks(rng, maxparts=3, maxc=4, zero=0.15)
        else:
            cs = [rng.randint(1, 4)]                           # k >= 2: leftover axes single-block (listed class otherwise)
        shape.append(sum(cs))
        chunks.append(cs)
    if k == 1:
        shp = rng.choice([(1,), (3,), (6,), (2, 2), (3, 1), (0,), (2, 0), ()])
        shapes = [shp]
    elif k == 2:
        shapes = list(rng.choice(BCAST_SHAPES_2))
        if rng.random() < 0.5:
            shapes.reverse()
        if rng.random() < 0.04:
            shapes = [(2,), (3,)]                              # not broadcastable: IndexError on both sides
    else:
        shapes = list(rng.choice([((2,), (2,), (2,)), ((3, 1), (1, 2), (1,)), ((4,), (1,), (4,)), ((2, 1, 1), (1, 2, 1), (1, 1, 2))]))
    oob_axis = rng.choice(arr_axes) if rng.random() < 0.08 else None
    index, kinds = [], []
    for a in range(rank):
        n = shape[a]
        if a in arr_axes:
            shp = shapes[arr_axes.index(a)]
            oob = rng.choice([n, -n - 1, n + 3]) if a == oob_axis else None
            v = nested(rng, shp, n, neg=rng.choice([0.0, 0.3]), oob=oob)
            if shp == ():
                v = [v]                                        # a 0-d entry would be an integer, keep it an array index
            fv = flat_vals(v)
            if rng.random() < 0.4 and fv:
                index.append(["l", v])
                kinds.append("list")
            else:
                dt = pick_dtype(rng, fv)
                index.append(["a", v, dt])
                kinds.append(dt)
        else:
            r = rng.random()
            if r < 0.3:
                index.append(["i", rng.randrange(n) - (n if rng.random() < 0.3 else 0)])
                kinds.append("int")
            elif r < 0.55:
                index.append(["s", None, None, None])
                kinds.append("full")
            else:
                st = rng.choice([None, 1, 2, -1])
                index.append(["s", rng.choice([None, 0, 1, -2]), rng.choice([None, n, n - 1, -1]), st])
                kinds.append("slice")
    case = {"shf": 1, "op": "vindex", "shape": shape, "chunks": chunks, "index": index, "cfg": rand_cfg(rng, 0.25), "dtype": "int64"}
    bs = _bshape(case)
    key = ("shf", "vindex", f"rank{rank}", f"k{k}", "bcast" if len({tuple(s) for s in shapes}) > 1 else "same", f"nd{len(bs)}",
           "oob" if oob_axis is not None else "inb", tuple(sorted(set(kinds))), "split" if case["cfg"] else "nosplit")
    return case, key


# ------------------------------------------------------------------------------ reporting / replay


def shrink(case, sig, budget=60):
    """cheap reductions that keep the failure signature: drop the config, merge chunks, shorten the index"""
    import copy

    def still(c):
        try:
            return any(s == sig for s, _ in check_case(c))
        except Exception:  # noqa: BLE001
            return False

    cur = copy.deepcopy(case)
    cands = []
    if cur.get("cfg"):
        cands.append(lambda c: c.__setitem__("cfg", None))
    if cur.get("dtype", "int64") != "int64":
        cands.append(lambda c: c.__setitem__("dtype", "int64"))
    for a in range(len(cur["shape"])):
        cands.append(lambda c, a=a: c["chunks"].__setitem__(a, [c["shape"][a]]))
    if "idx" in cur and np.ndim(cur["idx"][1]) == 1:
        for _ in range(5):                                     # halves first (long index lists)
            cands.append(lambda c: c["idx"].__setitem__(1, c["idx"][1][: len(c["idx"][1]) // 2]) if len(c["idx"][1]) > 3 else None)
            cands.append(lambda c: c["idx"].__setitem__(1, c["idx"][1][len(c["idx"][1]) // 2:]) if len(c["idx"][1]) > 3 else None)
        for _ in range(6):
            cands.append(lambda c: c["idx"].__setitem__(1, c["idx"][1][:-1]) if len(c["idx"][1]) > 1 else None)
            cands.append(lambda c: c["idx"].__setitem__(1, c["idx"][1][1:]) if len(c["idx"][1]) > 1 else None)
    if "index" in cur:
        arrs = [sp for sp in cur["index"] if sp[0] in ("l", "a")]
        if arrs and all(np.ndim(sp[1]) == 1 for sp in arrs) and len({len(sp[1]) for sp in arrs}) == 1:
            def cut(c, lo, hi):
                for sp in c["index"]:
                    if sp[0] in ("l", "a"):
                        ln = len(sp[1])
                        sp[1] = sp[1][int(lo * ln): max(int(lo * ln) + 1, int(hi * ln))]
            for _ in range(4):
                cands.append(lambda c: cut(c, 0, 0.5))
                cands.append(lambda c: cut(c, 0.5, 1))
            for _ in range(3):
                cands.append(lambda c: cut(c, 0, 0.99) if len(c["index"][0][1] if c["index"][0][0] != "s" else [0, 0]) > 1 else None)
    if "indexer" in cur:
        for _ in range(4):
            cands.append(lambda c: c["indexer"].pop() if len(c["indexer"]) > 1 else None)
            cands.append(lambda c: c["indexer"][0].pop() if len(c["indexer"][0]) > 1 else None)
    for fn in cands[:budget]:
        trial = copy.deepcopy(cur)
        try:
            fn(trial)
        except Exception:  # noqa: BLE001
            continue
        if trial != cur and still(trial):
            cur = trial
    return cur


def report(ctx, case, probs, do_shrink=True):
    for sig, what in probs:
        c = case
        if do_shrink and sum(1 for f in ctx.failures if f["sig"] == sig) < 2:
            c = shrink(case, sig)
            again = [w for s, w in check_case(c) if s == sig]
            what = again[0] if again else what
        ctx.fail(sig, c, what)


def replay(ctx, case):
    probs = check_case(case)
    ctx.count(("shf", "replay"))
    ctx.sample({"replay": case, "problems": [p[0] for p in probs]})
    report(ctx, case, probs, do_shrink=False)


def lift_disagreement(ctx, d):
    """targeted search: a disagreeing correspondence line re-run at API level against NumPy"""
    parts = d["request"].split()
    try:
        cmd = parts[0]
        if cmd in ("shf.plan", "shf.layer", "shf.eval", "shf.take"):
            cs = [int(v) for v in parts[1].split(",")] if parts[1] != "_" else []
            if cmd == "shf.take":
                idx = [int(v) for v in parts[2].split(",")] if parts[2] != "_" else []
                case = {"shf": 1, "op": "getitem", "shape": [sum(cs)], "chunks": [cs], "axis": 0, "idx": ["l", idx], "cfg": None, "dtype": "int64"}
            elif cmd == "shf.plan":
                tk = [int(v) for v in parts[2].split(",")] if parts[2] != "_" else []
                if not tk:
                    return
                case = {"shf": 1, "op": "shuffle", "shape": [sum(cs)], "chunks": [cs], "axis": 0, "indexer": [tk], "cfg": None, "dtype": "int64"}
            else:
                groups = [[int(v) for v in g.split(",")] if g != "_" else [] for g in parts[2].split(";")] if parts[2] != "-" else []
                groups = [g for g in groups if g]
                if not groups:
                    return
                case = {"shf": 1, "op": "shuffle", "shape": [sum(cs)], "chunks": [cs], "axis": 0, "indexer": groups, "cfg": None, "dtype": "int64"}
        elif cmd in ("shf.veval", "shf.vlayer", "shf.vpoints"):
            css = [[int(v) for v in g.split(",")] for g in parts[1].split(";")]
            inds = [[int(v) for v in g.split(",")] if g != "_" else [] for g in parts[2].split(";")]
            case = {"shf": 1, "op": "vindex", "shape": [sum(c) for c in css], "chunks": css,
                    "index": [["a", c, "int64"] for c in inds], "cfg": None, "dtype": "int64"}
        else:
            return
    except Exception:  # noqa: BLE001
        return
    ctx.count(("shf", "targeted", parts[0]))
    probs = check_case(case)
    if probs:
        _note(ctx, "targeted.failing")
        ctx.notes.setdefault("shf.targeted.first_request", d["request"][:200])
        report(ctx, case, probs)


# ------------------------------------------------------------------------------ entry


def run(ctx, replay_case=None):
    warnings.simplefilter("ignore")
    if replay_case is not None:
        return replay(ctx, replay_case)
    rng = ctx.rng
    t0 = ctx.elapsed()
    ctx.assumptions.append(
        "shuffle extension (shf.*): integer data (arange; float64 / int16 copies of it), equality exact; the model's argsort "
        "is a parameter — correspondence lines carry the REAL np.argsort result, which the model validates (isArgsortB) and then uses"
    )
    if isinstance(ctx.rule, str):
        ctx.rule += (
            " | shf (props_ext/c12_shuffle): correspondence of the REAL Shuffle._layer / VIndexArray._layer / _shuffle / x[list] / "
            "x.vindex[...] with the model on seeded random chunkings (zero-length chunks, chunks > 256) and indexers (unsorted, repeated, "
            "empty and over-long groups, identity), n-D arrays with the shuffle axis anywhere; search: da.take / x[..,idx,..] / x.shuffle / "
            "x.vindex on 1-3-D arrays, idx list or array of int8…uint64, negative / repeated / empty / length-1 / arange / out-of-bounds, "
            "broadcasting index arrays mixed with slices and integers, tiny array.chunk-size / chunk-size-tolerance, optimizer on and off, "
            "against NumPy (values, shape, dtype, chunks, every block); distinct by (op, rank, axis, index dtype, kind, sign, bounds, config, zero chunk)"
        )
    # ---- (1) correspondence
    reqs = []
    for fn in (corr_plan, corr_eval, corr_vindex):
        try:
            fn(ctx, rng, reqs)
        except Exception as e:  # noqa: BLE001 - a harness-side surprise is noted, never an alarm
            _note(ctx, "corr_aborted." + fn.__name__)
            ctx.notes.setdefault("shf.corr_aborted_example", f"{fn.__name__}: {e!r}"[:300])
    t1 = ctx.elapsed()
    if reqs and ctx.driver.run(["shf.vnorm 1 0"]) != ["ok 0"]:
        ctx.notes["shf_driver"] = "not available in this build"
        reqs = []
    n0 = len(ctx.disagreements)
    if reqs:
        ctx.correspond(FAM, reqs, branch_key=lambda req, model: (req.split()[0], model[:4], min(len(req) // 24, 4)))
    t2 = ctx.elapsed()
    # ---- targeted: lift disagreeing lines to the API
    for d in ctx.disagreements[n0:][:25]:
        lift_disagreement(ctx, d)
    # ---- (2) search
    gens = [(gen_take, 5), (gen_shuffle, 1.5), (gen_vindex, 4)]
    nsearch = ctx.scale(1100, 16000)
    shown = 0
    for i in range(nsearch):
        g = rng.choices([g for g, _ in gens], [w for _, w in gens])[0]
        case, key = g(rng)
        ctx.count(key)
        try:
            probs = check_case(case)
        except Exception as e:  # noqa: BLE001 - harness-side surprise
            _note(ctx, "search_harness_error")
            ctx.notes.setdefault("shf.search_harness_error_example", f"{case!r}: {e!r}"[:400])
            continue
        if probs:
            report(ctx, case, probs)
        if shown < 3 and i % 97 == 0:
            shown += 1
            ctx.sample(case)
    ctx.notes["shf.seconds"] = {"build+real": round(t1 - t0, 1), "driver": round(t2 - t1, 1), "search": round(ctx.elapsed() - t2, 1)}
    ctx.notes["shf.requests"] = len(reqs)
