"""C25 extension — BLOCK / TARGET TYPES in `da.store` and the npy-stack round trip (owner: harness/props/C25.py).

Every program is judged against NumPy's own `target[region] = source` executed on a TWIN target that was built by the
same constructor: values, mask (inside AND outside the region), dtype, fill_value, hard-mask flag, the base of a view
target, the inner array of a wrapper target; the read-back of `return_stored=True` against `twin[region]`; programs NumPy
refuses (read-only target, impossible cast) must be refused with the target left as it was.

Sources: plain ndarray blocks of ten dtypes (float / int / uint8 / bool / complex / datetime64 / timedelta64 / structured),
np.ma.MaskedArray blocks (mask in some / all / no positions, nomask, mask only in SOME BLOCKS - the other blocks are plain
ndarrays -, explicit fill_value), built by from_array / elemwise / rechunk / map_blocks; rank 0-3.
Targets: ndarray, masked array (all-False mask / nomask / pre-masked positions soft or hard, own fill_value), a wrapper
object around a masked array, stepped-and-offset view of a larger base, transposed view, Fortran-ordered, read-only;
same or different dtype (float->int, int->float, wider->narrower, float->bool, complex->float, datetime units, ...).
Crossed with regions / no regions, compute / compute=False / return_stored (eager and lazy), lock, optimize, 1-2 pairs.

npy stack: to_npy_stack / from_npy_stack with masked / structured / datetime / bool / complex sources; oracle = what
`np.save` + `np.load` do with each block of the array (np.save refuses masked arrays: the stack must refuse as well, never
write the data under the mask as if it were valid).
"""
from __future__ import annotations

import os
import shutil
import tempfile
import warnings

import numpy as np

from harness import gen

STRUCT = [("a", "<i4"), ("b", "<f8")]
SRC_DTYPES = ("f8", "f4", "i8", "i4", "u1", "bool", "c16", "M8[D]", "m8[s]", "struct")
MASKABLE = ("f8", "i8", "i4", "f4")
MASK_MODES = ("some", "all", "none", "nomask", "blocks")
TKINDS = ("nd", "ma", "ma_nomask", "ma_premask", "ma_hard", "rec_ma", "view", "tview", "fortran", "readonly")
MODES = ("compute", "lazy", "rs", "rs_lazy")
# (source dtype, target dtype): NumPy's assignment casts (unsafe casting) or refuses
CASTS = (("f8", "i8"), ("f8", "i4"), ("i8", "f8"), ("i8", "i2"), ("i8", "u1"), ("f8", "f4"), ("i4", "i8"), ("f8", "bool"),
         ("c16", "f8"), ("M8[D]", "M8[s]"), ("M8[D]", "i8"), ("i8", "M8[s]"), ("m8[s]", "m8[ms]"), ("m8[s]", "f8"), ("bool", "i8"),
         ("u1", "f4"), ("f8", "M8[s]"), ("struct", "f8"), ("i8", "struct"), ("M8[D]", "m8[s]"))


def _dt(name):
    return np.dtype(STRUCT) if name == "struct" else np.dtype(name)


def src_values(p, k):
    shape = tuple(p["shape"])
    n = int(np.prod(shape)) if shape else 1
    i = np.arange(n, dtype=np.int64) + 17 * k
    dt = p["sdtype"]
    if dt in ("f8", "f4"):
        a = ((i % 113) + 0.25 + (i % 4) * 0.25).astype(dt)  # positive non-integers, exact in float32
    elif dt in ("i8", "i4"):
        a = ((i * 7) % 601 - 300).astype(dt)
    elif dt == "u1":
        a = (i % 250 + 1).astype("u1")
    elif dt == "bool":
        a = (i % 3 == 0)
    elif dt == "c16":
        a = (i % 50 + 1) + 1j * (i % 7 + 1)
    elif dt == "M8[D]":
        a = (i * 3 + 10).astype("M8[D]")
    elif dt == "m8[s]":
        a = (i * 5 - 20).astype("m8[s]")
    else:
        a = np.zeros(n, dtype=STRUCT)
        a["a"] = i + 1
        a["b"] = i * 0.5 + 0.25
    return a.reshape(shape)


def src_mask(p, blocks_flag=None):
    shape = tuple(p["shape"])
    n = int(np.prod(shape)) if shape else 1
    i = np.arange(n) + int(p.get("mseed", 0))
    mode = p["mask_mode"]
    if mode == "all":
        m = np.ones(n, bool)
    elif mode in ("none", "nomask"):
        m = np.zeros(n, bool)
    else:
        m = (i * 5) % 3 == 0
        if n:
            m[(int(p.get("mseed", 0))) % n] = True
    return m.reshape(shape)


def block_flags(p):
    """which blocks of the `blocks` mask mode are MaskedArray blocks (the others are plain ndarrays)"""
    nb = [len(c) for c in p["chunks"]]
    flags = {}
    for j, bid in enumerate(np.ndindex(*nb) if nb else [()]):
        flags[tuple(bid)] = (j + int(p.get("mseed", 0))) % 2 == 0
    return flags


def build_source(p, k):
    """(dask array, NumPy oracle array)"""
    import dask_array as da

    shape = tuple(p["shape"])
    chunks = tuple(tuple(c) for c in p["chunks"])
    data = src_values(p, k)
    if p["src"] == "plain":
        arr = data
    else:
        mask = src_mask(p)
        if p["mask_mode"] == "blocks":
            flags = block_flags(p)
            starts = [[0] + list(np.cumsum(c)) for c in chunks]
            eff = np.zeros(shape, bool)
            for bid, fl in flags.items():
                if fl:
                    ix = tuple(slice(int(starts[a][b]), int(starts[a][b + 1])) for a, b in enumerate(bid))
                    eff[ix] = mask[ix]
            base = da.from_array(data, chunks=chunks)
            fv = p.get("sfill")

            def mk(x, block_info=None, _mask=mask, _flags=flags, _fv=fv):
                info = block_info[0]
                if not _flags[tuple(info["chunk-location"])]:
                    return x
                ix = tuple(slice(a, b) for a, b in info["array-location"])
                return np.ma.masked_array(x, mask=_mask[ix], fill_value=_fv)

            d = base.map_blocks(mk, dtype=data.dtype, meta=np.ma.masked_array(np.empty((0,) * len(shape), dtype=data.dtype)))
            return d, np.ma.masked_array(data, mask=eff, fill_value=fv)
        if p["mask_mode"] == "nomask":
            arr = np.ma.masked_array(data, fill_value=p.get("sfill"))
        else:
            arr = np.ma.masked_array(data, mask=mask, fill_value=p.get("sfill"))
    der = p.get("derived", "none")
    if der == "rechunk":
        d = da.from_array(arr, chunks=shape).rechunk(chunks)
    elif der == "add" and p["sdtype"] in ("f8", "i8", "i4", "f4", "c16"):
        d = da.from_array(arr, chunks=chunks) + 0
    elif der == "slice" and shape and shape[0] > 0:
        big = np.ma.concatenate([arr, arr[:1]], axis=0) if isinstance(arr, np.ma.MaskedArray) else np.concatenate([arr, arr[:1]], axis=0)
        if isinstance(arr, np.ma.MaskedArray):
            big.fill_value = arr.fill_value
        d = da.from_array(big, chunks=(tuple(chunks[0]) + (1,),) + chunks[1:])[: shape[0]]
    else:
        d = da.from_array(arr, chunks=chunks)
    return d, arr


class MaskedRec:
    """array-like wrapper around a masked array (zarr-with-mask stand-in): logs the class of every block written"""

    def __init__(self, a):
        self.a = a
        self.shape = a.shape
        self.dtype = a.dtype
        self.ndim = a.ndim
        self.wlog = []

    def __setitem__(self, key, value):
        self.wlog.append(type(value).__name__)
        self.a[key] = value

    def __getitem__(self, key):
        return self.a[key]


def tfill(dt):
    dt = _dt(dt)
    if dt.kind == "M":
        return np.datetime64("1900-01-01").astype(dt)
    if dt.kind == "m":
        return np.timedelta64(-99999, "s").astype(dt)
    if dt.kind == "u":
        return 255
    if dt.kind == "b":
        return False
    if dt.names:
        return np.array((-7, -7.0), dtype=dt)[()]
    return -7


def build_target(p):
    """(object handed to store, holder whose content is judged).  Called twice: real target and NumPy twin."""
    tshape = tuple(p["tshape"])
    dt = _dt(p.get("tdtype") or p["sdtype"])
    kind = p["tkind"]
    full = np.empty(tshape, dtype=dt)
    full[...] = tfill(dt)
    if kind == "nd":
        return full, full
    if kind == "readonly":
        full.flags.writeable = False
        return full, full
    if kind == "fortran":
        f = np.asfortranarray(full)
        return f, f
    if kind == "tview":
        base = np.empty(tshape[::-1], dtype=dt)
        base[...] = tfill(dt)
        return base.T, base
    if kind == "view":
        off, step = 1, 2
        base = np.empty(tuple(off + n * step + 1 for n in tshape), dtype=dt)
        base[...] = tfill(dt)
        v = base[tuple(slice(off, off + n * step, step) for n in tshape)]
        assert v.shape == tshape
        return v, base
    # masked kinds
    n = int(np.prod(tshape)) if tshape else 1
    pre = ((np.arange(n) + int(p.get("mseed", 0))) % 4 == 1).reshape(tshape)
    tfv = p.get("tfill")
    if kind in ("ma", "rec_ma"):
        t = np.ma.masked_array(full, mask=np.zeros(tshape, bool), fill_value=tfv)
    elif kind == "ma_nomask":
        t = np.ma.masked_array(full, fill_value=tfv)
    elif kind == "ma_premask":
        t = np.ma.masked_array(full, mask=pre, fill_value=tfv)
    elif kind == "ma_hard":
        t = np.ma.masked_array(full, mask=pre, fill_value=tfv, hard_mask=True)
    else:
        raise ValueError(kind)
    if kind == "rec_ma":
        return MaskedRec(t), t
    return t, t


def snap(h):
    if isinstance(h, np.ma.MaskedArray):
        return {"cls": "ma", "dtype": str(h.dtype), "data": np.array(h.data), "mask": maskof(h),
                "fill_value": repr(h.fill_value), "hard": bool(h.hardmask)}
    return {"cls": "nd", "dtype": str(h.dtype), "data": np.array(h), "mask": None, "fill_value": None, "hard": None}


def maskof(a):
    """plain boolean mask of anything (structured / non-masked arrays: all False)"""
    if isinstance(a, np.ma.MaskedArray) and not a.dtype.names:
        return np.array(np.ma.getmaskarray(a))
    return np.zeros(np.shape(a), bool)


def same_data(a, b):
    if a.shape != b.shape or a.dtype != b.dtype:
        return False
    if a.dtype.names:
        return bool(all(np.array_equal(a[f], b[f]) for f in a.dtype.names))
    return bool(np.array_equal(a, b))


def show(a):
    if a is None:
        return None
    a = np.asarray(a)
    return a.tolist() if a.size <= 40 and a.dtype.kind not in "Mm" and not a.dtype.names else (a.astype(str).tolist() if a.size <= 40 else str(a.shape))


def diff_snap(got, want, before, skip=None):
    """(what, details) or None.  `skip`: positions whose value is not defined (see run_store)"""
    if skip is not None and want["mask"] is None:
        got, want = dict(got, data=got["data"].copy()), dict(want, data=want["data"].copy())
        got["data"][skip] = want["data"][skip]
    for key in ("cls", "dtype"):
        if got[key] != want[key]:
            return "target-" + key, {"got": got[key], "want": want[key]}
    if want["mask"] is not None and not np.array_equal(got["mask"], want["mask"]):
        det = {"got_mask": show(got["mask"]), "want_mask": show(want["mask"])}
        if np.array_equal(got["mask"], before["mask"]) and want["mask"].sum() > got["mask"].sum():
            return "mask-lost", det
        return "mask-mismatch", det
    if want["mask"] is not None:
        vis = ~want["mask"]
        gd, wd = got["data"], want["data"]
        if gd.dtype.names:
            ok = all(np.array_equal(gd[f][vis], wd[f][vis]) for f in gd.dtype.names)
        else:
            ok = np.array_equal(gd[vis], wd[vis])
        if not ok:
            return "values", {"got": show(np.ma.masked_array(got["data"], got["mask"]).filled(tfill(gd.dtype)) if not gd.dtype.names else gd),
                              "want": show(np.ma.masked_array(want["data"], want["mask"]).filled(tfill(gd.dtype)) if not gd.dtype.names else wd)}
        if not same_data(gd, wd):
            return "data-under-mask", {"got": show(gd), "want": show(wd)}
    elif not same_data(got["data"], want["data"]):
        return "values", {"got": show(got["data"]), "want": show(want["data"])}
    for key in ("fill_value", "hard"):
        if got[key] != want[key]:
            return "target-" + key, {"got": got[key], "want": want[key]}
    return None


def dec_region(e):
    if e is None:
        return None
    return tuple(slice(i[1], i[2], i[3]) if isinstance(i, list) else int(i) for i in e)


def classes(p):
    s = "masked" if p["src"] == "masked" else ("plain" if p["sdtype"] not in ("struct", "M8[D]", "m8[s]") else p["sdtype"].split("[")[0])
    t = {"nd": "ndarray", "ma": "masked", "ma_nomask": "masked", "ma_premask": "masked", "ma_hard": "masked-hard", "rec_ma": "masked-wrapper",
         "view": "view", "tview": "view", "fortran": "fortran", "readonly": "readonly"}[p["tkind"]]
    if p.get("tdtype") and p["tdtype"] != p["sdtype"]:
        t += "(cast)"
    return f"{s}->{t}"


def run_store(case):
    """(signature or None, details)"""
    import dask
    import dask_array as da

    srcs, oracles, tgts, holders, twins, twin_holders, regions, before = [], [], [], [], [], [], [], []
    oracle_raises = []
    with warnings.catch_warnings():
        warnings.simplefilter("ignore")
        try:
            for k, p in enumerate(case["pairs"]):
                d, arr = build_source(p, k)
                t, h = build_target(p)
                if not p["shape"] and p["src"] == "masked" and not isinstance(h, np.ma.MaskedArray) and maskof(arr).any():
                    # a masked 0-d element is the constant np.ma.masked, which carries no data: the value a target
                    # WITHOUT a mask receives for it is not defined (not part of the property)
                    return "invalid-case", {}
                tw, twh = build_target(p)
                r = dec_region(p["region"])
                before.append(snap(h))
                try:
                    if r is None:
                        if tuple(p["tshape"]) != tuple(p["shape"]):
                            return "invalid-case", {}
                        tw[...] = arr
                    else:
                        if tw[r].shape != arr.shape:
                            return "invalid-case", {}
                        tw[r] = arr
                    oracle_raises.append(None)
                except Exception as e:  # noqa: BLE001
                    oracle_raises.append(type(e).__name__)
                srcs.append(d), oracles.append(arr), tgts.append(t), holders.append(h), twins.append(tw), twin_holders.append(twh)
                regions.append(r)
        except Exception as e:  # noqa: BLE001
            return "invalid-case", {"build": repr(e)[:200]}
        mode = case["mode"]
        kwargs = {"lock": {"true": True, "false": False}[case.get("lock", "true")], "compute": mode in ("compute", "rs"),
                  "return_stored": mode in ("rs", "rs_lazy")}
        single = len(srcs) == 1 and case.get("single", True)
        regs = None if all(r is None for r in regions) else (regions[0] if single else list(regions))
        raised = None
        stored = None
        with dask.config.set({"array.optimize-graph": bool(case.get("optimize", True)), "scheduler": case.get("sched", "sync")}):
            try:
                res = da.store(srcs[0] if single else srcs, tgts[0] if single else tgts, regions=regs, **kwargs)
                if mode == "lazy":
                    dask.compute(res)
                elif kwargs["return_stored"]:
                    arrs = res if isinstance(res, tuple) else (res,)
                    stored = [a.compute() for a in arrs]
            except Exception as e:  # noqa: BLE001
                raised = e
        must_refuse = [k for k, o in enumerate(oracle_raises) if o is not None and np.size(oracles[k]) > 0]
        cl = classes(case["pairs"][must_refuse[0] if must_refuse else 0])
        if raised is not None and not must_refuse:
            if any(o is not None for o in oracle_raises):
                return None, {"refused": True}
            return f"{cl}:raises:{type(raised).__name__}", {"error": repr(raised)[:300]}
        for k, p in enumerate(case["pairs"]):
            cl = classes(p)
            got, want = snap(holders[k]), snap(twin_holders[k])
            if oracle_raises[k] is not None:
                # NumPy refuses the assignment: nothing may have been written
                # (a cast refusal may depend on the block: blocks written before the refusing one stay written)
                if p["tkind"] == "readonly" and diff_snap(got, before[k], before[k]) is not None:
                    return f"{cl}:written-although-numpy-refuses", {"pair": k, "numpy": oracle_raises[k], "got": show(got["data"])}
                continue
            if raised is not None:
                # another pair was refused; this one may be written, partly written or untouched - per position
                continue
            bad = diff_snap(got, want, before[k])
            if bad is not None:
                return f"{cl}:{bad[0]}", dict(bad[1], pair=k)
        if must_refuse and raised is None:
            k = must_refuse[0]
            return f"{classes(case['pairs'][k])}:accepts-what-numpy-refuses", {"pair": k, "numpy": oracle_raises[k]}
        if stored is not None and raised is None:
            for k, s in enumerate(stored):
                r = regions[k]
                want = twin_holders[k] if False else (twins[k].a if isinstance(twins[k], MaskedRec) else twins[k])
                want = want[...] if r is None else want[r]
                cl = classes(case["pairs"][k])
                gm, wm = maskof(s), maskof(want)
                if gm.shape != wm.shape:
                    return f"{cl}:return_stored-shape", {"pair": k, "got": gm.shape, "want": wm.shape}
                if not np.array_equal(gm, wm):
                    return f"{cl}:return_stored-mask", {"pair": k, "got_mask": show(gm), "want_mask": show(wm)}
                gd, wd = np.ma.getdata(s), np.ma.getdata(want)
                vis = ~wm
                if gd.dtype.names:
                    ok = gd.dtype == wd.dtype and all(np.array_equal(gd[f][vis], wd[f][vis]) for f in gd.dtype.names)
                else:
                    ok = np.array_equal(gd[vis], wd[vis])
                if not ok:
                    return f"{cl}:return_stored-values", {"pair": k, "got": show(gd), "want": show(wd)}
    return None, ({"refused": True, "error": type(raised).__name__} if raised is not None else {})


# --------------------------------------------------------------------------- generators

def mk_pair(rng, src="plain", sdtype="f8", mask_mode="some", tkind="nd", tdtype=None, region=None, rank=None, derived=None):
    from harness.props.C25 import enc_region, rand_region

    rank = rng.choice([1, 1, 2, 2, 2, 3]) if rank is None else rank
    if tkind in ("fortran", "tview") and rank < 2:
        rank = 2
    shape = tuple(rng.randint(1, 5) if rng.random() > 0.03 else 0 for _ in range(rank))
    if tkind == "readonly" and 0 in shape:
        shape = tuple(max(1, n) for n in shape)
    chunks = [list(gen.rand_chunks(rng, n, zeros=0.05, maxparts=3)) for n in shape]
    if src == "masked" and mask_mode == "blocks" and rank and all(len(c) == 1 for c in chunks):
        n = max(2, shape[0])
        shape = (n,) + shape[1:]
        chunks[0] = [1, n - 1]
    use_region = (rng.random() < 0.6) if region is None else region
    if use_region:
        tshape, reg = rand_region(rng, shape)
    else:
        tshape, reg = shape, None
    p = {"shape": list(shape), "chunks": chunks, "sdtype": sdtype, "src": src, "tshape": list(tshape), "region": enc_region(reg),
         "tkind": tkind, "mseed": rng.randint(0, 11),
         "derived": derived or rng.choice(["none", "none", "none", "add", "rechunk", "slice"])}
    if tdtype and tkind == "ma_hard" and not np.can_cast(_dt(sdtype), _dt(tdtype), "same_kind"):
        tdtype = None  # np.ma hard-mask assignment casts same_kind for selections of > 1 element, unsafe for 1 element
    if tdtype:
        p["tdtype"] = tdtype
    if src == "masked":
        p["mask_mode"] = mask_mode
        p["sfill"] = rng.choice([None, None, -5, 99])
        if mask_mode == "blocks":
            p["derived"] = "none"
    if tkind.startswith("ma") or tkind == "rec_ma":
        p["tfill"] = rng.choice([None, None, -3, 77])
    return p


def mk_case(rng, pairs, mode=None):
    return {"kind": "typ.store", "pairs": pairs, "mode": mode or rng.choice(MODES), "lock": rng.choice(["true", "false"]),
            "optimize": rng.random() < 0.7, "single": rng.random() < 0.5, "sched": rng.choice(["sync", "sync", "threads"])}


def grid(ctx):
    rng = ctx.rng
    out = []
    # source block class x target class x run mode
    for mm in MASK_MODES + (None,):
        for tk in TKINDS:
            for mode in MODES:
                sd = rng.choice(MASKABLE)
                p = mk_pair(rng, src="masked" if mm else "plain", sdtype=sd, mask_mode=mm or "some", tkind=tk)
                out.append(mk_case(rng, [p], mode))
    # casts on write (NumPy casts or refuses), plain and masked sources, ndarray / masked / view targets
    for sd, td in CASTS:
        for tk in ("nd", rng.choice(["ma", "ma_premask", "view", "fortran", "rec_ma"])):
            src = "masked" if (sd in MASKABLE and rng.random() < 0.4) else "plain"
            p = mk_pair(rng, src=src, sdtype=sd, mask_mode=rng.choice(MASK_MODES), tkind=tk, tdtype=td)
            out.append(mk_case(rng, [p]))
    # every source dtype into a same-dtype target of every non-masked kind; masked targets for the maskable ones
    for sd in SRC_DTYPES:
        for tk in ("nd", "view", "fortran", "readonly", "ma"):
            out.append(mk_case(rng, [mk_pair(rng, sdtype=sd, tkind=tk)]))
    # rank 0
    for mm in ("some", "none", None):
        for tk in ("nd", "ma", "ma_nomask", "readonly"):
            p = mk_pair(rng, src="masked" if mm else "plain", sdtype="f8", mask_mode=mm or "some", tkind=tk, rank=0, derived="none")
            out.append(mk_case(rng, [p]))
    # two pairs in one call: masked and plain sources, masked and plain targets
    for _ in range(ctx.scale(12, 60)):
        ps = [mk_pair(rng, src=rng.choice(["masked", "plain"]), sdtype=rng.choice(MASKABLE), mask_mode=rng.choice(MASK_MODES),
                      tkind=rng.choice(TKINDS[:9])) for _ in range(2)]
        c = mk_case(rng, ps)
        c["single"] = False
        out.append(c)
    return out


def rand_case(rng):
    if rng.random() < 0.6:
        sd = rng.choice(MASKABLE)
        p = mk_pair(rng, src="masked", sdtype=sd, mask_mode=rng.choice(MASK_MODES), tkind=rng.choice(TKINDS),
                    tdtype=rng.choice([None, None, "f8", "i8", "i4", "f4"]))
    else:
        sd = rng.choice(SRC_DTYPES)
        td = rng.choice([None, None] + [t for s, t in CASTS if s == sd])
        p = mk_pair(rng, sdtype=sd, tkind=rng.choice(TKINDS), tdtype=td)
    return mk_case(rng, [p])


def shrink(case, sig, budget=40):
    best = case
    tries = 0

    def still(c):
        nonlocal tries
        tries += 1
        try:
            return run_store(c)[0] == sig
        except Exception:  # noqa: BLE001
            return False

    changed = True
    while changed and tries < budget:
        changed = False
        if len(best["pairs"]) > 1:
            for i in range(len(best["pairs"])):
                c = dict(best, pairs=best["pairs"][:i] + best["pairs"][i + 1:])
                if still(c):
                    best, changed = c, True
                    break
            if changed:
                continue
        for k, v in (("lock", "false"), ("optimize", True), ("sched", "sync"), ("mode", "compute"), ("single", True)):
            if best.get(k) != v:
                c = dict(best, **{k: v})
                if still(c):
                    best, changed = c, True
                    break
        if changed:
            continue
        for i, p in enumerate(best["pairs"]):
            for k, v in (("derived", "none"), ("region", None), ("chunks", [[n] for n in p["shape"]]), ("sfill", None), ("tfill", None)):
                if k in p and p[k] != v:
                    q = dict(p, **{k: v})
                    if k == "region":
                        q["tshape"] = list(p["shape"])
                    if k == "chunks" and p.get("mask_mode") == "blocks":
                        continue
                    c = dict(best, pairs=best["pairs"][:i] + [q] + best["pairs"][i + 1:])
                    if still(c):
                        best, changed = c, True
                        break
            if changed:
                break
    return best


# --------------------------------------------------------------------------- npy stack

NPY_SRC = (("plain", "f8"), ("plain", "struct"), ("plain", "M8[D]"), ("plain", "m8[s]"), ("plain", "bool"), ("plain", "c16"), ("plain", "f4"),
           ("plain", "u1"), ("masked", "f8"), ("masked", "i8"))


def np_save_load(blk, path):
    np.save(path, blk)  # a real file: np.save of a MaskedArray goes through tofile and is refused
    return np.array(np.load(path))


def run_npy(case):
    import dask_array as da

    from harness.props.C25 import SCRATCH

    p = case["spec"]
    axis = case["axis"]
    chunks = tuple(tuple(c) for c in p["chunks"])
    shape = tuple(p["shape"])
    tmp = tempfile.mkdtemp(prefix="verif-c25t-", dir=SCRATCH)
    cl = ("masked" if p["src"] == "masked" else p["sdtype"])
    try:
        with warnings.catch_warnings():
            warnings.simplefilter("ignore")
            d, arr = build_source(p, 3)
            want_blocks, oracle_err = [], None
            pos = 0
            for c in chunks[axis]:
                ix = tuple(slice(pos, pos + c) if a == axis else slice(None) for a in range(len(shape)))
                pos += c
                try:
                    want_blocks.append(np_save_load(arr[ix], os.path.join(tmp, "oracle.npy")))
                except Exception as e:  # noqa: BLE001
                    oracle_err = type(e).__name__
                    break
            dirname = os.path.join(tmp, "stack")
            try:
                da.to_npy_stack(dirname, d, axis=axis)
            except Exception as e:  # noqa: BLE001
                if oracle_err is not None:
                    return None, {"refused": True}
                return f"npy:{cl}:raises:{type(e).__name__}", {"error": repr(e)[:300]}
            if oracle_err is not None:
                # np.save refuses this array; whatever was written must not present masked data as valid
                try:
                    y = da.from_npy_stack(dirname, mmap_mode=case.get("mmap_mode")).compute()
                    return f"npy:{cl}:saved-although-np.save-refuses", {"numpy": oracle_err, "read_back": show(np.asarray(y))}
                except Exception as e:  # noqa: BLE001
                    return f"npy:{cl}:saved-although-np.save-refuses", {"numpy": oracle_err, "read_back_error": repr(e)[:200]}
            for i, w in enumerate(want_blocks):
                blk = np.load(os.path.join(dirname, f"{i}.npy"))
                if blk.dtype != w.dtype or not same_data(np.asarray(blk), np.asarray(w)):
                    return f"npy:{cl}:file-content", {"file": i, "got": show(blk), "want": show(w)}
            try:
                y = da.from_npy_stack(dirname, mmap_mode=case.get("mmap_mode"))
                got = np.asarray(y.compute())
            except Exception as e:  # noqa: BLE001
                return f"npy:{cl}:read-back-raises:{type(e).__name__}", {"error": repr(e)[:300]}
            plain = np.asarray(arr)
            if y.dtype != plain.dtype or tuple(y.shape) != shape:
                return f"npy:{cl}:read-back-metadata", {"got": [str(y.dtype), list(y.shape)], "want": [str(plain.dtype), list(shape)]}
            if not same_data(got, plain):
                return f"npy:{cl}:read-back-values", {"got": show(got), "want": show(plain)}
    finally:
        shutil.rmtree(tmp, ignore_errors=True)
    return None, {}


def npy_cases(ctx):
    rng = ctx.rng
    out = []
    for src, sd in NPY_SRC:
        for _ in range(ctx.scale(2, 8)):
            rank = rng.randint(1, 3)
            p = mk_pair(rng, src=src, sdtype=sd, mask_mode=rng.choice(MASK_MODES), rank=rank, region=False, derived=rng.choice(["none", "none", "rechunk"]))
            out.append({"kind": "typ.npy", "spec": p, "axis": rng.randint(0, rank - 1), "mmap_mode": rng.choice(["r", None])})
    return out


# --------------------------------------------------------------------------- entry

def replay_case(case):
    if case.get("kind") == "typ.npy":
        return run_npy(case)
    return run_store(case)


def run(ctx, replay=None):
    if replay is not None:
        case = replay.get("case", replay)
        prog = case.get("program", case)
        sig, det = replay_case(prog)
        if sig not in (None, "invalid-case"):
            ctx.fail(f"store-types:{sig}", {"kind": prog["kind"], "program": prog, "details": det}, "replayed typ case still fails")
        ctx.count(("typ", "replay"))
        return
    rng = ctx.rng
    t0 = ctx.elapsed()
    budget = ctx.scale(5.0, 60.0)
    forces = grid(ctx)
    done = refused = invalid = 0
    per_sig = {}
    shrunk = set()
    tally = {}
    n_random = ctx.scale(400, 8000)
    for j in range(len(forces) + n_random):
        if j >= len(forces):
            if ctx.elapsed() - t0 > budget:
                break
            case = rand_case(rng)
        else:
            if ctx.elapsed() - t0 > 3 * budget:
                break
            case = forces[j]
        try:
            sig, det = run_store(case)
        except Exception as e:  # noqa: BLE001
            ctx.notes.setdefault("typ.harness_errors", []).append(repr(e)[:200])
            continue
        if sig == "invalid-case":
            invalid += 1
            continue
        done += 1
        refused += bool(det.get("refused"))
        p0 = case["pairs"][0]
        key = (p0["src"], p0.get("mask_mode") if p0["src"] == "masked" else p0["sdtype"], p0["tkind"], case["mode"])
        tally[f"{p0['src']}/{p0.get('mask_mode', '-')}->{p0['tkind']}"] = tally.get(f"{p0['src']}/{p0.get('mask_mode', '-')}->{p0['tkind']}", 0) + 1
        ctx.count(("typ",) + key + (p0.get("tdtype") is not None, p0["region"] is not None, len(case["pairs"])))
        if done % 97 == 0:
            ctx.sample({"program": case, "outcome": sig or "ok"})
        if sig is not None:
            per_sig[sig] = per_sig.get(sig, 0) + 1
            if per_sig[sig] > 3:
                continue
            small = shrink(case, sig) if sig not in shrunk else case
            shrunk.add(sig)
            s2, d2 = run_store(small)
            if s2 != sig:
                small, d2 = case, det
            ctx.fail(f"store-types:{sig}", {"kind": "typ.store", "program": small, "details": d2},
                     "da.store into a typed target differs from NumPy's own `target[region] = source` on a twin target")
    t1 = ctx.elapsed()
    ndone = 0
    for case in npy_cases(ctx):
        try:
            sig, det = run_npy(case)
        except Exception as e:  # noqa: BLE001
            ctx.notes.setdefault("typ.harness_errors", []).append(repr(e)[:200])
            continue
        ndone += 1
        ctx.count(("typ.npy", case["spec"]["src"], case["spec"]["sdtype"], len(case["spec"]["shape"]), case["axis"], bool(det.get("refused"))))
        if sig is not None:
            per_sig[sig] = per_sig.get(sig, 0) + 1
            if per_sig[sig] > 2:
                continue
            ctx.fail(f"store-types:{sig}", {"kind": "typ.npy", "program": case, "details": det},
                     "to_npy_stack / from_npy_stack differs from np.save / np.load of the blocks")
    ctx.notes["typ.rule"] = (
        "store of plain (10 dtypes incl. datetime / structured) and np.ma blocks (mask some / all / none / nomask / only in some blocks, "
        "fill_value) into ndarray / masked (all-False, nomask, pre-masked soft and hard, fill_value) / masked wrapper / strided view / "
        "transposed view / Fortran / read-only targets, same and different dtype, regions, compute / lazy / return_stored eager and lazy, "
        "1-2 pairs: full grid of (source class x target class x mode) + casts + random; oracle NumPy `target[region] = source` on a twin; "
        "npy stack with masked / structured / datetime / bool / complex sources vs np.save / np.load per block")
    ctx.notes["typ.store_programs"] = done
    ctx.notes["typ.store_grid"] = len(forces)
    ctx.notes["typ.store_refusals_matching_numpy"] = refused
    ctx.notes["typ.invalid_generated"] = invalid
    ctx.notes["typ.npy_programs"] = ndone
    ctx.notes["typ.by_class"] = dict(sorted(tally.items()))
    if per_sig:
        ctx.notes["typ.failures"] = dict(per_sig)
    ctx.notes["typ.store_s"] = round(t1 - t0, 2)
    ctx.notes["typ.total_s"] = round(ctx.elapsed() - t0, 2)
