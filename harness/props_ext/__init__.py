"""Extension modules of property checks (called from harness/props/<ID>.py)."""
