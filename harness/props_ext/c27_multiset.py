"""C27 extension — INDEX MULTISETS in shuffle-like nodes and degenerate operand multiplicities.

Definition judged (taken from the unchanged implementation: `Shuffle.transfer_bytes` comment in dask_array/_shuffle.py
and the `ArrayExpr.transfer_bytes` docstring in dask_array/_expr.py).  A `Shuffle(array, indexer, axis)` node produces
`y = take(array, flat, axis)` with `flat` = the concatenation of the indexer's groups; its output chunks along `axis`
(node.chunks[axis]) cut `flat` into consecutive runs ("output chunks").  The layer has one *split* task per
(output chunk, source block touched) -- it reads the source block whole and keeps the picked rows, REPEATS INCLUDED --
and, for an output chunk that touches more than one source block, one *merge* task that gathers all pieces.  Hence,
with row = bytes of one hyperplane of the input along `axis`,

    min = row * sum over output chunks of (len(chunk) - max over source blocks of #picks of the chunk in that block)
          ("each output chunk is assembled where its largest source contribution lives"; picks count with
          multiplicity: a row picked r times is r rows of the piece)
    max = row * sum over output chunks of (sum of the lengths of the DISTINCT source blocks touched
          + len(chunk) if more than one source block is touched)
          ("every split fetches its source block whole and every multi-source merge fetches all its pieces").

Consequences checked separately (narrower signatures): an output chunk drawn from ONE source block moves 0 under min;
max <= bytes of the distinct source blocks touched + bytes of the multi-source output chunks; min <= max; the estimate
depends on the picks of an output chunk only as a multiset (permuting rows within an output chunk changes nothing).

Oracles (both independent of `transfer_bytes`):
  * `shuffle_bruteforce`: the definition above evaluated by linear scans over (input chunks, node.chunks, indexer);
  * `shuffle_graph`: the same two sums read off the node's real task layer (`_layer()`): source-block dependencies of
    the split tasks, lengths of their taker index arrays, piece dependencies of the merge tasks.
`judge_shuffle` is called from C27.check_node for EVERY Shuffle node met by ANY C27 stream in any phase (raw,
simplified -- where slice/transposition pushdown builds new Shuffle nodes with rewritten indexers -- lowered, fused...).

Streams (`multiset_stream`, programs replay through C27.run_program):
  * index multisets: repeated blocks of rows (repeat count larger than the source block), all-equal, unsorted with
    duplicates, sorted with duplicates, every-block-once (in order / reversed), single-source-block, interleaved between
    two blocks, block-boundary rows, negative indices, permutation, reverse, identity, empty; over ragged source layouts
    incl. single-row blocks and zero-length blocks; rank 1-3, every axis; via x[list], x[ndarray], da.take, x.vindex,
    da.shuffle / x.shuffle with seeded groupings (groups longer than the largest source chunk are split by the node),
    point-wise vindex on two axes (VIndexArray) and a dask-array index (well-formedness of their nodes only);
    followed by nothing / a slice on the shuffled axis / transpose / a reduction / elementwise; under
    array.chunk-size-tolerance settings.
  * operand multiplicities for the other estimate-bearing nodes: concatenate of the same array k times, stack of one
    array k times, broadcast_to with a new / a length-1 axis, tile, repeat, block of one array: well-formedness of every
    node in every phase (C27.check_node) plus, for Stack and Concatenate nodes (whose comments define max as the bytes
    of the input blocks fetched / pure alias routing), max <= bytes of the input blocks referenced by the real layer,
    counted with multiplicity.
"""
from __future__ import annotations

import math
import warnings

import numpy as np

RTOL = 1e-9
GRAPH_BLOCKS = 400  # layers with more output blocks are not expanded for the graph oracle
FAILS = {}  # signature -> failures recorded so far in this process (a class-wide defect fails on hundreds of nodes)
MAX_PER_SIG = 3


def _fail(ctx, sig, case, what):
    FAILS[sig] = FAILS.get(sig, 0) + 1
    if FAILS[sig] > MAX_PER_SIG:
        ctx.notes[f"multiset.further_failures.{sig}"] = FAILS[sig] - MAX_PER_SIG
        return
    ctx.fail(sig, case, what)


def _close(a, b):
    a, b = float(a), float(b)
    return abs(a - b) <= RTOL * max(1.0, abs(a), abs(b))


# ------------------------------------------------------------------ oracles

def block_of(chunks, i):
    """Index of the block of the layout `chunks` holding row i (linear scan; zero-length blocks hold nothing)."""
    lo = 0
    for k, c in enumerate(chunks):
        if lo <= i < lo + c:
            return k
        lo += c
    raise IndexError(i)


def shuffle_bruteforce(src_axis_chunks, out_axis_chunks, flat):
    """(min rows, max rows, per-output-chunk [(len, {block: picks})]) by the definition in the module docstring."""
    lo = hi = 0
    p = 0
    per = []
    for c in out_axis_chunks:
        picks = flat[p:p + c]
        p += c
        counts = {}
        for i in picks:
            b = block_of(src_axis_chunks, i)
            counts[b] = counts.get(b, 0) + 1
        per.append((len(picks), counts))
        lo += len(picks) - max(counts.values(), default=0)
        hi += sum(src_axis_chunks[b] for b in counts)
        if len(counts) > 1:
            hi += len(picks)
    return lo, hi, per


def _block_bytes(chunks, idx, itemsize):
    n = itemsize
    for c, i in zip(chunks, idx):
        n *= c[i]
    return n


def shuffle_graph(node):
    """(min bytes, max bytes) read off the node's real layer, or None when the layer has a shape this reader does not
    understand (noted, never a failure)."""
    from dask._task_spec import DataNode

    src = node.array
    axis = node.axis
    item = node.dtype.itemsize
    layer = node._layer()
    aname = src._name
    piece = {}
    hi = 0
    pending = []
    for key, t in layer.items():
        if isinstance(t, DataNode):
            continue
        deps = list(getattr(t, "dependencies", ()))
        srcs = [d for d in deps if isinstance(d, tuple) and d and d[0] == aname]
        if srcs:
            if len(srcs) != 1:
                return None
            s = srcs[0]
            hi += _block_bytes(src.chunks, s[1:], item)
            takers = [d for d in deps if d in layer and isinstance(layer[d], DataNode) and isinstance(layer[d].value, tuple)
                      and len(layer[d].value) == 2 and isinstance(layer[d].value[1], tuple)]
            if len(takers) != 1:
                return None
            rows = len(layer[takers[0]].value[1][axis])
            other = item
            for d, (c, i) in enumerate(zip(src.chunks, s[1:])):
                if d != axis:
                    other *= c[i]
            piece[key] = rows * other
        else:
            pending.append((key, deps))
    lo = 0
    for key, deps in pending:
        ps = [piece[d] for d in deps if d in piece]
        if len(ps) < 2:
            return None
        hi += sum(ps)
        lo += sum(ps) - max(ps)
    return lo, hi


def _flat_indexer(node):
    flat = []
    for g in node.indexer:
        flat.extend(int(i) for i in g)
    return flat


def judge_shuffle(ctx, node, case, lo, hi):
    """Brute-force / graph oracles for one Shuffle node with known sizes and a well-formed (lo, hi)."""
    try:
        axis = node.axis
        src_chunks = tuple(int(c) for c in node.array.chunks[axis])
        out_chunks = tuple(int(c) for c in node.chunks[axis])
        flat = _flat_indexer(node)
        n = sum(src_chunks)
        item = node.dtype.itemsize
        row = item
        for d, c in enumerate(node.array.chunks):
            if d != axis:
                row *= int(sum(c))
    except Exception as e:  # noqa: BLE001 - an ill-formed node is not judged here
        k = "multiset.shuffle_nodes_unreadable." + type(e).__name__
        ctx.notes[k] = ctx.notes.get(k, 0) + 1
        return
    if sum(out_chunks) != len(flat) or any(not (0 <= i < n) for i in flat):
        # output layout does not cut the indexer / out-of-range rows: C12's business (values), not an estimate matter
        ctx.notes["multiset.shuffle_nodes_layout_mismatch"] = ctx.notes.get("multiset.shuffle_nodes_layout_mismatch", 0) + 1
        return
    blo, bhi, per = shuffle_bruteforce(src_chunks, out_chunks, flat)
    repeats = len(set(flat)) < len(flat)
    single = all(len(c) <= 1 for _l, c in per)
    small_block = any(src_chunks[b] < k for _l, c in per for b, k in c.items())
    case = dict(case, shuffle={"axis": axis, "src_chunks": list(src_chunks), "out_chunks": list(out_chunks),
                               "indexer": [list(map(int, g)) for g in node.indexer] if len(flat) <= 200 else f"<{len(flat)} rows>",
                               "row_bytes": row, "bruteforce": [blo * row, bhi * row]})
    ctx.count(("shuffle-oracle", case.get("phase"), repeats, single, small_block, 0 in src_chunks, min(len(out_chunks), 4), blo == 0))
    if single and float(lo) != 0:
        _fail(ctx, "shuffle:single-source-nonzero-min", case,
              "every output chunk of the Shuffle node is drawn from ONE source block, yet min is non-zero")
    elif not _close(lo, blo * row):
        _fail(ctx, "shuffle:min-differs-from-bruteforce", case,
              "Shuffle min differs from the brute-force count (rows of each output chunk not in its largest source contribution, repeats included)")
    touched = sum(sum(src_chunks[b] for b in c) + (l if len(c) > 1 else 0) for l, c in per) * row
    if float(hi) > touched * (1 + RTOL) + RTOL:
        _fail(ctx, "shuffle:max-exceeds-touched", case,
              "Shuffle max exceeds the bytes of the distinct source blocks touched plus the pieces of multi-source chunks")
    elif not _close(hi, bhi * row):
        _fail(ctx, "shuffle:max-differs-from-bruteforce", case,
              "Shuffle max differs from the brute-force count (touched source blocks whole + pieces of multi-source chunks)")
    # the real layer
    nblocks = 1
    for c in node.chunks:
        nblocks *= len(c)
    if nblocks <= GRAPH_BLOCKS and len(flat) <= 4000:
        try:
            g = shuffle_graph(node)
        except Exception as e:  # noqa: BLE001 - layer construction failures belong to C12/C08
            g = None
            k = "multiset.shuffle_layer_raises." + type(e).__name__
            ctx.notes[k] = ctx.notes.get(k, 0) + 1
        if g is None:
            ctx.notes["multiset.shuffle_layers_not_read"] = ctx.notes.get("multiset.shuffle_layers_not_read", 0) + 1
        else:
            ctx.count(("shuffle-graph", case.get("phase"), repeats, single))
            case = dict(case, graph=[g[0], g[1]])
            if not _close(lo, g[0]):
                _fail(ctx, "shuffle:min-differs-from-layer", case, "Shuffle min differs from the count read off its task layer (merge pieces minus the largest)")
            if not _close(hi, g[1]):
                _fail(ctx, "shuffle:max-differs-from-layer", case, "Shuffle max differs from the bytes the tasks of its layer reference")
    # multiset invariance: rows of an output chunk in sorted / reversed order
    if len(flat) <= 4000:
        try:
            cls = type(node)
            for how in ("sorted", "reversed"):
                groups, p = [], 0
                for c in out_chunks:
                    g_ = flat[p:p + c]
                    p += c
                    groups.append(sorted(g_) if how == "sorted" else g_[::-1])
                if groups == [list(map(int, g)) for g in node.indexer]:
                    continue
                other = cls(node.array, groups, axis, node.operand("name"))
                if tuple(other.chunks) != tuple(node.chunks):
                    ctx.notes["multiset.permuted_node_other_layout"] = ctx.notes.get("multiset.permuted_node_other_layout", 0) + 1
                    continue
                olo, ohi = other.transfer_bytes
                ctx.count(("shuffle-perm", how, repeats))
                if not (_close(olo, lo) and _close(ohi, hi)):
                    _fail(ctx, "shuffle:not-multiset-invariant", dict(case, permuted=how, permuted_got=[repr(olo), repr(ohi)]),
                          "permuting the rows within the output chunks of a Shuffle node changes its estimate")
        except Exception as e:  # noqa: BLE001
            k = "multiset.permuted_node_raises." + type(e).__name__
            ctx.notes[k] = ctx.notes.get(k, 0) + 1


def judge_fetch_bound(ctx, node, case, lo, hi, ArrayExpr):
    """Stack / Concatenate: max <= bytes of the input blocks the real layer references (with multiplicity)."""
    from dask._task_spec import Alias, DataNode

    nblocks = 1
    for c in node.chunks:
        nblocks *= len(c)
    if nblocks > GRAPH_BLOCKS:
        return
    try:
        deps = {}
        for d in node.dependencies():
            if isinstance(d, ArrayExpr):
                deps[d._name] = d
        layer = node._layer()
        touched = 0
        vals = list(layer.values())
        pure_alias = bool(vals) and all(isinstance(v, Alias) and v.target not in layer for v in vals)
        for key, t in layer.items():
            if isinstance(t, DataNode):
                continue
            ds = [t.target] if isinstance(t, Alias) else list(getattr(t, "dependencies", ()))
            for d in ds:
                if isinstance(d, tuple) and d and d[0] in deps:
                    a = deps[d[0]]
                    touched += _block_bytes(a.chunks, d[1:], a.dtype.itemsize)
    except Exception as e:  # noqa: BLE001
        k = f"multiset.fetch_bound_unreadable.{type(node).__name__}.{type(e).__name__}"
        ctx.notes[k] = ctx.notes.get(k, 0) + 1
        return
    ctx.count(("fetch-bound", type(node).__name__, case.get("phase"), float(hi) == touched, len(deps), pure_alias))
    if pure_alias and (float(lo) != 0 or float(hi) != 0):
        # same rule and signature as C27.check_node's alias oracle, which only sees nodes that are NEW in a lowered phase
        _fail(ctx, f"node:alias-nonzero:{type(node).__name__}", dict(case, touched=touched),
              "a node whose layer is pure Alias routing reports a non-zero transfer estimate")
        return
    if float(hi) > touched * (1 + RTOL) + RTOL:
        _fail(ctx, f"fetch-bound:max-exceeds-touched:{type(node).__name__}", dict(case, touched=touched),
              "max exceeds the bytes of the input blocks the node's layer references (counted with multiplicity)")


# ------------------------------------------------------------------ program steps (pure functions of the step data)

def apply_ms_step(da, a, step):
    op, p = step[0], step[1]
    if op == "ms_index":
        ax = p["axis"]
        idx = [int(i) for i in p["idx"]]
        via = p["via"]
        if via == "take":
            return da.take(a, idx, axis=ax)
        if via == "take_np":
            return da.take(a, np.asarray(idx, dtype=p.get("idx_dtype", "i8")), axis=ax)
        if via in ("shuffle", "shuffle_method"):
            groups = [[int(i) for i in g] for g in p["groups"]]
            return da.shuffle(a, groups, ax) if via == "shuffle" else a.shuffle(groups, axis=ax)
        sel = [slice(None)] * a.ndim
        if via == "getitem":
            sel[ax] = idx
            return a[tuple(sel)]
        if via == "getitem_np":
            sel[ax] = np.asarray(idx, dtype=p.get("idx_dtype", "i8"))
            return a[tuple(sel)]
        if via == "vindex":
            sel[ax] = idx
            return a.vindex[tuple(sel)]
        if via == "vindex2":
            # point-wise on two axes (VIndexArray): the same point may be picked many times
            other = (ax + 1) % a.ndim
            sel[ax] = idx
            if other != ax:
                sel[other] = [i % int(a.shape[other]) for i in idx]
            return a.vindex[tuple(sel)]
        if via == "dask_index":
            k = da.from_array(np.asarray(idx, dtype="i8"), chunks=max(1, p.get("idx_chunk", len(idx))))
            sel[ax] = k
            return a[tuple(sel)]
        raise KeyError(via)
    if op == "ms_mult":
        kind, k, ax = p["kind"], p.get("k", 2), p.get("axis", 0)
        if kind == "concat_same":
            return da.concatenate([a] * k, axis=ax)
        if kind == "concat_same_mixed":
            return da.concatenate([a, a + 1, a], axis=ax)
        if kind == "stack_same":
            return da.stack([a] * k, axis=ax)
        if kind == "stack_same_mixed":
            return da.stack([a, a * 2, a], axis=ax)
        if kind == "broadcast_new":
            return da.broadcast_to(a, (k,) + tuple(a.shape), **({"chunks": p["chunks"]} if p.get("chunks") else {}))
        if kind == "broadcast_len1":
            b = a[tuple(slice(0, 1) if d == ax else slice(None) for d in range(a.ndim))]
            shape = list(b.shape)
            shape[ax] = k
            return da.broadcast_to(b, tuple(shape))
        if kind == "tile":
            return da.tile(a, k)
        if kind == "tile_nd":
            return da.tile(a, tuple(p["reps"]))
        if kind == "repeat":
            return da.repeat(a, k, axis=ax)
        if kind == "block_same":
            return da.block([[a, a], [a, a]]) if a.ndim >= 2 else da.block([a] * k)
        if kind == "add_self_stack":
            s = da.stack([a] * k, axis=0)
            return s.sum(axis=0)
        raise KeyError(kind)
    raise KeyError(op)


# ------------------------------------------------------------------ generators

AXIS_LAYOUTS = [
    (6, 2), (2, 6), (5, 5), (8, 1, 1, 1), (1, 1, 1, 1), (8,), (3, 0, 2), (0, 4), (4, 0), (1, 7), (2, 2, 2, 2), (1, 0, 1, 5), (3, 1, 4),
]
KINDS = ["block_repeat", "block_repeat", "all_equal", "unsorted_dups", "sorted_dups", "every_block_once", "single_block",
         "interleave", "boundary", "neg", "perm", "reverse", "identity", "empty", "pair_repeat"]
VIAS = ["getitem", "getitem_np", "take", "take_np", "vindex", "shuffle", "shuffle_method", "vindex2", "dask_index"]


def _starts(chunks):
    out, lo = [], 0
    for c in chunks:
        out.append(lo)
        lo += c
    return out


def gen_indices(rng, chunks, kind):
    """A list of row numbers of the axis layout `chunks` (n > 0) of the given multiset kind."""
    n = sum(chunks)
    st = _starts(chunks)
    nonempty = [b for b, c in enumerate(chunks) if c > 0]
    limit = max(chunks)
    if kind == "block_repeat":
        # all rows of one (preferably small) block, repeated more often than the block is long
        b = min(nonempty, key=lambda b: (chunks[b], rng.random())) if rng.random() < 0.6 else rng.choice(nonempty)
        rows = list(range(st[b], st[b] + chunks[b]))
        r = rng.choice([2, 3, chunks[b] + 1, limit, limit + 1])
        return rows * r if rng.random() < 0.7 else [i for i in rows for _ in range(r)]
    if kind == "pair_repeat":
        b = rng.choice(nonempty)
        i = st[b] + rng.randrange(chunks[b])
        j = st[b] + rng.randrange(chunks[b])
        return [i, j] * rng.choice([1, 2, 3, limit])
    if kind == "all_equal":
        return [rng.randrange(n)] * rng.choice([1, 2, limit, limit + 1, 2 * limit + 1])
    if kind == "unsorted_dups":
        return [rng.randrange(n) for _ in range(rng.randint(2, 2 * n + 1))]
    if kind == "sorted_dups":
        return sorted(rng.randrange(n) for _ in range(rng.randint(2, 2 * n + 1)))
    if kind == "every_block_once":
        rows = [st[b] + rng.randrange(chunks[b]) for b in nonempty]
        r = rng.random()
        return rows if r < 0.4 else rows[::-1] if r < 0.7 else rng.sample(rows, len(rows))
    if kind == "single_block":
        b = rng.choice(nonempty)
        return [st[b] + rng.randrange(chunks[b]) for _ in range(rng.randint(1, 2 * chunks[b] + 2))]
    if kind == "interleave":
        b0, b1 = rng.choice(nonempty), rng.choice(nonempty)
        out = []
        for _ in range(rng.randint(1, 4)):
            out += [st[b0] + rng.randrange(chunks[b0]), st[b1] + rng.randrange(chunks[b1])]
        return out
    if kind == "boundary":
        rows = sorted({r for b in nonempty for r in (st[b], st[b] + chunks[b] - 1)})
        return [rng.choice(rows) for _ in range(rng.randint(1, 2 * len(rows)))]
    if kind == "neg":
        return [rng.randint(-n, n - 1) for _ in range(rng.randint(1, n + 2))]
    if kind == "perm":
        return rng.sample(range(n), n)
    if kind == "reverse":
        return list(range(n - 1, -1, -1))
    if kind == "identity":
        return list(range(n))
    if kind == "empty":
        return []
    raise KeyError(kind)


def gen_groups(rng, idx, limit):
    """A seeded grouping of idx into consecutive runs for da.shuffle (some longer than `limit`, which the node splits)."""
    groups, i = [], 0
    mode = rng.choice(["one", "singles", "rand", "rand", "long"])
    while i < len(idx):
        if mode == "one":
            j = len(idx)
        elif mode == "singles":
            j = i + 1
        elif mode == "long":
            j = min(len(idx), i + rng.randint(limit, 2 * limit + 1))
        else:
            j = rng.randint(i + 1, min(len(idx), i + limit + 2))
        groups.append(idx[i:j])
        i = j
    return groups


def gen_case(rng, layout=None, kind=None, via=None, nd=None):
    nd = nd or rng.choice([1, 2, 2, 3])
    axis = rng.randrange(nd)
    if layout is None:
        if rng.random() < 0.6:
            layout = rng.choice(AXIS_LAYOUTS)
        else:
            layout = tuple(rng.choice([0, 1, 1, 2, 3, 5, 7]) for _ in range(rng.randint(1, 5)))
            if sum(layout) == 0:
                layout = layout + (rng.randint(1, 4),)
    chunks = []
    for d in range(nd):
        if d == axis:
            chunks.append(list(layout))
        else:
            chunks.append(list(rng.choice([(3,), (2, 1), (1, 1), (4,), (2, 2), (1,)])))
    kind = kind or rng.choice(KINDS)
    via = via or rng.choice(VIAS)
    idx = gen_indices(rng, layout, kind)
    n = sum(layout)
    if via in ("shuffle", "shuffle_method", "vindex", "vindex2", "dask_index"):
        idx = [i % n for i in idx]
    if via == "dask_index":
        p_chunk = rng.choice([1, 2, max(1, len(idx))])
    p = {"axis": axis, "idx": idx, "via": via, "kind": kind}
    if via in ("shuffle", "shuffle_method"):
        p["groups"] = gen_groups(rng, idx, max(layout))
    if via == "dask_index":
        p["idx_chunk"] = p_chunk
    if via in ("take_np", "getitem_np"):
        p["idx_dtype"] = rng.choice(["i8", "i8", "i4", "i2"])
    dtype = rng.choice(["f8", "i1", "c16", "i4"])
    if rng.random() < 0.5:
        src = ["from_array", chunks, dtype]
    else:
        src = ["zeros", [sum(c) for c in chunks], chunks, dtype]
    prog = [src]
    r0 = rng.random()
    if r0 < 0.25:
        prog.append(["scalar"])
    elif r0 < 0.45:
        # a producer the shuffle is not pushed through: the Shuffle node survives simplification and lowering
        prog.append(["cumsum", rng.randrange(nd), "sequential"])
    prog.append(["ms_index", p])
    r = rng.random() if via not in ("vindex2", "dask_index") else 0.35 + 0.65 * rng.random()
    if r < 0.15 and idx:
        # a slice on the shuffled axis (Shuffle._accept_slice rewrites the indexer)
        m = len(idx)
        a_ = rng.randint(0, m - 1)
        b_ = rng.randint(a_ + 1, m)
        out_nd = nd  # vindex keeps the rank for a single list
        sl = [["s", None, None, None]] * out_nd
        pos = 0 if via == "vindex" else axis
        sl[pos] = ["s", a_, b_, None]
        prog.append(["getitem", sl])
    elif r < 0.25 and nd >= 2:
        prog.append(["transpose", list(range(nd))[::-1]])
    elif r < 0.33:
        prog.append(["reduce", "sum", axis if via != "vindex" else 0, None, False])
    elif r < 0.4:
        prog.append(["selfadd"])
    if rng.random() < 0.2:
        prog.append(["config", {"array.chunk-size-tolerance": rng.choice([1.0, 1.25, 4.0])}])
    return prog, (kind, via, nd)


FORCED = [
    # the smallest representatives of each class, run on every seed
    [["from_array", [[6, 2], [3]], "f8"], ["ms_index", {"axis": 0, "idx": [6, 7, 6, 7, 6, 7], "via": "getitem", "kind": "block_repeat"}]],
    [["zeros", [8], [[6, 2]], "i1"], ["ms_index", {"axis": 0, "idx": [7, 7, 7, 7], "via": "take", "kind": "all_equal"}]],
    [["zeros", [4, 4], [[4], [1, 1, 1, 1]], "f8"], ["ms_index", {"axis": 1, "idx": [2, 2, 2], "via": "getitem_np", "kind": "all_equal"}]],
    [["from_array", [[8, 1, 1, 1]], "i4"], ["ms_index", {"axis": 0, "idx": [8, 8, 8, 9, 9, 9, 10, 10], "via": "vindex", "kind": "sorted_dups"}]],
    [["zeros", [5], [[3, 0, 2]], "f8"], ["ms_index", {"axis": 0, "idx": [4, 3, 4, 3, 0], "via": "shuffle", "groups": [[4, 3, 4], [3, 0]], "kind": "unsorted_dups"}]],
    [["zeros", [2, 3, 8], [[2], [2, 1], [2, 6]], "c16"], ["ms_index", {"axis": 2, "idx": [0, 1, 0, 1, 0, 1, 0], "via": "shuffle_method", "groups": [[0, 1, 0, 1, 0, 1, 0]], "kind": "block_repeat"}]],
    [["from_array", [[5, 5]], "f8"], ["ms_index", {"axis": 0, "idx": [0, 9, 3, 4, 1, 8, 2], "via": "take_np", "kind": "unsorted_dups"}]],
    [["zeros", [8], [[2, 2, 2, 2]], "f8"], ["ms_index", {"axis": 0, "idx": [1, 3, 5, 7], "via": "getitem", "kind": "every_block_once"}]],
]

MULT_KINDS = ["concat_same", "concat_same_mixed", "stack_same", "stack_same_mixed", "broadcast_new", "broadcast_len1", "tile", "tile_nd",
              "repeat", "block_same", "add_self_stack"]


def gen_mult_case(rng, kind):
    nd = rng.choice([1, 2, 2, 3])
    chunks = [list(rng.choice([(3,), (2, 1), (1, 1, 1), (4,), (2, 2), (1,), (1, 0, 2), (6, 2)])) for _ in range(nd)]
    dtype = rng.choice(["f8", "i1", "c16"])
    src = ["from_array", chunks, dtype] if rng.random() < 0.5 else ["zeros", [sum(c) for c in chunks], chunks, dtype]
    p = {"kind": kind, "k": rng.choice([1, 2, 3, 5]), "axis": rng.randrange(nd)}
    if kind in ("stack_same", "stack_same_mixed"):
        p["axis"] = rng.randint(0, nd)
    if kind == "tile_nd":
        p["reps"] = [rng.choice([1, 2, 3]) for _ in range(rng.randint(1, nd + 1))]
    prog = [src]
    if rng.random() < 0.3:
        prog.append(["scalar"])
    prog.append(["ms_mult", p])
    r = rng.random()
    if r < 0.2:
        prog.append(["reduce", "sum", 0, None, False])
    elif r < 0.35:
        prog.append(["selfadd"])
    return prog


# ------------------------------------------------------------------ stream

def multiset_stream(ctx, da, C27, seen):
    rng = ctx.rng
    budget = ctx.scale(5.0, 60.0)
    t0 = ctx.elapsed()
    plan = [(p, ("forced", p[1][1]["via"], len(p[0][1]))) for p in FORCED]
    # stratified: every (kind, via) pair once on a seeded layout, then every fixed layout x the repeat kinds, then random
    pairs = [(k, v) for k in dict.fromkeys(KINDS) for v in VIAS]
    rng.shuffle(pairs)
    strat = []
    for k, v in pairs:
        strat.append(gen_case(rng, kind=k, via=v))
    for lay in AXIS_LAYOUTS:
        for k in ("block_repeat", "all_equal", "unsorted_dups"):
            strat.append(gen_case(rng, layout=lay, kind=k))
    rnd = [gen_case(rng) for _ in range(ctx.scale(400, 6000))]
    mult = [(gen_mult_case(rng, k), ("mult", k)) for k in MULT_KINDS for _ in range(ctx.scale(6, 60))]
    # interleave so that a budget cut keeps every stratum represented
    rest = []
    while strat or rnd or mult:
        for lst, take in ((strat, 3), (mult, 1), (rnd, 2)):
            for _ in range(take):
                if lst:
                    rest.append(lst.pop())
    plan += rest
    done = refused = 0
    for i, (prog, cls) in enumerate(plan):
        if ctx.elapsed() - t0 > budget:
            ctx.notes["multiset_budget_cut_cases"] = len(plan) - i
            break
        import dask

        try:
            with dask.config.set(C27.prog_config(prog)), warnings.catch_warnings():
                warnings.simplefilter("ignore")
                y = C27.build(da, prog)
                y.chunks, y.dtype
        except C27.REFUSALS + (IndexError,):
            refused += 1
            continue
        except Exception as e:  # noqa: BLE001 - construction failures are C12's / C01's business
            k = "multiset_construction_errors." + type(e).__name__
            ctx.notes[k] = ctx.notes.get(k, 0) + 1
            ctx.extra.setdefault("multiset_construction_error_examples", {}).setdefault(k, {"program": prog, "error": repr(e)[:200]})
            continue
        ctx.count(("multiset",) + tuple(cls) + (type(y.expr).__name__,))
        # full treatment (all phases incl. fused / materialized) for the forced cases and every 3rd one, raw +
        # simplified + lowered metadata otherwise
        if i < len(FORCED) or i % 3 == 0:
            C27.run_program(ctx, da, prog, seen, y)
        else:
            light_program(ctx, da, C27, prog, y, seen)
        done += 1
        if done % 60 == 1:
            ctx.sample({"program": prog, "root": type(y.expr).__name__, "transfer_bytes": list(map(repr, y.expr.transfer_bytes))})
    ctx.notes["multiset_programs"] = done
    ctx.notes["multiset_construction_refusals"] = refused
    ctx.notes["multiset_stream_seconds"] = round(ctx.elapsed() - t0, 1)


def light_program(ctx, da, C27, prog, y, seen):
    """raw / simplified / lowered trees, no fusion or materialisation (failures replay through run_program, which
    visits the same phases and more)."""
    import dask
    from dask._task_spec import Alias
    from dask_array._expr import ArrayExpr

    with dask.config.set(C27.prog_config(prog)), warnings.catch_warnings():
        warnings.simplefilter("ignore")
        trees = [("raw", y.expr)]
        for phase, fn in (("simplified", lambda: y.expr.simplify()), ("lowered", lambda: y.expr.simplify().lower_completely())):
            try:
                trees.append((phase, fn()))
            except Exception as ex:  # noqa: BLE001 - optimisation failures belong to C02/C08
                k = f"optimize_raises.{phase}.{type(ex).__name__}"
                ctx.notes[k] = ctx.notes.get(k, 0) + 1
        for phase, e in trees:
            for node in C27.walk_tolerant(e, ArrayExpr):
                if isinstance(node, ArrayExpr):
                    C27.check_node(ctx, node, prog, phase, ArrayExpr, Alias, seen, phase != "lowered")
