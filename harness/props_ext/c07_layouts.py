"""C07 extension — SOURCE VARIANTS: equal inputs in different REPRESENTATIONS.

C07: building the same program from EQUAL inputs yields the same collection name and the same optimized graph keys,
in the same process and in a fresh one.  A NumPy source is "equal" to another when dtype, shape and every element
agree (`np.array_equal` element-wise; for masked arrays: data, mask and fill_value).  How the elements are laid out in
memory (C / Fortran order, permuted strides, negative strides, a window of a bigger buffer, stride-0 broadcasting), who
owns the buffer, whether the array is writable, and whether it has been through pickle are NOT part of the value.
`dask.tokenize` of an ndarray DOES look at strides, so the entry points have to canonicalise the representation
before naming; this stream checks that they do, for every entry point that accepts NumPy data.

A case (plain JSON, replays from the dict alone):

    {"kind": "source-variant", "dtype": ..., "shape": [...], "vseed": n, "values": family, "container": "ndarray" | "masked" |
     "matrix" | "recarray", "entry": <ENTRIES key>, "chunks": [...], "a": <variant label>, "b": <variant label>, "xproc": bool,
     "heavy": bool, "xproto": pickle protocol of the shipped input, "xro": the receiver sets it read-only again}

    v   := value_array(case)                      a deterministic function of (dtype, shape, vseed, values)
    A,B := make_variant(v, a), make_variant(v, b)  same dtype / shape / elements (asserted; else the case is dropped)
    for X in (A, B): root = ENTRIES[entry](X); derived programs (slice pushed into the read, rechunk, elementwise,
                     reduction, the three combined, transpose, ravel): NAMES of all of them; optimized graph keys, Frisky
                     output keys and computed VALUES (oracle: the same program in NumPy on v) of root and of the combination
    xproc: pickle.dumps(B) is shipped to a FRESH interpreter (props_ext/fresh_process.py) which rebuilds everything from
           the unpickled input: names / graph keys / values there must equal those obtained here from B itself.

Variant labels: <representation>[+ro | +rov]  (`+ro`: setflags(write=False) on the array itself; `+rov`: a read-only VIEW
of a writable base).  Representations: see REPRS.  The oracle is only "equal inputs => equal names": the reference
variant is `c` (a fresh writable C-ordered copy) for every entry point that takes the data as DATA (from_array and its
keywords, asarray, asanyarray, array, NumPy operands wrapped by the library); for TWIN_ENTRIES (the NumPy object is a literal
argument of a user function and is tokenized as given, strides included) the reference is the WRITABLE twin of the same
representation.  Names are compared in every case; optimized graph keys, Frisky keys and values in cases with "heavy".

Signatures: `source-variant:<entry>:<a>~<b>:names-differ`, `...:keys-differ` (names agree, optimized graph keys or
Frisky keys do not), `...:values-differ`, `...:raises` (one variant builds, the other raises);
cross-process: b is spelled `<variant>>pickle>fresh`.
"""
from __future__ import annotations

import base64
import copy
import hashlib
import json
import pickle
import time
import warnings

import numpy as np

KIND = "source-variant"

# ------------------------------------------------------------------------------------------------ value arrays

DTYPES = ["f8", "i4", "?", "c16", "M8[ns]", "m8[s]", "f4", "u1", "i8", "<U3", "S2", [["a", "<i4"], ["b", "<f8"]], ">i4", "f2", "c8", "M8[D]"]
SHAPES = [[2, 3, 4], [4, 6], [3, 5], [6], [2, 2, 3, 2], [1, 5], [4, 1, 3], [0, 3], []]
VALUES = ("ramp", "random", "rows-equal")


def np_dtype(spec):
    return np.dtype([tuple(f) for f in spec]) if isinstance(spec, list) else np.dtype(spec)


def value_array(case):
    """the VALUE: a C-ordered writable array that owns its buffer"""
    dt = np_dtype(case["dtype"])
    shape = tuple(case["shape"])
    n = int(np.prod(shape, dtype=int))
    rs = np.random.RandomState(case.get("vseed", 0))
    fam = case.get("values", "ramp")
    if fam == "ramp":
        base = (np.arange(n) * 3 + case.get("vseed", 0)) % 11
    else:
        base = rs.randint(0, 50, size=n)
    base = base.reshape(shape)
    if fam == "rows-equal" and len(shape) >= 1 and shape[0] > 0:
        base = np.broadcast_to(base[:1], shape).copy()
    if dt.names:
        v = np.zeros(shape, dt)
        for i, f in enumerate(dt.names):
            v[f] = (base + i).astype(dt[f]) if dt[f].kind != "f" else (base * 0.5 + i)
    elif dt.kind in "US":
        v = base.astype(str).astype(dt)
    elif dt.kind == "b":
        v = (base % 2).astype(dt)
    elif dt.kind == "c":
        v = (base + 1j * (base % 3)).astype(dt)
    elif dt.kind == "f":
        v = (base * 0.25).astype(dt)
        if n > 2 and fam == "random":
            v.reshape(-1)[1] = np.nan  # a NaN: `==` is not the equality meant here (see same_value)
    else:
        v = base.astype(dt)
    return np.array(v, dtype=dt, order="C")


def wrap(v, case):
    """the container of the value (masks and field views are part of the value)"""
    c = case.get("container", "ndarray")
    if c == "ndarray":
        return v
    if c == "masked":
        mask = (np.arange(v.size).reshape(v.shape) % 3 == 1)
        with warnings.catch_warnings(), np.errstate(all="ignore"):
            warnings.simplefilter("ignore")
            return np.ma.masked_array(v, mask=mask, fill_value=v.reshape(-1)[0] if v.size else None)
    if c == "matrix":
        return np.matrix(v)
    if c == "recarray":
        return v.view(np.recarray)
    raise ValueError(c)


# ------------------------------------------------------------------------------------------------ representations

def _full(ndim, s):
    return (s,) * ndim


def _perm(v):
    if v.ndim < 2:
        return None
    perm = tuple(range(1, v.ndim)) + (0,)
    inv = tuple(int(i) for i in np.argsort(perm))
    return np.ascontiguousarray(v.transpose(perm)).transpose(inv)


def _perm2(v):
    if v.ndim < 3:
        return None
    perm = (1, 0) + tuple(range(2, v.ndim))
    return np.ascontiguousarray(v.transpose(perm)).transpose(perm)


def _window(v, order):
    big = np.zeros(tuple(s + 2 for s in v.shape), v.dtype, order=order)
    sl = tuple(slice(1, s + 1) for s in v.shape)
    big[sl] = v
    return big[sl]


def _neg(v, axes=None):
    if v.ndim == 0:
        return None
    idx = tuple(slice(None, None, -1) if (axes is None or i in axes) else slice(None) for i in range(v.ndim))
    return np.ascontiguousarray(v[idx])[idx]


def _strided(v):
    if v.ndim == 0:
        return None
    big = np.zeros(tuple(s * 2 for s in v.shape), v.dtype)
    st = _full(v.ndim, slice(None, None, 2))
    big[st] = v
    return big[st]


def _frombuffer(v, order):
    if v.dtype.hasobject or v.size == 0:
        return None
    return np.frombuffer(v.tobytes(order=order), dtype=v.dtype).reshape(v.shape, order=order)  # read-only by construction


def _memoryview(v, readonly):
    try:
        m = memoryview(np.array(v, order="C"))
        a = np.asarray(m.toreadonly() if readonly else m)
    except (ValueError, TypeError, BufferError):
        return None  # datetime64 / timedelta64 do not export a buffer
    return a


def _bcast(v):
    """a stride-0 view (np.broadcast_to, read-only by construction) when the rows are equal"""
    if v.ndim == 0 or v.shape[0] < 2 or v.size == 0:
        return None
    return np.broadcast_to(np.ascontiguousarray(v[:1]), v.shape)


def _roundtrip(x, lib):
    if x is None:
        return None
    if lib == "cloudpickle":
        import cloudpickle

        return pickle.loads(cloudpickle.dumps(x))
    return pickle.loads(pickle.dumps(x, protocol=lib))


REPRS = {
    "c": lambda v: np.array(v, order="C"),
    "f": lambda v: np.array(v, order="F") if v.ndim >= 2 else None,
    "tt": lambda v: np.array(v, order="C").T.T,  # transposed of transposed: a view
    "ftt": lambda v: np.array(v.T, order="C").T if v.ndim >= 2 else None,  # F-ordered as the transpose of a C buffer (a view)
    "perm": _perm,
    "perm2": _perm2,
    "window": lambda v: _window(v, "C") if v.ndim else None,
    "window-f": lambda v: _window(v, "F") if v.ndim >= 2 else None,
    "neg": _neg,
    "neg0": lambda v: _neg(v, (0,)) if v.ndim >= 2 else None,
    "strided": _strided,
    "frombuffer": lambda v: _frombuffer(v, "C"),
    "frombuffer-f": lambda v: _frombuffer(v, "F") if v.ndim >= 2 else None,
    "memoryview": lambda v: _memoryview(v, False),
    "memoryview-ro": lambda v: _memoryview(v, True),
    "bcast": _bcast,
    "bcast-copy": lambda v: np.array(np.broadcast_to(v, v.shape)),
    "bytecopy-f": lambda v: np.array(np.array(v, order="F"), order="K") if v.ndim >= 2 else None,  # copy that KEEPS the layout
    "bytecopy-perm": lambda v: None if _perm(v) is None else np.array(_perm(v), order="K"),
    "pickled": lambda v: _roundtrip(np.array(v, order="C"), 2),
    "pickled5": lambda v: _roundtrip(np.array(v, order="C"), 5),
    "pickled-f": lambda v: _roundtrip(np.array(v, order="F"), 5) if v.ndim >= 2 else None,
    "pickled-perm": lambda v: _roundtrip(_perm(v), 5),
    "cloudpickled-f": lambda v: _roundtrip(np.array(v, order="F"), "cloudpickle") if v.ndim >= 2 else None,
    "deepcopy-perm": lambda v: None if _perm(v) is None else copy.deepcopy(_perm(v)),
    "astype-f": lambda v: np.array(v, order="F").astype(v.dtype, order="K", copy=True) if v.ndim >= 2 else None,
    "asfortran": lambda v: np.asfortranarray(v) if v.ndim >= 2 else None,
}
# representations that are layout classes of their own (the systematic grid crosses THESE with the flags and the entries)
CORE_REPRS = ("c", "f", "perm", "window", "neg", "strided", "frombuffer", "frombuffer-f", "memoryview-ro", "pickled-perm", "pickled-f", "ftt")
FLAGS = ("", "+ro", "+rov")
RO_BY_CONSTRUCTION = ("frombuffer", "frombuffer-f", "memoryview-ro", "bcast")  # `+ro` would be the same object again


def make_variant(v, label, case=None):
    """the variant `label` of the value v (None when the representation does not exist for this value)"""
    case = case or {}
    rep, _, flag = label.partition("+")
    c = case.get("container", "ndarray")
    if c == "ndarray":
        x = REPRS[rep](v)
    elif c == "masked":
        # data AND mask in the representation (np.ma keeps both as given with copy=False)
        w = wrap(v, case)
        d, m = REPRS[rep](np.asarray(w.data)), REPRS[rep](np.ascontiguousarray(np.ma.getmaskarray(w)))
        if d is None or m is None:
            return None
        x = np.ma.masked_array(d, mask=m, fill_value=w.fill_value, copy=False, keep_mask=False)
    else:
        d = REPRS[rep](v)
        if d is None:
            return None
        x = d.view(type(wrap(v, case)))
        if x.shape != wrap(v, case).shape:
            return None
    if x is None:
        return None
    if flag == "ro":
        if not x.flags.writeable:
            return x  # read-only by construction: the label is an alias
        if c == "masked":
            x.data.setflags(write=False)
            np.ma.getmaskarray(x).setflags(write=False)
            x.setflags(write=False)
        else:
            x.setflags(write=False)
    elif flag == "rov":
        if c == "masked":
            return None
        x = x.view()
        x.setflags(write=False)
    return x


def same_value(x, w):
    """x is the same VALUE as the reference container w: type, dtype, shape, elements (bit-wise: NaNs too), mask"""
    if type(x) is not type(w) or x.dtype != w.dtype or x.shape != w.shape:
        return False
    if isinstance(w, np.ma.MaskedArray):
        return (same_value(np.asarray(x.data), np.asarray(w.data)) and np.array_equal(np.ma.getmaskarray(x), np.ma.getmaskarray(w))
                and repr(x.fill_value) == repr(w.fill_value))
    return np.ascontiguousarray(np.asarray(x)).tobytes() == np.ascontiguousarray(np.asarray(w)).tobytes()


def describe(x):
    d = np.asarray(x.data) if isinstance(x, np.ma.MaskedArray) else np.asarray(x)
    return {"type": type(x).__name__, "strides": list(d.strides), "c_contiguous": bool(d.flags.c_contiguous), "f_contiguous": bool(d.flags.f_contiguous),
            "writeable": bool(d.flags.writeable), "owndata": bool(d.flags.owndata)}


# ------------------------------------------------------------------------------------------------ entry points

def _chunks(case, x):
    ch = case.get("chunks")
    if ch is None:
        return "auto"
    return tuple(ch)[: x.ndim] if isinstance(ch, list) else ch


def _host(da, case, x):
    """a dask array of x's shape built from arange (does not depend on the variant)"""
    n = int(np.prod(x.shape, dtype=int))
    return da.arange(n, chunks=max(1, n // 2)).reshape(x.shape) if x.ndim else da.from_array(np.int64(3))


def _locked(da, x, case):
    from dask.utils import SerializableLock

    return da.from_array(x, chunks=_chunks(case, x), lock=SerializableLock("c07-layouts"))


def _e_setitem(da, x, case):
    h = _host(da, case, x).astype(x.dtype) if x.dtype.kind in "biufc" else da.from_array(np.zeros(x.shape, x.dtype), chunks=_chunks(case, x))
    h[...] = x
    return h


def _e_mb_arg(da, x, case):
    h = _host(da, case, x)
    return da.map_blocks(_pick_shape, h, x, dtype=x.dtype, chunks=h.chunks)


def _pick_shape(block, arr):
    return np.zeros(block.shape, arr.dtype)


def _host1(da):
    return da.arange(24, chunks=5)


def _host2(da):
    return da.arange(24, chunks=6).reshape(4, 6)


def _getter(a, idx):
    return a[idx]


def _meta_of(x):
    return np.empty((0,) * x.ndim, dtype=x.dtype)


ENTRIES = {
    "from_array": lambda da, x, case: da.from_array(x, chunks=_chunks(case, x)),
    "from_array[name=True]": lambda da, x, case: da.from_array(x, chunks=_chunks(case, x), name=True),
    "from_array[asarray=False]": lambda da, x, case: da.from_array(x, chunks=_chunks(case, x), asarray=False),
    "from_array[asarray=True]": lambda da, x, case: da.from_array(x, chunks=_chunks(case, x), asarray=True),
    "from_array[inline_array=True]": lambda da, x, case: da.from_array(x, chunks=_chunks(case, x), inline_array=True),
    "from_array[fancy=False]": lambda da, x, case: da.from_array(x, chunks=_chunks(case, x), fancy=False),
    "from_array[lock]": _locked,
    "from_array[meta]": lambda da, x, case: da.from_array(x, chunks=_chunks(case, x), meta=_meta_of(x)),
    "from_array[chunks=auto]": lambda da, x, case: da.from_array(x),
    "asarray": lambda da, x, case: da.asarray(x),
    "asarray[chunks]": lambda da, x, case: da.asarray(x, chunks=_chunks(case, x)),
    "asanyarray": lambda da, x, case: da.asanyarray(x),
    "asanyarray[inline_array=True]": lambda da, x, case: da.asanyarray(x, inline_array=True),
    "array": lambda da, x, case: da.array(x),
    # the variant as an OPERAND of an ordinary call on a dask array (wrapped by the library)
    "operand:add": lambda da, x, case: _host(da, case, x) + x,
    "operand:radd": lambda da, x, case: x + _host(da, case, x),
    "operand:where": lambda da, x, case: da.where(_host(da, case, x) % 2 == 0, x, x),
    "operand:concatenate": lambda da, x, case: da.concatenate([da.from_array(np.array(x, order="C"), chunks=_chunks(case, x)), x], axis=0),
    "operand:stack": lambda da, x, case: da.stack([x, x]),
    "operand:setitem-value": _e_setitem,
    "operand:map_blocks-arg": _e_mb_arg,
    "operand:index": lambda da, x, case: _host1(da)[x % 24],
    "operand:take": lambda da, x, case: da.take(_host2(da), x % 4, axis=0),
    "operand:boolmask": lambda da, x, case: _host(da, case, x)[x],
    "operand:where-cond": lambda da, x, case: da.where(x, _host(da, case, x), 0),
    "operand:block": lambda da, x, case: da.block([[x, x]]),
    "operand:tensordot": lambda da, x, case: da.tensordot(_host(da, case, x), x.T, axes=1),
    "operand:matmul": lambda da, x, case: da.matmul(x.T, _host(da, case, x)),
    "operand:isin": lambda da, x, case: da.isin(_host(da, case, x), x),
    "operand:average-weights": lambda da, x, case: da.average(_host(da, case, x), weights=x + 1),
    # further spellings of the data entry points
    "from_array[list-of]": lambda da, x, case: da.from_array([x, x]),
    "asarray[list-of]": lambda da, x, case: da.asarray([x, x]),
    "asarray[dtype]": lambda da, x, case: da.asarray(x, dtype="c16" if x.dtype.kind in "biufc" else x.dtype),
    "asarray[order=F]": lambda da, x, case: da.asarray(x, order="F"),
    "asarray[like]": lambda da, x, case: da.asarray(x, like=np.empty(0)),
    # (from_array(name="str") is a documented per-instance name: every call gets its own token; c07_sources covers it)
    "from_array[getitem]": lambda da, x, case: da.from_array(x, chunks=_chunks(case, x), getitem=_getter),
    "from_array[meta=x]": lambda da, x, case: da.from_array(x, chunks=_chunks(case, x), meta=x),
}
IDENTITY_ENTRIES = tuple(e for e in ENTRIES if (e.startswith("from_array") or e.startswith("asarray") or e.startswith("asanyarray") or e == "array")
                         and e not in ("from_array[list-of]", "asarray[list-of]", "asarray[dtype]", "asarray[like]"))
_K = lambda kinds, nd=None: (lambda dt, shape: dt.kind in kinds and (nd is None or len(shape) in nd))  # noqa: E731
REQUIRES = {
    "operand:index": _K("iu", (1,)), "operand:take": _K("iu", (1,)), "operand:boolmask": _K("b"), "operand:where-cond": _K("b"),
    "operand:block": _K("biufcmM", (2,)), "operand:tensordot": _K("iufc", (2,)), "operand:matmul": _K("iufc", (2,)), "operand:isin": _K("biufc"),
    "operand:average-weights": _K("iuf"),
}
# entries whose call needs arithmetic on the element type
NUMERIC_ONLY = ("operand:add", "operand:radd")
# entries that pass the NumPy object on as a LITERAL argument of a user function: it is tokenized by dask.tokenize as given
# (strides included), on the unchanged tree too, so representations are distinct inputs there; what must agree is the
# writable / read-only twins of ONE representation (the reference variant is the writable twin, not `c`)
TWIN_ENTRIES = ("operand:map_blocks-arg", "from_array[meta=x]")
CORE_ENTRIES = ("from_array", "asarray", "asanyarray", "from_array[asarray=False]", "from_array[inline_array=True]", "from_array[name=True]", "array")


def applicable(entry, case):
    dt = np_dtype(case["dtype"])
    c = case.get("container", "ndarray")
    if entry in NUMERIC_ONLY and dt.kind not in "biufc":
        return False
    if entry in REQUIRES and not (REQUIRES[entry](dt, case["shape"]) and c == "ndarray" and 0 not in case["shape"]):
        return False
    if entry.startswith("operand:") and (c != "ndarray" or dt.kind in "USV" or len(case["shape"]) == 0):
        return False
    if entry == "operand:setitem-value" and 0 in case["shape"]:
        return False
    return True


def usable(c):
    rep_b, _, fl_b = c["b"].partition("+")
    return applicable(c["entry"], c) and c["a"] != c["b"] and not (fl_b == "ro" and rep_b in RO_BY_CONSTRUCTION)


# ------------------------------------------------------------------------------------------------ derived programs

def _elemwise(m, r, kind):
    if kind in "iufc":
        return r + 1
    if kind == "b":
        return ~r
    if kind == "m":
        return r * 2
    if kind == "M":
        return r - r
    return r == r


def _reduce(r, kind, axis):
    if kind in "biufc":
        return r.sum(axis=axis)
    if kind in "mM":
        return r.max(axis=axis)
    return r


def derived(m, root, np_mode=False):
    """[(label, array)]: the 3-4 derived programs of the task (slice pushed into the read, rechunk, elementwise, reduction),
    their combination, transpose and ravel.  The same code runs on dask arrays and (np_mode) on NumPy for the values."""
    out = [("root", root)]
    nd = root.ndim
    kind = root.dtype.kind
    if nd == 0:
        try:
            out.append(("elemwise", _elemwise(m, root, kind)))
        except Exception as e:  # noqa: BLE001
            out.append(("elemwise", "err " + type(e).__name__))
        return out
    sl = (slice(None),) * (nd - 1) + (slice(1, None),) if nd > 1 else (slice(1, None),)
    steps = [
        ("slice", lambda: root[sl]),
        ("slice0", lambda: root[0]),
        ("rechunk", lambda: root if np_mode else root.rechunk(tuple(max(1, s) for s in root.shape))),
        ("elemwise", lambda: _elemwise(m, root, kind)),
        ("reduction", lambda: _reduce(root, kind, 0)),
        ("combo", lambda: _reduce(_elemwise(m, root, kind)[sl], kind, nd - 1)),
        ("transpose", lambda: root.T),
        ("ravel", lambda: root.reshape(-1) if root.size else root),
    ]
    for label, f in steps:
        try:
            with np.errstate(all="ignore"):
                out.append((label, f()))
        except Exception as e:  # noqa: BLE001
            out.append((label, "err " + type(e).__name__))
    return out


HEAVY = ("root", "combo")  # graph keys / Frisky keys / values are taken of these (cases with "heavy": true)


def _h(obj):
    return hashlib.sha1(repr(obj).encode()).hexdigest()[:16]


def val_hash(a):
    if isinstance(a, np.ma.MaskedArray):
        return _h((val_hash(np.asarray(a.data)[~np.ma.getmaskarray(a)]), np.ma.getmaskarray(a).tolist()))
    a = np.asarray(a)
    if a.dtype.byteorder == ">" or (a.dtype.names and not a.dtype.isnative):
        a = a.astype(a.dtype.newbyteorder("="))  # values, not their byte order (a 0-d result is a NumPy scalar: always native)
    return hashlib.sha1(str(a.dtype).encode() + str(a.shape).encode() + np.ascontiguousarray(a).tobytes()).hexdigest()[:16]


def observe(case, x, heavy=True):
    """{"names": {label: name | err}, "keys": {label: hash}, "frisky": {...}, "values": {label: hash}} of the variant x"""
    import dask
    import dask_array as da

    o = {"names": {}, "keys": {}, "frisky": {}, "values": {}}
    with warnings.catch_warnings(), dask.config.set(scheduler="sync"):
        warnings.simplefilter("ignore")
        try:
            root = ENTRIES[case["entry"]](da, x, case)
        except Exception as e:  # noqa: BLE001
            o["names"]["root"] = "err " + type(e).__name__ + ": " + str(e)[:80]
            return o
        for label, d in derived(da, root):
            if isinstance(d, str):
                o["names"][label] = d
                continue
            o["names"][label] = d.name
            if heavy and label in HEAVY:
                try:
                    o["keys"][label] = _h(sorted(map(str, d.__dask_graph__().keys())))
                except Exception as e:  # noqa: BLE001
                    o["keys"][label] = "err " + type(e).__name__
                try:
                    o["frisky"][label] = _h(list(d.__frisky_output_keys__()))
                except NotImplementedError:
                    o["frisky"][label] = "n/a"
                except Exception as e:  # noqa: BLE001
                    o["frisky"][label] = "err " + type(e).__name__
                try:
                    o["values"][label] = val_hash(d.compute())
                except Exception as e:  # noqa: BLE001
                    o["values"][label] = "err " + type(e).__name__
    return o


def expected_values(case, w):
    """NumPy oracle for the values (only where the entry point is the identity on a plain ndarray)"""
    if case["entry"] not in IDENTITY_ENTRIES or case.get("container", "ndarray") != "ndarray":
        return None
    out = {}
    for label, d in derived(np, w, np_mode=True):
        if label in HEAVY and not isinstance(d, str):
            out[label] = val_hash(d)
    return out


# ------------------------------------------------------------------------------------------------ cases

def _case(dtype, shape, entry, b, vseed=0, values="ramp", container="ndarray", chunks=None, xproc=False, a="c", heavy=None):
    if chunks is None:
        chunks = [max(1, (s + 1) // 2) for s in shape]
    if entry in TWIN_ENTRIES:
        a = b.partition("+")[0]  # the writable twin of the same representation is the reference (always)
    return {"kind": KIND, "dtype": dtype, "shape": list(shape), "vseed": vseed, "values": values, "container": container, "entry": entry,
            "chunks": chunks, "a": a, "b": b, "xproc": xproc, "heavy": bool(xproc) if heavy is None else bool(heavy)}


def all_labels():
    return [r + f for r in REPRS for f in FLAGS]


def gen_cases(rng, n_random, rotate=0):
    """Systematic part (every run): every CORE representation x every flag x every CORE entry point on one dtype / shape
    (rotating with the seed over DTYPES x multi-dimensional SHAPES), every remaining representation and entry once, every
    dtype once with the read-only Fortran / permuted variants, the containers; cross-process for the variants whose
    pickle changes the representation.  Then random cases over the whole product."""
    cases = []
    nd_shapes = [s for s in SHAPES if len(s) >= 2 and 0 not in s]
    k = rotate
    # 1. the grid: CORE_REPRS x FLAGS x CORE_ENTRIES
    for i, entry in enumerate(CORE_ENTRIES):
        dt = DTYPES[(k + i) % len(DTYPES)]
        sh = nd_shapes[(k + i) % len(nd_shapes)]
        for rep in CORE_REPRS:
            for fl in FLAGS:
                cases.append(_case(dt, sh, entry, rep + fl, vseed=k % 7, xproc=(fl == "+ro" and rep in ("perm", "f", "neg", "window", "strided")) and i < 3))
    # 2. every other representation (read-only and writable) through from_array / asarray, every other entry with the
    #    read-only Fortran and permuted variants
    for j, rep in enumerate(r for r in REPRS if r not in CORE_REPRS):
        for fl in ("", "+ro"):
            cases.append(_case(DTYPES[(k + j) % len(DTYPES)], nd_shapes[(k + j + 1) % len(nd_shapes)], ("from_array", "asarray", "asanyarray")[(j + k) % 3], rep + fl,
                               values="rows-equal" if rep == "bcast" else "ramp", vseed=j))
    for j, entry in enumerate(e for e in ENTRIES if e not in CORE_ENTRIES):
        combos = [(d, sh) for sh in (nd_shapes + [[6]]) for d in DTYPES if applicable(entry, {"dtype": d, "shape": sh})]
        for q, lab in enumerate(("f+ro", "perm+ro", "perm+rov", "frombuffer-f", "neg+ro", "f")):
            dt, sh = combos[(k + j + q) * 7 % len(combos)]
            if len(sh) == 1:
                lab = ("neg+ro", "strided+ro", "window+rov", "frombuffer", "memoryview-ro", "neg")[q]
            cases.append(_case(dt, sh, entry, lab, vseed=j))
    # 3. every dtype, every shape class (1-d, 0-d, zero-size, singleton axes) with the read-only non-C variants
    for j, dt in enumerate(DTYPES):
        sh = nd_shapes[(j + k) % len(nd_shapes)]
        for lab in ("f+ro", "perm+ro", "pickled-perm+ro"):
            cases.append(_case(dt, sh, CORE_ENTRIES[(j + k) % 3], lab, values="random", vseed=j + k, xproc=lab == "perm+ro" and j % 4 == k % 4))
    for j, sh in enumerate(SHAPES):
        for lab in ("f+ro", "perm+ro", "neg+ro", "strided+ro", "window+rov", "frombuffer", "memoryview-ro"):
            cases.append(_case(DTYPES[(j + k) % 6], sh, CORE_ENTRIES[(j + k) % 3], lab, vseed=j))
    # 4. containers (np.ma: data and mask in the representation; matrix / recarray views)
    for j, (cont, dt, sh) in enumerate([("masked", "f8", [3, 4]), ("masked", "i4", [2, 3, 2]), ("matrix", "f8", [3, 4]), ("recarray", [["a", "<i4"], ["b", "<f8"]], [3, 4])]):
        for lab in ("f", "f+ro", "perm+ro", "neg", "window+ro", "strided"):
            for entry in ("from_array", "asanyarray", "asarray"):
                cases.append(_case(dt, sh, entry, lab, container=cont, vseed=j + k))
    n_grid = len([c for c in cases if usable(c)])
    # 5. random cases
    labels = all_labels()
    entries = list(ENTRIES)
    for _ in range(n_random):
        dt = rng.choice(DTYPES)
        sh = rng.choice(SHAPES)
        entry = rng.choice(entries)
        cont = "ndarray" if rng.random() < 0.85 else rng.choice(["masked", "matrix"])
        if cont == "matrix":
            sh, dt = rng.choice([[3, 4], [1, 5]]), rng.choice(["f8", "i4", "c16"])
        a = "c" if rng.random() < 0.7 else rng.choice(labels)
        c = _case(dt, sh, entry, rng.choice(labels), vseed=rng.randint(0, 99), values=rng.choice(VALUES), container=cont, a=a,
                  chunks=[rng.randint(1, max(1, s)) for s in sh] if rng.random() < 0.6 else None, xproc=rng.random() < 0.15)
        cases.append(c)
    cases = [c for c in cases if usable(c)]
    nx = 0
    for c in cases:
        if c["xproc"]:
            c["xproto"] = XPROTOS[(nx + rotate) % len(XPROTOS)]
            c["xro"] = ((nx + rotate) // len(XPROTOS)) % 2 == 1
            nx += 1
    # graph keys / Frisky keys / values (three more materializations per variant): every cross-process case, every fourth
    # other case (rotating with the seed), every random case
    for i, c in enumerate(cases):
        if i >= n_grid or (i + rotate) % 4 == 0:
            c["heavy"] = True
    return cases


# ------------------------------------------------------------------------------------------------ running

def build_pair(case):
    """(reference container w, A, B) or None when a variant does not exist / is not the same value"""
    v = value_array(case)
    w = wrap(v, case)
    A = make_variant(v, case["a"], case)
    B = make_variant(v, case["b"], case)
    if A is None or B is None or not same_value(A, w) or not same_value(B, w):
        return None
    return w, A, B


def compare(oa, ob):
    """(class, {field: {label: [a, b]}}) of the first kind of difference, or None"""
    ra, rb = oa["names"].get("root", ""), ob["names"].get("root", "")
    if ra.startswith("err") != rb.startswith("err"):
        return "raises", {"names": {"root": [ra, rb]}}
    if ra.startswith("err"):
        return None
    d = {l: [oa["names"].get(l), ob["names"].get(l)] for l in oa["names"] if oa["names"].get(l) != ob["names"].get(l)}
    if d:
        return "names-differ", {"names": d}
    out = {}
    for f in ("keys", "frisky"):
        d = {l: [oa[f].get(l), ob[f].get(l)] for l in oa[f] if l in ob[f] and oa[f][l] != ob[f][l]}
        if d:
            out[f] = d
    if out:
        return "keys-differ", out
    d = {l: [oa["values"].get(l), ob["values"].get(l)] for l in oa["values"] if l in ob["values"] and oa["values"][l] != ob["values"][l]}
    if d:
        return "values-differ", {"values": d}
    return None


def signature(case, cls, fresh=False):
    cont = case.get("container", "ndarray")
    entry = case["entry"] if cont == "ndarray" else f"{case['entry']}({cont})"
    return f"{KIND}:{entry}:{case['a'] if not fresh else case['b']}~{case['b']}{'>pickle>fresh' if fresh else ''}:{cls}"


def _key(case, label):
    return json.dumps([case["dtype"], case["shape"], case.get("vseed"), case.get("values"), case.get("container"), case["entry"], case.get("chunks"), label])


class Runner:
    """holds the per-run cache of observations (a variant of one value through one entry is observed once) and the
    cross-process batch"""

    def __init__(self, ctx, max_reports=10):
        self.ctx = ctx
        self.groups = {}
        self.cache = {}
        self.seen = set()
        self.max_reports = max_reports
        self.xproc = []
        self.stats = {"cases": 0, "dropped(variant does not exist for this value)": 0, "observations": 0, "observations(with graph keys and values)": 0, "xproc": 0, "seconds": 0.0}

    def obs(self, case, label, x):
        k = _key(case, label)
        heavy = bool(case.get("heavy", True))
        if (k, True) in self.cache:
            return self.cache[(k, True)]
        if (k, heavy) not in self.cache:
            self.cache[(k, heavy)] = observe(case, x, heavy=heavy)
            self.stats["observations" if not heavy else "observations(with graph keys and values)"] += 1
        return self.cache[(k, heavy)]

    def report(self, case, cls, diffs, what, fresh=False, extra=None):
        sig = signature(case, cls, fresh)
        group = (case["entry"], cls, fresh)
        # one pair per (entry point, kind of difference, in-process / fresh process); `max_reports` in-process ones and as
        # many cross-process ones in all
        if sig in self.seen or self.groups.get(group, 0) >= 1 or sum(1 for g in self.groups if g[2] == fresh) >= self.max_reports:
            self.stats["differences_not_reported(same entry and kind as a reported one)"] = self.stats.get("differences_not_reported(same entry and kind as a reported one)", 0) + 1
            return
        self.seen.add(sig)
        self.groups[group] = self.groups.get(group, 0) + 1
        c = {k: v for k, v in case.items() if k not in ("differences", "layouts", "oracle")}
        c["differences"] = diffs
        if extra:
            c.update(extra)
        self.ctx.fail(sig, c, what)

    def check_case(self, case):
        t0 = time.process_time()
        try:
            return self._check(case)
        finally:
            self.stats["seconds"] += time.process_time() - t0

    def _check(self, case):
        ctx = self.ctx
        pair = build_pair(case)
        if pair is None:
            self.stats["dropped(variant does not exist for this value)"] += 1
            return
        w, A, B = pair
        self.stats["cases"] += 1
        rep_b, _, fl_b = case["b"].partition("+")
        ctx.count((KIND, case["entry"], rep_b, fl_b or "rw", case.get("container", "ndarray")))
        ctx.count((KIND + "-dtype", str(np_dtype(case["dtype"])), len(case["shape"]), rep_b in ("c", "tt", "pickled", "pickled5", "bcast-copy")))
        ctx.traces += 1
        oa = self.obs(case, case["a"], A)
        ob = self.obs(case, case["b"], B)
        lay = {"a": describe(A), "b": describe(B)}
        r = compare(oa, ob)
        if r is not None:
            cls, diffs = r
            what = {
                "names-differ": "two sources with the same dtype, shape and elements (different memory representation / writeability) get different names",
                "keys-differ": "two equal sources get the same names but different optimized graph keys / Frisky output keys",
                "values-differ": "two equal sources compute different values",
                "raises": "one of two equal sources is refused, the other accepted",
            }[cls] + f": {case['entry']} of variant {case['a']} {lay['a']} vs variant {case['b']} {lay['b']}; differing: {sorted(next(iter(diffs.values())))}"
            self.report(case, cls, diffs, what, extra={"layouts": lay})
        else:
            # values against NumPy (the value is the same for both, so one comparison)
            want = expected_values(case, w)
            if want:
                bad = {l: [want[l], ob["values"].get(l)] for l in want if l in ob["values"] and not str(ob["values"][l]).startswith("err") and ob["values"][l] != want[l]}
                if bad:
                    self.report(case, "values-differ", {"values_vs_numpy": bad},
                                f"{case['entry']} of variant {case['b']} {lay['b']} computes other values than NumPy on the same elements: {sorted(bad)}", extra={"layouts": lay, "oracle": "numpy"})
        if case.get("xproc") and not ob["names"].get("root", "err").startswith("err"):
            try:
                blob = base64.b64encode(dumps(B, case.get("xproto", "default"))).decode()
            except Exception:  # noqa: BLE001
                return
            self.xproc.append((case, ob, blob, lay))

    def start_fresh(self):
        """ONE fresh interpreter for all cross-process cases (the program rebuilt there from the pickled INPUT); it runs in
        the background, `finish_fresh` collects"""
        self.future = None
        if not self.xproc:
            return
        from concurrent.futures import ThreadPoolExecutor

        from harness.props_ext import fresh_process

        payload = [{"case": {k: v for k, v in c.items() if k not in ("differences", "layouts")}, "blob": blob} for c, _o, blob, _l in self.xproc]
        self._pool = ThreadPoolExecutor(max_workers=1)
        self._t0 = time.time()

        def job():
            r = fresh_process.run_fresh("C07", "layouts_child", payload, timeout=600)
            return r, time.time() - self._t0

        self.future = self._pool.submit(job)

    def finish_fresh(self):
        if getattr(self, "future", None) is None:
            return
        try:
            res, wall = self.future.result()
        except Exception as e:  # noqa: BLE001
            self.ctx.notes["source_variant_fresh_error"] = str(e)[-300:]
            return
        finally:
            self._pool.shutdown(wait=False)
            self.future = None
        for (case, ob, _blob, lay), r in zip(self.xproc, res):
            self.stats["xproc"] += 1
            self.ctx.traces += 1
            self.ctx.count((KIND + "-fresh", case["entry"], case["b"]))
            if "dropped" in r:
                self.stats["xproc_dropped(pickle changed the dtype)"] = self.stats.get("xproc_dropped(pickle changed the dtype)", 0) + 1
                continue
            if "error" in r:
                self.ctx.notes.setdefault("source_variant_fresh_child_errors", []).append(r["error"][:160])
                continue
            c = compare(ob, r["obs"])
            if c is not None:
                cls, diffs = c
                self.report(case, cls, diffs,
                            f"the input (variant {case['b']} {lay['b']}) pickled and sent to a fresh process, where {case['entry']} and the derived programs are rebuilt from it "
                            f"(there it is {r.get('layout')}): {cls.replace('-', ' ')} from the build in this process: {sorted(next(iter(diffs.values())))}",
                            fresh=True, extra={"layouts": dict(lay, fresh=r.get("layout")), "oracle": "fresh-process"})
        self.stats["fresh_wall_seconds(background)"] = round(wall, 2)
        self.ctx.notes["source_variants"] = self.stats


XPROTOS = ("default", 5, "cloudpickle", 2)  # protocol 5 keeps Fortran order AND the read-only flag, the others do not


def dumps(x, proto):
    if proto == "cloudpickle":
        import cloudpickle

        return cloudpickle.dumps(x)
    return pickle.dumps(x) if proto == "default" else pickle.dumps(x, protocol=proto)


def child(payload):
    """runs in the fresh interpreter: rebuild from the unpickled input"""
    out = []
    for it in payload:
        try:
            x = pickle.loads(base64.b64decode(it["blob"]))
            if not same_value(x, wrap(value_array(it["case"]), it["case"])):
                # (pickle protocols < 5 byte-swap a big-endian array to the native order: another dtype, not an equal input)
                out.append({"dropped": "the unpickled input is not the same value (dtype / elements) any more"})
                continue
            if it["case"].get("xro") and x.flags.writeable:
                x.setflags(write=False)  # the receiver freezes its input again
            out.append({"obs": observe(it["case"], x, heavy=True), "layout": describe(x)})
        except Exception as e:  # noqa: BLE001
            out.append({"error": type(e).__name__ + ": " + str(e)[:200]})
    return out


def run_stream(ctx, cases, wait=True):
    r = Runner(ctx)
    for c in cases:
        try:
            r.check_case(c)
        except Exception as e:  # noqa: BLE001
            ctx.notes["source_variant_harness_exc"] = ctx.notes.get("source_variant_harness_exc", 0) + 1
            ctx.notes.setdefault("source_variant_harness_exc_sample", f"{type(e).__name__}: {str(e)[:160]} | {json.dumps(c)[:300]}")
    r.stats["seconds"] = round(r.stats["seconds"], 2)
    ctx.notes["source_variants"] = r.stats
    r.start_fresh()
    if wait:
        r.finish_fresh()
    return r
