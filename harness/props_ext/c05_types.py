"""C05 extension — array TYPES and RESULT OWNERSHIP at the entry points.

Two streams, both searched on the real code with NumPy (np / np.ma) as the independent oracle:

* typed  (`kind: "typed"`): collections whose BLOCKS are not all plain int64 ndarrays — np.ma.MaskedArray blocks
  in every position of the block grid (plain-first, masked-first, alternating, random; masks on block edges, fill
  values, MaskedArray with `nomask`), built four ways (map_blocks by block id, da.block, da.concatenate / da.stack of
  separately typed pieces, from_array of a masked array), and sources of other dtypes (bool, small ints, float32,
  complex, datetime64 / timedelta64, str / bytes, object, structured records, 0-d, np.matrix).  Every entry point
  (the 11 of C05 plus np.asarray(x), dask.compute([x, y]) / ({'a': x}), to_delayed of the persisted collection, and one
  follow-on step on every persisted / optimized collection) must return the oracle's DATA AND MASK; masked results of
  whole-array entry points must agree on fill_value.

* own    (`kind: "own"`): a history  x -> holder (x itself | x.persist() | dask.persist(x) | x.optimize() |
  dask.optimize(x)) -> a view of the holder (whole, chunk-ALIGNED slice, .blocks[...], unaligned slice) -> NumPy data
  handed back by an entry point ("victim") -> the caller OVERWRITES that data in place (data and mask) -> every entry
  point on the holder, on the view and on x must still return the oracle's values.  Blocks handed out by to_delayed are
  raw task outputs (they may be views of the user's source array / of the data a persisted collection stores, on the
  unchanged tree too): their overwrite is OBSERVED in ctx.notes, not judged.

Everything replays from the case dict alone.
"""
from __future__ import annotations

import itertools
import warnings

import numpy as np

from harness import gen, programs

SENTINEL = -77

# ------------------------------------------------------------------------------ comparing


def _is_ma(v):
    return isinstance(v, np.ma.MaskedArray)


def tsame(got, want, data_only=False):
    """None when `got` carries the oracle's shape, mask and (unmasked) data; else a short reason class.
    data_only: `got` went through the `__array__` protocol (a plain ndarray by contract): compare the unmasked data."""
    if isinstance(got, (tuple, list, dict)):
        return "not-an-array"
    gm, wm = np.ma.getmaskarray(got), np.ma.getmaskarray(want)
    if data_only:
        gm = wm
    g = np.asarray(np.ma.getdata(got))
    w = np.asarray(np.ma.getdata(want))
    if g.shape != w.shape:
        return "shape-mismatch"
    if gm.dtype.names or wm.dtype.names:  # structured masks: compare field-wise flattened
        if gm.dtype != wm.dtype or gm.tolist() != wm.tolist():
            return "mask-mismatch"
        keep = None
    else:
        if not np.array_equal(gm, wm):
            return "mask-mismatch"
        keep = ~wm
    if g.dtype != w.dtype:
        return "dtype-mismatch"
    if g.dtype == object or g.dtype.names:
        gl = g[keep].tolist() if keep is not None else g.tolist()
        wl = w[keep].tolist() if keep is not None else w.tolist()
        return None if gl == wl else "value-mismatch"
    gs, ws = (g[keep], w[keep]) if keep is not None else (g, w)
    if g.dtype.kind in "fc":
        ok = bool(np.allclose(gs, ws, rtol=1e-12, atol=0, equal_nan=True))
    else:
        ok = bool(np.array_equal(gs, ws))
    return None if ok else "value-mismatch"


def tshow(v):
    try:
        if _is_ma(v):
            return f"MaskedArray(data={np.ma.getdata(v).tolist()!r}, mask={np.ma.getmaskarray(v).tolist()!r}, fill_value={v.fill_value!r})"[:260]
        if isinstance(v, np.ndarray):
            return f"{type(v).__name__}({v.tolist()!r})"[:260]
    except Exception:
        pass
    return repr(v)[:260]


def assemble(nested, ndim):
    """Glue the computed blocks of `to_delayed().tolist()` with NumPy: np.ma.concatenate as soon as one part is masked;
    a single part is returned as it is."""
    def rec(node, axis):
        if axis == ndim:
            return node if isinstance(node, np.ndarray) else np.asarray(node)
        parts = [rec(n, axis + 1) for n in node]
        if len(parts) == 1:
            return parts[0]
        if any(_is_ma(p) for p in parts):
            return np.ma.concatenate([np.ma.asarray(p) for p in parts], axis=axis)
        return np.concatenate([np.asarray(p) for p in parts], axis=axis)
    return rec(nested, 0)


def delayed_value(coll, sched):
    import dask

    dl = coll.to_delayed()
    nested = dl.tolist()
    flat = list(dl.ravel()) if dl.ndim else [nested]
    vals = dask.compute(*flat, scheduler=sched)
    it = iter(vals)

    def fill(node):
        if isinstance(node, list):
            return [fill(n) for n in node]
        return next(it)

    return assemble(fill(nested), coll.ndim), list(vals)


# ------------------------------------------------------------------------------ typed specs

PLAIN_DTYPES = ("?", "i1", "u2", "f4", "c16", "M8[D]", "m8[s]", "U3", "S2", "O", "rec", "matrix", "i8-0d", "ma-0d", "ma-rec")
NUMERIC = ("i8", "f8")


def _base_data(shape, dtype, mul=3, off=1):
    n = int(np.prod(shape)) if shape else 1
    k = (np.arange(n, dtype=np.int64) * mul + off) % 23
    if dtype in ("i8", "f8", "i1", "u2", "f4"):
        a = k.astype(dtype)
    elif dtype == "?":
        a = (k % 3 == 0)
    elif dtype == "c16":
        a = k.astype("f8") + 1j * (k % 5)
    elif dtype in ("M8[D]", "m8[s]"):
        a = k.astype(dtype)
    elif dtype in ("U3", "S2"):
        a = np.array([("ab", "c", "def", "", "gh")[int(v) % 5] for v in k]).astype(dtype)
    elif dtype == "O":
        pool = (1, "a", None, (1, 2), 2.5, b"x", frozenset([3]))
        a = np.empty(n, dtype=object)
        for i, v in enumerate(k):
            a[i] = pool[int(v) % len(pool)]
    elif dtype in ("rec", "ma-rec"):
        a = np.zeros(n, dtype=[("a", "i8"), ("b", "f8")])
        a["a"] = k
        a["b"] = k / 2
    else:
        raise KeyError(dtype)
    return a.reshape(shape)


def _mask_of(spec, shape, chunks):
    """global boolean mask pattern (applied inside masked blocks only)"""
    pat = spec["mask"]
    idx = np.indices(shape) if shape else None
    if pat["type"] == "mod":
        lin = np.arange(int(np.prod(shape)), dtype=np.int64).reshape(shape)
        return (lin * 7 + pat["rem"]) % pat["mod"] == 0
    if pat["type"] == "all":
        return np.ones(shape, dtype=bool)
    if pat["type"] == "none":
        return np.zeros(shape, dtype=bool)
    # "edges": cells on the first / last local index of their block along pat["axis"]
    m = np.zeros(shape, dtype=bool)
    ax = pat["axis"] % len(shape)
    pos = 0
    for c in chunks[ax]:
        if c:
            for j in ({pos, pos + c - 1} if pat.get("both", True) else {pos + c - 1}):
                sl = [slice(None)] * len(shape)
                sl[ax] = j
                m[tuple(sl)] = True
        pos += c
    del idx
    return m


def _grid_types(spec, numblocks):
    """{block id: 'p' | 'm' | 'n'}"""
    ids = list(itertools.product(*(range(n) for n in numblocks)))
    return dict(zip(ids, spec["grid"]))


def _block_slices(chunks, bid):
    out = []
    for c, i in zip(chunks, bid):
        lo = sum(c[:i])
        out.append(slice(lo, lo + c[i]))
    return tuple(out)


def build_masked(spec):
    """-> (x, oracle).  int64 / float64 data on a block grid whose blocks are plain ('p'), masked ('m') or MaskedArray
    without a mask ('n')."""
    import dask_array as da

    shape = tuple(spec["shape"])
    chunks = tuple(tuple(c) for c in spec["chunks"])
    a = _base_data(shape, spec["dtype"], spec.get("mul", 3), spec.get("off", 1))
    pat = _mask_of(spec, shape, chunks)
    numblocks = tuple(len(c) for c in chunks)
    types = _grid_types(spec, numblocks)
    fill = spec.get("fill")
    gm = np.zeros(shape, dtype=bool)
    for bid, t in types.items():
        if t == "m":
            sl = _block_slices(chunks, bid)
            gm[sl] = pat[sl]
    any_ma = any(t in "mn" for t in types.values())
    want = np.ma.masked_array(a.copy(), mask=gm) if any_ma else a.copy()

    def piece(bid):
        sl = _block_slices(chunks, bid)
        t = types[bid]
        blk = a[sl].copy()
        if t == "m":
            return np.ma.masked_array(blk, mask=pat[sl].copy(), fill_value=fill)
        if t == "n":
            return np.ma.masked_array(blk, fill_value=fill)
        return blk

    mode = spec["mode"]
    if mode == "mapblocks":
        def f(b, block_id=None):
            t = types[tuple(block_id)]
            sl = _block_slices(chunks, tuple(block_id))
            if t == "m":
                return np.ma.masked_array(b, mask=pat[sl].copy(), fill_value=fill)
            if t == "n":
                return np.ma.masked_array(b, fill_value=fill)
            return b

        x = da.from_array(a.copy(), chunks=chunks).map_blocks(f, dtype=a.dtype)
    elif mode == "block":
        def nest(prefix, axis):
            if axis == len(shape):
                p = piece(prefix)
                return da.from_array(p, chunks=p.shape)
            return [nest(prefix + (i,), axis + 1) for i in range(numblocks[axis])]

        x = da.block(nest((), 0))
    elif mode == "concat":
        # typed pieces along spec["axis"]; every piece keeps the chunking of the other axes
        ax = spec["axis"]
        parts = []
        for i in range(numblocks[ax]):
            sl = [slice(None)] * len(shape)
            lo = sum(chunks[ax][:i])
            sl[ax] = slice(lo, lo + chunks[ax][i])
            t = types[tuple(i if d == ax else 0 for d in range(len(shape)))]
            blk = a[tuple(sl)].copy()
            if t == "m":
                blk = np.ma.masked_array(blk, mask=pat[tuple(sl)].copy(), fill_value=fill)
            elif t == "n":
                blk = np.ma.masked_array(blk, fill_value=fill)
            cks = tuple((chunks[ax][i],) if d == ax else chunks[d] for d in range(len(shape)))
            parts.append(da.from_array(blk, chunks=cks))
        x = da.concatenate(parts, axis=ax)
    elif mode == "stack":
        # rows (axis 0 blocks of size 1) stacked from 1-D typed arrays
        parts = []
        for i in range(shape[0]):
            t = types[(i,) + (0,) * (len(shape) - 1)]
            blk = a[i].copy()
            if t == "m":
                blk = np.ma.masked_array(blk, mask=pat[i].copy(), fill_value=fill)
            elif t == "n":
                blk = np.ma.masked_array(blk, fill_value=fill)
            parts.append(da.from_array(blk, chunks=chunks[1:]))
        x = da.stack(parts, axis=0)
    elif mode == "from_array":
        x = da.from_array(np.ma.masked_array(a.copy(), mask=gm.copy(), fill_value=fill) if any_ma else a.copy(), chunks=chunks)
    else:
        raise KeyError(mode)
    return x, want


def build_dtype(spec):
    """-> (x, oracle) for a source of another dtype / array class"""
    import dask_array as da

    dt = spec["dtype"]
    if dt == "i8-0d":
        a = np.array(7, dtype=np.int64)
        return da.from_array(a.copy(), chunks=()), a
    if dt == "ma-0d":
        a = np.ma.masked_array(np.int64(5), mask=bool(spec.get("mask0d", True)))
        return da.from_array(a.copy(), chunks=()), a
    shape = tuple(spec["shape"])
    chunks = tuple(tuple(c) for c in spec["chunks"])
    if dt == "matrix":
        a = np.arange(int(np.prod(shape)), dtype=np.int64).reshape(shape) * 3 % 11
        return da.from_array(np.matrix(a.copy()), chunks=chunks), a  # values only (np.asarray)
    a = _base_data(shape, dt)
    if dt == "ma-rec":
        m = np.zeros(shape, dtype=[("a", "?"), ("b", "?")])
        flat = m.reshape(-1)
        flat["a"][::3] = True
        flat["b"][1::4] = True
        a = np.ma.masked_array(a, mask=m)
    if spec.get("mode") == "concat" and len(shape) >= 1 and len(chunks[0]) >= 2:
        cut = chunks[0][0]
        x = da.concatenate([da.from_array(a[:cut].copy(), chunks=(chunks[0][:1],) + chunks[1:]),
                            da.from_array(a[cut:].copy(), chunks=(chunks[0][1:],) + chunks[1:])], axis=0)
    else:
        x = da.from_array(a.copy(), chunks=chunks)
    return x, a


def apply_tops(ops, x, want, da_mode):
    """the type-agnostic steps of a typed spec, on the collection (da_mode) or on the oracle"""
    import dask_array as da

    v = x if da_mode else want
    for st in ops:
        op = st["op"]
        if op == "getitem":
            v = v[programs._dec_index(st["index"])]
        elif op == "transpose":
            v = v.T
        elif op == "rechunk":
            if da_mode:
                v = v.rechunk(tuple(tuple(c) for c in st["chunks"]))
        elif op == "affine":
            v = v * 2 + 1
        elif op == "neg":
            v = -v
        elif op == "add_plain":
            b = _base_data(tuple(st["shape"]), st["dtype"], 5, 2)
            v = v + (da.from_array(b, chunks=tuple(tuple(c) for c in st["chunks"])) if da_mode else b)
        elif op == "concat_self":
            v = (da if da_mode else (np.ma if _is_ma(v) else np)).concatenate([v, v[:1]], axis=0)
        else:
            raise KeyError(op)
    return v


def build_typed(case):
    spec = case["spec"]
    x, want = (build_masked if spec["family"] == "masked" else build_dtype)(spec)
    ops = spec.get("ops") or []
    return apply_tops(ops, x, want, True), apply_tops(ops, x, want, False)


def _rand_index(rng, shape):
    """slices (positive / negative steps), sometimes chunk-edge aligned by luck, rarely an int"""
    idx = []
    for d in shape:
        r = rng.random()
        if r < 0.12 and d > 0:
            idx.append(rng.randint(-d, d - 1))
        elif r < 0.3:
            idx.append(slice(None))
        else:
            idx.append(gen.rand_slice(rng, d, steps=(None, 1, 2, -1)))
    return tuple(idx)


def _gen_tops(rng, shape, numeric, dtype):
    ops = []
    shp = tuple(shape)
    for _ in range(rng.choice([0, 1, 1, 2])):
        if not shp or 0 in shp:
            break
        kinds = ["getitem", "rechunk"]
        if len(shp) == 2:
            kinds.append("transpose")
        if numeric:
            kinds += ["affine", "neg", "add_plain"]
        k = rng.choice(kinds)
        if k == "getitem":
            idx = _rand_index(rng, shp)
            ops.append({"op": "getitem", "index": programs._enc_index(idx)})
            shp = np.empty(shp, dtype="?")[idx].shape
        elif k == "rechunk":
            ops.append({"op": "rechunk", "chunks": [list(gen.rand_chunks(rng, n, maxparts=3)) for n in shp]})
        elif k == "transpose":
            ops.append({"op": "transpose"})
            shp = shp[::-1]
        elif k == "add_plain":
            ops.append({"op": "add_plain", "shape": list(shp), "dtype": dtype, "chunks": [list(gen.rand_chunks(rng, n, maxparts=3)) for n in shp]})
        else:
            ops.append({"op": k})
    return ops


def gen_masked_spec(rng):
    nd = rng.choice([1, 2, 2])
    shape = [rng.randint(3, 9)] + ([rng.randint(2, 7)] if nd == 2 else [])
    chunks = []
    for n in shape:
        for _ in range(10):
            c = gen.rand_chunks(rng, n, maxparts=3)
            if len(c) >= 2 or rng.random() < 0.15:
                break
        chunks.append(list(c))
    mode = rng.choice(["mapblocks", "mapblocks", "block", "concat", "concat", "stack", "from_array"])
    if mode == "stack":
        if nd == 1:
            mode = "concat"
        else:
            chunks[0] = [1] * shape[0]
    numblocks = [len(c) for c in chunks]
    nblocks = int(np.prod(numblocks))
    ax = rng.randrange(nd)
    order = rng.choice(["plain-first", "plain-first", "masked-first", "plain-last", "alternate", "random", "all-masked", "nomask-mixed"])
    ids = list(itertools.product(*(range(n) for n in numblocks)))
    if mode in ("concat", "stack"):
        if mode == "stack":
            ax = 0
        keyf = lambda b: b[ax]  # noqa: E731  (type constant across the other axes)
        nk = numblocks[ax]
    else:
        keyf = lambda b: ids.index(b)  # noqa: E731
        nk = nblocks
    if order == "plain-first":
        kt = ["p"] + ["m"] * (nk - 1)
    elif order == "masked-first":
        kt = ["m"] + ["p"] * (nk - 1)
    elif order == "plain-last":
        kt = ["m"] * (nk - 1) + ["p"]
    elif order == "alternate":
        kt = ["p" if i % 2 == 0 else "m" for i in range(nk)]
    elif order == "all-masked":
        kt = ["m"] * nk
    elif order == "nomask-mixed":
        kt = [rng.choice("pnm") for _ in range(nk)]
    else:
        kt = [rng.choice("pm") for _ in range(nk)]
    if mode == "from_array":
        kt = ["m"] * nk
    grid = [kt[keyf(b)] for b in ids]
    mk = rng.choice(["mod", "mod", "edges", "edges", "all"])
    mask = {"type": "mod", "mod": rng.randint(2, 4), "rem": rng.randint(0, 3)} if mk == "mod" else (
        {"type": "edges", "axis": rng.randrange(nd), "both": rng.random() < 0.5} if mk == "edges" else {"type": "all"})
    dtype = rng.choice(NUMERIC)
    spec = {"family": "masked", "shape": shape, "chunks": chunks, "dtype": dtype, "mode": mode, "axis": ax, "order": order, "grid": grid,
            "mask": mask, "fill": rng.choice([None, None, 77]), "mul": rng.choice([1, 3, 7]), "off": rng.randint(0, 5)}
    spec["ops"] = _gen_tops(rng, shape, True, dtype)
    return spec


def gen_dtype_spec(rng, dtype=None):
    dt = dtype or rng.choice(PLAIN_DTYPES)
    if dt in ("i8-0d", "ma-0d"):
        return {"family": "dtype", "dtype": dt, "mask0d": rng.random() < 0.7, "ops": []}
    nd = 2 if dt == "matrix" else rng.choice([1, 1, 2])
    shape = [rng.randint(3, 9)] + ([rng.randint(2, 5)] if nd == 2 else [])
    chunks = [list(gen.rand_chunks(rng, n, maxparts=3)) for n in shape]
    spec = {"family": "dtype", "dtype": dt, "shape": shape, "chunks": chunks, "mode": rng.choice(["from_array", "concat"])}
    spec["ops"] = [] if dt == "matrix" else [o for o in _gen_tops(rng, shape, False, dt)]
    if dt not in ("matrix",) and not spec["ops"] and rng.random() < 0.5:
        spec["ops"].append({"op": "concat_self"})
    return spec


# ------------------------------------------------------------------------------ typed check

TYPED_ENTRIES = (
    "x.compute", "dask.compute(x)", "dask.compute(x,y)", "dask.compute(x,delayed)", "dask.compute([x,y])", "dask.compute({a:x})",
    "np.asarray(x)", "x.persist", "dask.persist(x)", "dask.persist(x,y)", "dask.optimize(x)", "dask.optimize(x,y)", "x.optimize",
    "to_delayed", "x.persist.to_delayed", "dask.persist(x).to_delayed",
)
WHOLE = ("x.compute", "dask.compute(x)", "dask.compute(x,y)", "dask.compute(x,delayed)", "dask.compute([x,y])", "dask.compute({a:x})",
         "x.persist", "dask.persist(x)", "dask.persist(x,y)", "dask.optimize(x)", "dask.optimize(x,y)", "x.optimize")


class CompanionMismatch(Exception):
    pass


def run_tentry(entry, x, y, sched):
    """-> (value, derived collection | None, companion value | None)"""
    import dask

    kw = {"scheduler": sched}
    if entry == "x.compute":
        return x.compute(**kw), None, None
    if entry == "dask.compute(x)":
        return dask.compute(x, **kw)[0], None, None
    if entry == "dask.compute(x,y)":
        a, b = dask.compute(x, y, **kw)
        return a, None, b
    if entry == "dask.compute(x,delayed)":
        a, b = dask.compute(x, dask.delayed(lambda v: v * 2)(21), **kw)
        if not (isinstance(b, int) and b == 42):
            raise CompanionMismatch(f"delayed companion -> {b!r:.120}")
        return a, None, None
    if entry == "dask.compute([x,y])":
        ((a, b),) = dask.compute([x, y], **kw)
        return a, None, b
    if entry == "dask.compute({a:x})":
        (d,) = dask.compute({"a": x, "b": [y]}, **kw)
        return d["a"], None, d["b"][0]
    if entry == "np.asarray(x)":
        with dask.config.set(scheduler=sched):
            return np.asanyarray(x), None, None
    if entry == "x.persist":
        p = x.persist(**kw)
        return p.compute(**kw), p, None
    if entry == "dask.persist(x)":
        (p,) = dask.persist(x, **kw)
        return p.compute(**kw), p, None
    if entry == "dask.persist(x,y)":
        p, q = dask.persist(x, y, **kw)
        return p.compute(**kw), p, q.compute(**kw)
    if entry == "dask.optimize(x)":
        (o,) = dask.optimize(x)
        return o.compute(**kw), o, None
    if entry == "dask.optimize(x,y)":
        o, q = dask.optimize(x, y)
        return o.compute(**kw), o, q.compute(**kw)
    if entry == "x.optimize":
        o = x.optimize()
        return o.compute(**kw), o, None
    if entry == "to_delayed":
        return delayed_value(x, sched)[0], None, None
    if entry == "x.persist.to_delayed":
        return delayed_value(x.persist(**kw), sched)[0], None, None
    if entry == "dask.persist(x).to_delayed":
        return delayed_value(dask.persist(x, **kw)[0], sched)[0], None, None
    raise KeyError(entry)


def _follow_of(case, want):
    f = case.get("follow")
    if f is None:
        return None
    return f


def gen_tfollow(rng, want, numeric):
    shp = np.shape(want)
    kinds = ["getitem"] if shp and 0 not in shp else []
    if numeric:
        kinds += ["affine", "self_add"]
    if len(shp) == 2:
        kinds.append("transpose")
    if shp and 0 not in shp:
        kinds.append("rechunk1")  # merges all (mixed) blocks inside ONE task
    if not kinds:
        return None
    k = rng.choice(kinds)
    if k == "getitem":
        return {"op": "getitem", "index": programs._enc_index(_rand_index(rng, shp))}
    return {"op": k}


def apply_tfollow(f, v, x):
    if f["op"] == "getitem":
        return v[programs._dec_index(f["index"])]
    if f["op"] == "affine":
        return v * 2 + 1
    if f["op"] == "self_add":
        return v + x
    if f["op"] == "rechunk1":
        return v.rechunk(v.shape) if hasattr(v, "rechunk") else v
    return v.T


def _numeric_spec(spec):
    return spec["family"] == "masked" or spec["dtype"] in ("i1", "u2", "f4", "c16", "i8-0d", "ma-0d")


def check_typed(ctx, case, count=True):
    fails = []
    spec = case["spec"]
    values_only = spec.get("dtype") == "matrix"
    with warnings.catch_warnings():
        warnings.simplefilter("ignore")
        try:
            x, want = build_typed(case)
        except NotImplementedError:
            return None
        except Exception as e:
            if count:
                ctx.notes["typed.construction_raises"] = ctx.notes.get("typed.construction_raises", 0) + 1
                lst = ctx.extra.setdefault("typed_construction_raises_samples", [])
                if len(lst) < 3:
                    lst.append({"spec": spec, "error": f"{type(e).__name__}: {str(e)[:200]}"})
            return None
        sched = case.get("sched", "sync")
        if x.ndim >= 1 and x.shape[0] > 0:
            y, ywant = x[::-1], want[::-1]
        else:
            y, ywant = x, want
        follow = case.get("follow")
        fwant = None
        if follow is not None:
            try:
                fwant = apply_tfollow(follow, want, want)
                apply_tfollow(follow, x, x).compute(scheduler=sched)
            except Exception:
                follow = None  # the step itself is refused on x: not a C05 matter
        ref_fill = None
        tag = (spec["family"], spec.get("mode"), spec.get("order") or spec.get("dtype"))
        for entry in case.get("entries") or TYPED_ENTRIES:
            try:
                got, derived, comp = run_tentry(entry, x, y, sched)
            except NotImplementedError:
                if entry == "x.compute":
                    return None
                continue
            except Exception as e:
                if entry == "x.compute":
                    if count:
                        ctx.notes["typed.x_compute_raises"] = ctx.notes.get("typed.x_compute_raises", 0) + 1
                        lst = ctx.extra.setdefault("typed_x_compute_raises_samples", [])
                        if len(lst) < 3:
                            lst.append({"spec": spec, "error": f"{type(e).__name__}: {str(e)[:200]}"})
                    return fails
                fails.append({"sig": _known(case, x, y, entry, e) or f"typed:{entry}:raises:{type(e).__name__}", "entry": entry,
                              "detail": f"{entry} raised {type(e).__name__}: {str(e)[:240]} (x.compute() returns {tshow(want)})"})
                continue
            if values_only:
                got = np.asarray(got)
                comp = None if comp is None else np.asarray(comp)
            if count:
                ctx.count(("typed", entry, tag, _is_ma(got)))
            why = tsame(got, want, data_only=entry == "np.asarray(x)")
            if why:
                fails.append({"sig": _known_value(case, x, y, entry) or f"typed:{entry}:{why}", "entry": entry, "detail": f"{entry} -> {tshow(got)}; NumPy oracle {tshow(want)}"})
            elif _is_ma(got) and got is not np.ma.masked and entry in WHOLE:
                if ref_fill is None:
                    ref_fill = (entry, got.fill_value)
                elif not _fill_eq(ref_fill[1], got.fill_value):
                    fails.append({"sig": f"typed:{entry}:fill-value", "entry": entry,
                                  "detail": f"{entry} -> fill_value {got.fill_value!r}, {ref_fill[0]} -> {ref_fill[1]!r} (same data and mask)"})
            if comp is not None:
                why = tsame(comp, ywant)
                if why:
                    fails.append({"sig": _known_value(case, x, y, entry) or f"typed:{entry}:{why}", "entry": entry, "detail": f"{entry}: companion x[::-1] -> {tshow(comp)}; NumPy oracle {tshow(ywant)}"})
            if derived is not None and follow is not None:
                try:
                    fd = apply_tfollow(follow, derived, x).compute(scheduler=sched)
                    if values_only:
                        fd = np.asarray(fd)
                    if count:
                        ctx.count(("typed-follow", entry, follow["op"]))
                    why = tsame(fd, fwant)
                    if why:
                        fails.append({"sig": _known_value(case, x, y, entry) or f"typed:{entry}:{why}", "entry": entry,
                                      "detail": f"{follow} on the result of {entry} -> {tshow(fd)}; NumPy oracle {tshow(fwant)}"})
                except NotImplementedError:
                    pass
                except Exception as e:
                    fails.append({"sig": _known(case, x, y, entry, e) or f"typed:{entry}:followon:raises:{type(e).__name__}", "entry": entry,
                                  "detail": f"{follow} on the result of {entry} raised {type(e).__name__}: {str(e)[:200]} (fine on x)"})
    return fails


_C05_ENTRY = {"dask.compute([x,y])": "dask.compute(x,y)", "dask.compute({a:x})": "dask.compute(x,y)", "dask.persist(x).to_delayed": "dask.persist(x)"}


SIG_MASKED_CONST = "persist:masked-constant-block:untokenizable"


def _known(case, x, y, entry, exc):
    """the documented findings of the main C05 stream (classified by its predicates on the expression, not by the case)"""
    from harness.props import C05

    if isinstance(exc, AttributeError) and "attributes of masked are not writeable" in str(exc) and "persist" in entry and x.ndim == 0:
        # a 0-d block that IS the np.ma.masked singleton (an integer index hitting a masked cell): the persisted layer
        # holds the singleton, whose .fill_value raises in this NumPy, and tokenizing the rebuilt collection fails
        return SIG_MASKED_CONST

    e = _C05_ENTRY.get(entry, entry)
    if isinstance(exc, CompanionMismatch):
        return C05.classify_value({}, x, y, e)
    return C05.classify({}, x, y, e, exc)


def _known_value(case, x, y, entry):
    from harness.props import C05

    return C05.classify_value({}, x, y, _C05_ENTRY.get(entry, entry))


def _fill_eq(a, b):
    try:
        return bool(a == b) or (a != a and b != b)
    except Exception:
        return repr(a) == repr(b)


def shrink_typed(ctx, case, sig):
    """drop ops / follow / entries while the same signature still fires"""
    def still(c):
        r = check_typed(ctx, c, count=False)
        return bool(r) and any(g["sig"] == sig for g in r)

    small = case
    try:
        ops = list(case["spec"].get("ops") or [])
        for k in range(len(ops) - 1, -1, -1):
            c = dict(small, spec=dict(small["spec"], ops=ops[:k] + ops[k + 1:]))
            if still(c):
                small, ops = c, ops[:k] + ops[k + 1:]
        if small.get("follow") is not None and "followon" not in sig:
            c = dict(small, follow=None)
            if still(c):
                small = c
    except Exception:
        return case
    return small


_REPORTED = set()


def report_typed(ctx, case, fails):
    by = {}
    for f in fails:
        by.setdefault(f["sig"], f)
    for sig, f in by.items():
        if sig in _REPORTED:
            continue  # one concrete replay per signature and run
        _REPORTED.add(sig)
        small = dict(case, entries=["x.compute"] + ([f["entry"]] if f["entry"] != "x.compute" else []))
        r = check_typed(ctx, small, count=False)
        if not (r and any(g["sig"] == sig for g in r)):
            small = dict(case)
        small = shrink_typed(ctx, small, sig)
        r = check_typed(ctx, small, count=False)
        detail = next((g["detail"] for g in (r or []) if g["sig"] == sig), f["detail"])
        ctx.fail(sig, small, detail)


# ------------------------------------------------------------------------------ ownership

HOLDERS = ("x", "x.persist", "dask.persist(x)", "x.optimize", "dask.optimize(x)", "x.persist.persist")
VICTIMS = ("x.compute", "dask.compute(x)", "dask.compute(x,y)", "dask.compute(x,delayed)", "dask.compute([x,y])", "dask.compute({a:x})",
           "np.asarray(x)", "x.persist", "dask.persist(x)", "x.optimize", "dask.optimize(x)", "x.compute:threads")
OWN_POST = ("x.compute", "dask.compute(x)", "x.persist", "dask.persist(x)", "x.optimize", "to_delayed", "follow")


def make_holder(name, x, sched):
    import dask

    if name == "x":
        return x
    if name == "x.persist":
        return x.persist(scheduler=sched)
    if name == "dask.persist(x)":
        return dask.persist(x, scheduler=sched)[0]
    if name == "x.optimize":
        return x.optimize()
    if name == "dask.optimize(x)":
        return dask.optimize(x)[0]
    if name == "x.persist.persist":
        return x.persist(scheduler=sched).persist(scheduler=sched)
    raise KeyError(name)


def view_index(view, h):
    """index tuple (into the holder and into the oracle) of a view description; None = whole"""
    if view is None or view["type"] == "whole":
        return None
    if view["type"] == "aligned":
        idx = []
        for (b0, b1), c in zip(view["blocks"], h.chunks):
            b0 = min(b0, len(c) - 1)
            b1 = max(b0 + 1, min(b1, len(c)))
            idx.append(slice(int(sum(c[:b0])), int(sum(c[:b1]))))
        return tuple(idx)
    if view["type"] == "index":
        return programs._dec_index(view["index"])
    raise KeyError(view["type"])


def take_view(view, h, want):
    """-> (collection t, oracle of t)"""
    if view is not None and view["type"] == "blocks":
        bid = tuple(min(i, n - 1) for i, n in zip(view["idx"], h.numblocks))
        sl = _block_slices(h.chunks, bid)
        return h.blocks[bid], want[sl]
    idx = view_index(view, h)
    if idx is None:
        return h, want
    return h[idx], want[idx]


def victim_values(victim, t, sched):
    """NumPy data handed back by an entry point on t: list of arrays (all of them get overwritten)"""
    import dask

    if victim == "x.compute:threads":
        return [t.compute(scheduler="threads")]
    y = t + 1 if t.dtype.kind in "iufc" else t
    got, derived, comp = run_tentry(victim, t, y, sched)
    return [v for v in (got, comp) if v is not None]


def overwrite(r):
    """what a caller may do with its own result: write data (and mask) in place.  -> 'written' | 'read-only' | 'scalar'"""
    if not isinstance(r, np.ndarray):
        return "scalar"
    try:
        if _is_ma(r):
            d = np.ma.getdata(r)
            _write(d)
            m = np.ma.getmask(r)
            if m is not np.ma.nomask:
                m[...] = ~m
        else:
            _write(r)
    except ValueError:
        return "read-only"
    return "written"


def _write(d):
    if d.dtype.names:
        for n in d.dtype.names:
            _write(d[n])
    elif d.dtype.kind == "b":
        np.logical_not(d, out=d)
    elif d.dtype.kind in "iufc":
        d[...] = SENTINEL if d.dtype.kind != "u" else 177
    elif d.dtype.kind in "mM":
        d[...] = np.array(12345, dtype=d.dtype)
    elif d.dtype.kind in "US":
        d[...] = "zz"
    else:
        d[...] = SENTINEL


def build_own_base(case):
    """-> (x, oracle copy)"""
    base = case["base"]
    if "prog" in base:
        env = programs.run_da(base["prog"])
        root = base["prog"][-1]["out"]
        return env[root], np.array(programs.run_np(base["prog"])[root], copy=True)
    if "typed" in base:
        x, want = build_typed({"spec": base["typed"]})
        return x, want.copy()
    return build_shape(base["shape"])


def build_shape(s):
    """small hand shapes of sources (the ways data gets INTO a graph)"""
    import dask
    import dask_array as da

    shape = tuple(s["shape"])
    chunks = tuple(tuple(c) for c in s["chunks"])
    a = _base_data(shape, s.get("dtype", "f8"), 3, 1)
    k = s["src"]
    if k == "from_array":
        x = da.from_array(a.copy(), chunks=chunks)
    elif k == "asarray":
        x = da.asarray(a.copy()).rechunk(chunks) if s.get("rechunk") else da.asarray(a.copy())
    elif k == "from_delayed":
        v = dask.delayed(lambda: _base_data(shape, s.get("dtype", "f8"), 3, 1), pure=True)()
        x = da.from_delayed(v, shape=shape, dtype=a.dtype)
    elif k == "from_array_masked":
        a = np.ma.masked_array(a, mask=(np.arange(a.size).reshape(shape) % 3 == 1))
        x = da.from_array(a.copy(), chunks=chunks)
    elif k == "ones":
        a = np.ones(shape, dtype=a.dtype)
        x = da.ones(shape, chunks=chunks, dtype=a.dtype)
    elif k == "concatenate":
        cut = chunks[0][0]
        x = da.concatenate([da.from_array(a[:cut].copy(), chunks=(chunks[0][:1],) + chunks[1:]),
                            da.from_array(a[cut:].copy(), chunks=(chunks[0][1:] or (0,),) + chunks[1:])], axis=0) if len(chunks[0]) > 1 else da.from_array(a.copy(), chunks=chunks)
    else:
        raise KeyError(k)
    want = a
    for st in s.get("steps", ()):
        if st == "add1":
            x, want = x + 1, want + 1
        elif st == "T":
            x, want = x.T, want.T
        elif st == "rev":
            x, want = x[::-1], want[::-1]
        elif st == "sum0":
            x, want = x.sum(axis=0), want.sum(axis=0)
        elif st == "rechunk1":
            x = x.rechunk(x.shape)
    return x, np.ma.copy(want) if _is_ma(want) else np.array(want, copy=True)


def gen_own_case(rng, it):
    r = it % 3
    if r == 0:
        prog, npenv = programs.gen_clean_program(rng, rng.randint(1, 3))
        w = npenv[prog[-1]["out"]]
        if any(st["op"] in ("swv_reduce", "boolmask_1d") for st in prog):
            return None
        base = {"prog": prog}
        shp = w.shape
    elif r == 1 and rng.random() < 0.5:
        spec = gen_masked_spec(rng)
        try:
            shp = np.shape(build_typed({"spec": spec})[1])
        except Exception:
            return None
        base = {"typed": spec}
    else:
        nd = rng.choice([1, 2, 2])
        shape = [rng.randint(2, 6) for _ in range(nd)]
        single = rng.random() < 0.4
        chunks = [[n] if single else list(gen.rand_chunks(rng, n, maxparts=3)) for n in shape]
        steps = rng.choice([[], [], ["add1"], ["add1"], ["T"], ["rev"], ["sum0"], ["add1", "rechunk1"], ["rechunk1"]])
        if nd == 1 and "sum0" in steps:
            steps = []
        base = {"shape": {"src": rng.choice(["from_array", "from_array", "asarray", "from_delayed", "from_array_masked", "ones", "concatenate"]),
                          "shape": shape, "chunks": chunks, "dtype": rng.choice(["f8", "i8", "i8", "?", "c16", "M8[D]"]), "steps": steps}}
        if base["shape"]["dtype"] not in ("f8", "i8", "c16") and ("add1" in steps or "sum0" in steps):
            base["shape"]["steps"] = []
        if base["shape"]["src"] == "from_delayed":
            base["shape"]["chunks"] = [[n] for n in shape]
        shp = None
    vk = rng.choice(["whole", "whole", "aligned", "aligned", "aligned", "blocks", "index"])
    if vk == "whole":
        view = None
    elif vk == "aligned":
        # block ranges per axis; mostly exactly one block (the result is then ONE stored block)
        view = {"type": "aligned", "blocks": [([b, b + 1] if rng.random() < 0.7 else [b, b + 2]) for b in (rng.randint(0, 2) for _ in range(4))]}
    elif vk == "blocks":
        view = {"type": "blocks", "idx": [rng.randint(0, 2) for _ in range(4)]}
    else:
        view = {"type": "unaligned"}
    return {"kind": "own", "base": base, "holder": rng.choice(HOLDERS[1:] if rng.random() < 0.8 else HOLDERS), "view": view,
            "victims": rng.sample(list(VICTIMS), rng.choice([1, 1, 2])), "sched": "sync", "_shp": shp}


def _fresh(case, sched):
    """(holder, view) of a fresh, untouched replay of the history's first half"""
    x, want = build_own_base(case)
    h = make_holder(case["holder"], x, sched)
    view = case.get("view")
    if view is not None and view["type"] == "blocks":
        view = dict(view, idx=view["idx"][: h.ndim])
    if view is not None and view["type"] == "aligned":
        view = dict(view, blocks=view["blocks"][: h.ndim])
    if h.ndim == 0:
        view = None
    return h, take_view(view, h, want)[0]


def check_own(ctx, case, count=True):
    """one history; returns list of failures, or None when the history could not be played (refusals, documented
    defects of an entry point on the way: those belong to the main stream)"""
    fails = []
    with warnings.catch_warnings():
        warnings.simplefilter("ignore")
        sched = case.get("sched", "sync")
        try:
            x, want = build_own_base(case)
            if any(isinstance(c, float) for dim in x.chunks for c in dim):
                return None
            h = make_holder(case["holder"], x, sched)
            view = case.get("view")
            if view is not None and view["type"] == "blocks":
                view = dict(view, idx=view["idx"][: h.ndim])
            if view is not None and view["type"] == "aligned":
                view = dict(view, blocks=view["blocks"][: h.ndim])
            if h.ndim == 0:
                view = None
            t, twant = take_view(view, h, want)
            # the history must be sound before anything is overwritten
            if tsame(h.compute(scheduler=sched), want) or tsame(t.compute(scheduler=sched), twant):
                return None
        except Exception:
            return None
        tags = []
        for victim in case["victims"]:
            try:
                rs = victim_values(victim, t, sched)
            except Exception:
                return None if not tags else fails
            st = [overwrite(r) for r in rs]
            tags.append((victim, tuple(st)))
            if count:
                ctx.count(("own", case["holder"], (view or {}).get("type", "whole"), victim, tuple(sorted(set(st))), len(np.shape(twant)), _is_ma(twant)))
        hist = f"holder={case['holder']}, view={view}, overwritten results of {[v for v, _ in tags]}"
        follow_ok = want.dtype.kind in "iufc"

        def later(label, fn, w, fresh=None):
            try:
                got = fn()
            except NotImplementedError:
                return
            except Exception as e:
                # judged against the SAME call in a fresh history in which nothing was overwritten: an entry point that
                # raises there as well (documented dask.persist / dask.optimize findings, ...) is the main stream's matter
                try:
                    if fresh is not None:
                        fresh()
                except Exception:
                    return
                fails.append({"sig": f"ownership:{case['holder']}:later-raises", "entry": label,
                              "detail": f"after the caller overwrote its results in place ({hist}): {label} raised {type(e).__name__}: {str(e)[:200]}"})
                return
            why = tsame(got, w)
            if why:
                fails.append({"sig": f"ownership:{case['holder']}:overwrite-visible", "entry": label,
                              "detail": f"after the caller overwrote its results in place ({hist}): {label} -> {tshow(got)}; before / NumPy oracle {tshow(w)}"})

        for entry in case.get("post") or OWN_POST:
            if entry == "follow":
                if follow_ok:
                    later("(holder * 2).compute()", lambda: (h * 2).compute(scheduler=sched), want * 2)
                continue
            later(f"{entry} on the holder", lambda e=entry: run_tentry(e, h, h, sched)[0], want,
                  fresh=lambda e=entry: run_tentry(e, _fresh(case, sched)[0], _fresh(case, sched)[0], sched))
            if t is not h:
                later(f"{entry} on the view", lambda e=entry: run_tentry(e, t, t, sched)[0], twant,
                      fresh=lambda e=entry: run_tentry(e, _fresh(case, sched)[1], _fresh(case, sched)[1], sched))
        later("x.compute() on the original collection", lambda: x.compute(scheduler=sched), want)
    return fails


def report_own(ctx, case, fails):
    case = {k: v for k, v in case.items() if not k.startswith("_")}
    by = {}
    for f in fails:
        by.setdefault(f["sig"], f)
    for sig, f in by.items():
        if sig in _REPORTED:
            continue
        _REPORTED.add(sig)
        small = case

        def still(c):
            r = check_own(ctx, c, count=False)
            return bool(r) and any(g["sig"] == sig for g in r)

        try:
            if len(small["victims"]) > 1 and still(dict(small, victims=small["victims"][:1])):
                small = dict(small, victims=small["victims"][:1])
            if "prog" in small["base"]:
                p = programs.shrink(small["base"]["prog"], lambda p: still(dict(small, base={"prog": p})), max_iter=40)
                if still(dict(small, base={"prog": p})):
                    small = dict(small, base={"prog": p})
            r = check_own(ctx, small, count=False)
            detail = next((g["detail"] for g in (r or []) if g["sig"] == sig), f["detail"])
        except Exception:
            small, detail = case, f["detail"]
        ctx.fail(sig, small, detail)


def observe_delayed_blocks(ctx, case):
    """to_delayed blocks are raw task outputs: record (not judge) whether writing into them reaches stored data."""
    with warnings.catch_warnings():
        warnings.simplefilter("ignore")
        try:
            x, want = build_own_base(case)
            if any(isinstance(c, float) for dim in x.chunks for c in dim):
                return
            h = make_holder(case["holder"], x, "sync")
            _, blocks = delayed_value(h, "sync")
            st = {overwrite(b) for b in blocks}
            after = h.compute(scheduler="sync")
            reached = tsame(after, want) is not None
        except Exception:
            return
    key = "to_delayed_block_overwrite." + ("read-only" if st == {"read-only"} else ("reaches-stored-data" if reached else "independent"))
    ctx.notes[key] = ctx.notes.get(key, 0) + 1
    if reached:
        lst = ctx.extra.setdefault("to_delayed_block_overwrite_reaches", [])
        hk = case["holder"] + ":" + ("prog" if "prog" in case["base"] else "typed" if "typed" in case["base"] else case["base"]["shape"]["src"])
        if hk not in lst and len(lst) < 12:
            lst.append(hk)


# ------------------------------------------------------------------------------ fixed (every run) cases

def fixed_typed_cases():
    """deterministic minimal members of each class, run on every seed"""
    out = []
    for mode, shape, chunks, grid, ax in (
        ("concat", [6], [[2, 2, 2]], "pmm", 0), ("concat", [6], [[2, 2, 2]], "mpp", 0), ("concat", [6], [[3, 3]], "pm", 0),
        ("mapblocks", [4, 6], [[2, 2], [3, 3]], "pmmm", 0), ("mapblocks", [4, 6], [[2, 2], [3, 3]], "pppm", 0), ("mapblocks", [4, 6], [[2, 2], [3, 3]], "mppp", 0),
        ("block", [4, 4], [[2, 2], [1, 3]], "pmpm", 0), ("stack", [3, 4], [[1, 1, 1], [2, 2]], "ppmmmm", 0), ("concat", [4, 6], [[2, 2], [3, 3]], "ppmm", 0),
        ("concat", [4, 6], [[2, 2], [3, 3]], "pmpm", 1), ("from_array", [5], [[2, 3]], "mm", 0), ("mapblocks", [6], [[2, 2, 2]], "pnm", 0),
        ("mapblocks", [5], [[5]], "m", 0),
    ):
        for mask in ({"type": "mod", "mod": 3, "rem": 0}, {"type": "edges", "axis": -1, "both": True}):
            out.append({"kind": "typed", "sched": "sync", "follow": {"op": "affine"},
                        "spec": {"family": "masked", "shape": shape, "chunks": chunks, "dtype": "f8", "mode": mode, "axis": ax, "order": "fixed",
                                 "grid": list(grid), "mask": mask, "fill": None, "mul": 3, "off": 1, "ops": [{"op": "affine"}] if mask["type"] == "mod" else []}})
    # a 0-d result that IS the np.ma.masked constant (integer index on a masked cell)
    out.append({"kind": "typed", "sched": "sync", "follow": None, "entries": ["x.compute", "to_delayed", "x.persist"],
                "spec": {"family": "masked", "shape": [5], "chunks": [[2, 3]], "dtype": "i8", "mode": "from_array", "axis": 0, "order": "fixed",
                         "grid": ["m", "m"], "mask": {"type": "mod", "mod": 3, "rem": 0}, "fill": None, "mul": 3, "off": 1,
                         "ops": [{"op": "getitem", "index": [0]}]}})
    return out


def fixed_own_cases():
    out = []
    for src, steps in (("from_array", ["add1"]), ("from_array", []), ("asarray", []), ("from_delayed", []), ("from_array_masked", ["add1"])):
        for single in (True, False):
            base = {"shape": {"src": src, "shape": [3, 4], "chunks": [[3], [4]] if single or src == "from_delayed" else [[3], [2, 2]], "dtype": "f8", "steps": steps}}
            for holder in ("x.persist", "dask.persist(x)", "dask.optimize(x)") + (("x", "x.optimize") if not steps else ()):
                views = [None] if single else [{"type": "aligned", "blocks": [[0, 1], [0, 1]]}, {"type": "blocks", "idx": [0, 1]}]
                for view in views:
                    out.append({"kind": "own", "base": base, "holder": holder, "view": view, "victims": ["x.compute"], "sched": "sync"})
    # size-1 results (a 1x1 single-chunk array; one 1-cell block of a 1-D array) and a dask.compute tuple
    for holder in ("x.persist", "dask.persist(x)"):
        out.append({"kind": "own", "base": {"shape": {"src": "from_array", "shape": [1, 1], "chunks": [[1], [1]], "dtype": "i8", "steps": ["add1"]}},
                    "holder": holder, "view": None, "victims": ["dask.compute(x)"], "sched": "sync"})
        out.append({"kind": "own", "base": {"shape": {"src": "from_array", "shape": [4], "chunks": [[1, 3]], "dtype": "i8", "steps": ["add1"]}},
                    "holder": holder, "view": {"type": "blocks", "idx": [0]}, "victims": ["dask.compute(x,y)"], "sched": "sync"})
    return out


# ------------------------------------------------------------------------------ stream entry

def replay(ctx, case):
    if case.get("kind") == "typed":
        for f in check_typed(ctx, case) or []:
            ctx.fail(f["sig"], case, f["detail"])
    else:
        for f in check_own(ctx, case) or []:
            ctx.fail(f["sig"], case, f["detail"])


def run(ctx, budget_s):
    import time

    rng = ctx.rng
    t0 = time.time()
    n_typed = n_own = 0
    _REPORTED.clear()
    # ---- typed: fixed members, then seeded
    for case in fixed_typed_cases():
        fails = check_typed(ctx, case)
        n_typed += fails is not None
        if fails:
            report_typed(ctx, case, fails)
    dts = list(PLAIN_DTYPES)
    rng.shuffle(dts)
    for it in range(ctx.scale(30, 600)):
        if time.time() - t0 > budget_s * 0.5:
            ctx.notes["typed.stopped_early_at"] = it
            break
        if it % 3 == 2:
            spec = gen_dtype_spec(rng, dts[(it // 3) % len(dts)])
        else:
            spec = gen_masked_spec(rng)
        case = {"kind": "typed", "spec": spec, "sched": "threads" if it % 5 == 4 else "sync", "follow": None}
        try:
            with warnings.catch_warnings():
                warnings.simplefilter("ignore")
                want = build_typed(case)[1]
            case["follow"] = None if spec.get("dtype") == "matrix" else gen_tfollow(rng, want, _numeric_spec(spec))
            if want is np.ma.masked:
                # a 0-d result that is the np.ma.masked constant: persisting it is the documented SIG_MASKED_CONST
                # (fixed probe in fixed_typed_cases); keep it out of the random persist entries
                case["entries"] = [e for e in TYPED_ENTRIES if "persist" not in e]
        except Exception:
            pass
        if it < 2:
            ctx.sample({"typed": spec})
        fails = check_typed(ctx, case)
        n_typed += fails is not None
        if fails:
            report_typed(ctx, case, fails)
    ctx.notes["typed.cases"] = n_typed
    # ---- ownership: fixed members, then seeded
    t1 = time.time()
    for case in fixed_own_cases():
        fails = check_own(ctx, case)
        n_own += fails is not None
        if fails:
            report_own(ctx, case, fails)
    for it in range(ctx.scale(36, 700)):
        if time.time() - t1 > budget_s * 0.5:
            ctx.notes["own.stopped_early_at"] = it
            break
        case = gen_own_case(rng, it)
        if case is None:
            continue
        if case["view"] is not None and case["view"]["type"] == "unaligned":
            shp = case.get("_shp")
            if shp is None:
                try:
                    with warnings.catch_warnings():
                        warnings.simplefilter("ignore")
                        shp = np.shape(build_own_base(case)[1])
                except Exception:
                    continue
            case["view"] = {"type": "index", "index": programs._enc_index(_rand_index(rng, shp))} if shp else None
        case = {k: v for k, v in case.items() if not k.startswith("_")}
        if it < 2:
            ctx.sample({"own": {k: case[k] for k in ("holder", "view", "victims")}})
        fails = check_own(ctx, case)
        n_own += fails is not None
        if fails:
            report_own(ctx, case, fails)
        if it % 4 == 0:
            observe_delayed_blocks(ctx, case)
    ctx.notes["own.histories"] = n_own
