"""C03 extension — every output block (shape AND dtype) of

(A) `mbshape`: multi-input `map_blocks` / `blockwise(align_arrays=False)` whose inputs have the same block
    COUNT but different block SIZES (blocks are paired by position), with implicit and explicit `chunks=`,
    `drop_axis`, `new_axis`, `adjust_chunks`, `new_axes`, block functions with and without `block_id`,
    explicit and inferred dtype.  Oracle (independent of the implementation): the block function is applied
    by brute force to the NumPy slices that the CASE's own input layouts pair by position; the documented
    default ("the resulting array is assumed to have the same block structure as the first input array";
    single-block axes broadcast, so along every index the FIRST input with the most blocks leads) gives
    the block sizes an honest block function produces.
(B) `xdtype`: every public operation that takes an explicit `dtype=` (cumulative ops in both methods,
    reductions, astype, ufuncs with dtype=, creation routines, einsum/trace/cov, matmul/tensordot of mixed
    dtypes, map_blocks/apply_gufunc/apply_along_axis) over >= 3 blocks along the operated axis, also after
    slicing away the first block, taking the last block (`.blocks`), an integer-list take and a rechunk.
    Oracle: NumPy's result dtype for the same call; every block of the real graph must carry the advertised
    dtype (not only the first one that `concatenate` happens to keep).

Every case is a JSON dict that rebuilds the arrays from scratch (`replay`).
"""
from __future__ import annotations

import itertools
import warnings

import numpy as np

_UID = itertools.count()

# ====================================================================================== helpers


def _extents(chunks_axis):
    out, s = [], 0
    for c in chunks_axis:
        out.append((s, s + int(c)))
        s += int(c)
    return out


def _chunks_k(rng, k, lo=1, hi=4):
    return [rng.randint(lo, hi) for _ in range(k)]


def _chunks_min_blocks(rng, n, kmin):
    """random composition of n with at least kmin parts (n >= kmin)"""
    k = rng.randint(kmin, min(n, kmin + 2))
    cuts = sorted(rng.sample(range(1, n), k - 1))
    return [b - a for a, b in zip([0] + cuts, cuts + [n])]


def _data(shape, dtype, mul=7, off=3, mod=5, half=True, nan_at=None):
    n = int(np.prod(shape)) if len(shape) else 1
    a = ((np.arange(n, dtype=np.int64) * mul + off) % mod).reshape(shape)
    dt = np.dtype(dtype)
    if dt.kind == "f":
        a = a.astype(dt) + (dt.type(0.5) if half else dt.type(0))
        if nan_at is not None and a.size:
            a.reshape(-1)[nan_at % a.size] = np.nan
        return a
    if dt.kind == "c":
        return (a + 1j * (a % 3)).astype(dt)
    if dt.kind == "b":
        return (a % 2).astype(bool)
    return a.astype(dt)


def _result(y, values, opt):
    """the whole result: a real compute() under optimization; with optimization off the real finalize over the block
    values that were just executed (same graph, no second execution)"""
    import dask
    from harness import graphs as G

    if opt:
        with dask.config.set({"array.optimize-graph": True}):
            return np.asarray(y.compute(scheduler="sync"))
    return np.asarray(G.assemble(y, values))


def _blocks_of(x, optimize):
    from harness.props.C03 import block_failures

    return block_failures(x, optimize)


# ====================================================================================== (A) mbshape


def _twice(n):
    return 2 * n


def _plus1(n):
    return n + 1


ADJ_FUNCS = {"twice": _twice, "plus1": _plus1}


class _ShapeFn:
    """Honest block function: the shape of what it returns is decided by `plan` (one entry per output
    axis) from the shapes of the blocks it is given, never from what dask advertises:
      ["lead", arg, axis, mul, add]  size = mul * blocks[arg].shape[axis] + add
      ["const", c]                   size = c
      ["byid", [sizes…]]             size = sizes[block_id[out axis]]   (needs block_id)
    The value is a code of the delivered blocks' sums (so a wrong pairing of blocks shows in the values)."""

    __name__ = "shapefn"

    def __init__(self, plan, dtype):
        self.plan = plan
        self.dtype = None if dtype is None else np.dtype(dtype)
        self.uid = next(_UID)

    def __dask_tokenize__(self):
        return (type(self).__name__, self.uid)

    def __reduce__(self):
        return (_identity, (self,))

    def compute(self, blocks, block_id):
        shape = []
        for ax, p in enumerate(self.plan):
            if p[0] == "lead":
                shape.append(p[3] * int(np.asarray(blocks[p[1]]).shape[p[2]]) + p[4])
            elif p[0] == "const":
                shape.append(int(p[1]))
            else:
                j = int(block_id[ax]) if block_id is not None else 0
                shape.append(int(p[1][j]))
        code = 0
        for i, b in enumerate(blocks):
            b = np.asarray(b)
            code += (i + 1) * int(b.sum()) if b.size else 0
        dt = self.dtype if self.dtype is not None else np.result_type(*[np.asarray(b).dtype for b in blocks])
        return np.full(tuple(shape), code % 89, dtype=dt)


def _identity(x):
    return x


def _c(case, **detail):
    """failure case = the input (replayable as is) + a `detail` record of what was observed"""
    return {**case, "detail": detail}


class ShapeFnPlain(_ShapeFn):
    def __call__(self, *blocks):
        return self.compute(blocks, None)


class ShapeFnId(_ShapeFn):
    def __call__(self, *blocks, block_id=None):
        return self.compute(blocks, block_id)


def _mb_spec(case):
    """From the case alone: per input its labels, the output labels, the leader of every output label,
    the plan of the block function, the chunks= / adjust_chunks argument, and the expected block grid."""
    ins = case["inputs"]
    api = case["api"]
    if api == "map_blocks":
        R = max(len(i["chunks"]) for i in ins)
        inds = [list(range(len(i["chunks"])))[::-1] for i in ins]
        out_ind = list(range(R))[::-1]
        drop = sorted(d % R for d in (case.get("drop_axis") or []))
        out_ind = [x for i, x in enumerate(out_ind) if i not in drop]
        new_labels = []
        for ax in sorted(case.get("new_axis") or []):
            n = len(out_ind) + len(drop)
            out_ind.insert(ax, n)
            new_labels.append(n)
    else:
        inds = [list(i["ind"]) for i in ins]
        out_ind = list(case["out_ind"])
        new_labels = [int(k) for k in (case.get("new_axes") or {})]
    # leader of a label: first input (argument order) with the most blocks along it
    leader = {}
    for lab in set(l for ind in inds for l in ind):
        best = None
        for i, (inp, ind) in enumerate(zip(ins, inds)):
            if lab in ind:
                nb = len(inp["chunks"][ind.index(lab)])
                if best is None or nb > best[0]:
                    best = (nb, i, ind.index(lab))
        leader[lab] = best
    return inds, out_ind, new_labels, leader


def _mb_build(case):
    """Returns (z, expected_blocks{bid: ndarray}, expected_chunks, np inputs)."""
    import dask_array as da

    ins = case["inputs"]
    inds, out_ind, new_labels, leader = _mb_spec(case)
    xs = [_data([sum(c) for c in i["chunks"]], i["dtype"], mul=3 + 2 * k, off=k, mod=11, half=False) for k, i in enumerate(ins)]
    ds = [da.from_array(x, chunks=tuple(tuple(c) for c in i["chunks"])) for x, i in zip(xs, ins)]
    plan = case["plan"]
    fdt = case.get("fdtype")
    fn = (ShapeFnId if case.get("with_id") else ShapeFnPlain)(plan, fdt)
    kw = {}
    if case.get("pass_dtype", True) and fdt is not None:
        kw["dtype"] = np.dtype(fdt)
    if case["api"] == "map_blocks":
        if case.get("chunks") is not None:
            kw["chunks"] = tuple(tuple(c) if isinstance(c, list) else int(c) for c in case["chunks"])
        if case.get("drop_axis"):
            kw["drop_axis"] = list(case["drop_axis"])
        if case.get("new_axis") is not None:
            kw["new_axis"] = list(case["new_axis"])
        z = da.map_blocks(fn, *ds, **kw)
    else:
        adj = {}
        for k, v in (case.get("adjust") or {}).items():
            adj[int(k)] = ADJ_FUNCS[v] if isinstance(v, str) else (tuple(v) if isinstance(v, list) else int(v))
        if adj:
            kw["adjust_chunks"] = adj
        if case.get("new_axes"):
            kw["new_axes"] = {int(k): int(v) for k, v in case["new_axes"].items()}
        args = []
        for d, ind in zip(ds, inds):
            args += [d, tuple(ind)]
        z = da.blockwise(fn, tuple(out_ind), *args, align_arrays=False, concatenate=True, **kw)
    # ---- oracle grid
    nblocks = []
    for ax, lab in enumerate(out_ind):
        if lab in new_labels:
            p = plan[ax]
            nblocks.append(len(p[1]) if p[0] == "byid" else 1)
        else:
            nblocks.append(leader[lab][0])
    expected = {}
    for bid in itertools.product(*[range(n) for n in nblocks]):
        loc = dict(zip(out_ind, bid))
        blocks = []
        for x, inp, ind in zip(xs, ins, inds):
            sl = []
            for j, lab in enumerate(ind):
                c = inp["chunks"][j]
                if lab not in out_ind:
                    sl.append(slice(None))  # dropped/contracted: the function sees the whole axis
                else:
                    k = loc[lab] if len(c) > 1 else 0
                    sl.append(slice(*_extents(c)[k]))
            blocks.append(x[tuple(sl)])
        expected[bid] = fn.compute(blocks, bid)
    chunks = tuple(
        tuple(expected[tuple(j if d == ax else 0 for d in range(len(nblocks)))].shape[ax] for j in range(nblocks[ax]))
        for ax in range(len(nblocks))
    )
    return z, expected, chunks, xs


def _assemble(expected, chunks):
    shape = tuple(sum(c) for c in chunks)
    any_block = next(iter(expected.values()))
    full = np.zeros(shape, dtype=any_block.dtype)
    for bid, v in expected.items():
        sl = tuple(slice(*_extents(c)[j]) for c, j in zip(chunks, bid))
        full[sl] = v
    return full


def _apply_post(y, want, post, chunks_known=True):
    """post-processing of the dask array and of its NumPy value; `post` is a JSON list."""
    kind = post[0]
    if kind == "none":
        return y, want
    if kind == "affine":
        return y * 2 + 1, want * 2 + 1
    if kind == "tail":  # slice away the first block along axis post[1]
        ax = post[1] % max(1, y.ndim)
        start = int(y.chunks[ax][0])
        sl = tuple(slice(start, None) if d == ax else slice(None) for d in range(y.ndim))
        return y[sl], want[sl]
    if kind == "lastblock":
        ax = post[1] % max(1, y.ndim)
        idx = tuple(slice(len(y.chunks[d]) - 1, None) if d == ax else slice(None) for d in range(y.ndim))
        start = int(sum(y.chunks[ax][:-1]))
        sl = tuple(slice(start, None) if d == ax else slice(None) for d in range(y.ndim))
        return y.blocks[idx], want[sl]
    if kind == "take":
        ax = post[1] % max(1, y.ndim)
        idx = [i % y.shape[ax] for i in post[2]]
        sl = tuple(idx if d == ax else slice(None) for d in range(y.ndim))
        return y[sl], want[sl]
    if kind == "rechunk":
        return y.rechunk(tuple(int(c) for c in post[1][: y.ndim]) or None), want
    if kind == "sum":
        return y.sum(axis=post[1] % max(1, y.ndim)), want.sum(axis=post[1] % max(1, y.ndim))
    raise ValueError(kind)


SELECTIONS = {"take": "shuffle-through-unaligned-blockwise", "tail": "slice-through-unaligned-blockwise", "lastblock": "slice-through-unaligned-blockwise"}


def mb_check(ctx, case):
    """Run one mbshape case; reports at most one failure.  Returns the number of blocks checked."""
    import dask

    pre = "multi-input-blockwise:"
    with warnings.catch_warnings():
        warnings.simplefilter("ignore")
        try:
            z, expected, chunks, xs = _mb_build(case)
        except NotImplementedError:
            ctx.notes["mbshape.refused"] = ctx.notes.get("mbshape.refused", 0) + 1
            return 0
        except Exception as e:  # noqa: BLE001
            ctx.fail(pre + "construction-raises", _c(case, outcome=repr(e)[:240]),
                     "map_blocks/blockwise(align_arrays=False) over inputs paired by block position raises at construction")
            return 0
        want_full = _assemble(expected, chunks)
        n = 0
        try:
            adv = tuple(tuple(int(v) for v in c) for c in z.chunks)
        except Exception as e:  # noqa: BLE001
            ctx.fail(pre + "chunks-raises", _c(case, outcome=repr(e)[:240]), ".chunks raises")
            return 0
        for stage in ("call", "post"):
            if stage == "call":
                y, want = z, want_full
            else:
                if case.get("post", ["none"])[0] == "none":
                    break
                try:
                    y, want = _apply_post(z, want_full, case["post"])
                except (IndexError, ValueError, NotImplementedError):
                    break
            for opt in (True, False):
                try:
                    fails, values = _blocks_of(y, opt)
                    got = None if fails else _result(y, values, opt)
                except Exception as e:  # noqa: BLE001
                    if stage == "call" and adv != chunks:
                        ctx.fail(pre + "advertised-chunks", _c(case, optimize=opt, advertised=str(adv), blocks_really=str(chunks), outcome=repr(e)[:200]),
                                 "advertised chunks are not the sizes of the blocks the (honest) block function produces; compute raises")
                    else:
                        sig = pre + "compute-raises"
                        if stage == "post" and case["post"][0] in SELECTIONS and (isinstance(e, KeyError) or "Shapes do not align" in str(e)):
                            # the honest block function is not elementwise; a selection pushed into the (differently
                            # sized) operands is the documented family `slice-through-generic-blockwise` (C01/C02);
                            # here it makes the graph unexecutable, which IS a C03 matter — own narrow signatures
                            sig = SELECTIONS[case["post"][0]] + ":raises"
                        ctx.fail(sig, _c(case, stage=stage, optimize=opt, outcome=repr(e)[:240]), "executing the graph raises")
                    return n
                n += len(values)
                if fails:
                    kind, bid, g, w = fails[0]
                    sig = pre + kind
                    if stage == "post" and case["post"][0] in SELECTIONS and kind != "block-dtype":
                        sig = SELECTIONS[case["post"][0]] + ":shape"  # selection pushed into operands paired by block position
                    ctx.fail(sig, _c(case, stage=stage, optimize=opt, block=list(bid), got=str(g), advertised=str(w), chunks=str(y.chunks), oracle_chunks=str(chunks)),
                             "a block of the materialized graph does not have the advertised shape/dtype")
                    return n
                if stage == "call" and adv != chunks:
                    ctx.fail(pre + "advertised-chunks", _c(case, optimize=opt, advertised=str(adv), blocks_really=str(chunks)),
                             "advertised chunks differ from the block structure of the first input with the most blocks")
                    return n
                if got.dtype != y.dtype:
                    ctx.fail(pre + "computed-dtype", _c(case, stage=stage, optimize=opt, advertised=str(y.dtype), computed=str(got.dtype)),
                             "computed result has a different dtype than advertised")
                    return n
                if got.shape != tuple(int(s) for s in y.shape) or got.shape != want.shape:
                    sig = pre + "computed-shape"
                    if stage == "post" and case["post"][0] in SELECTIONS:
                        sig = SELECTIONS[case["post"][0]] + ":shape"
                    ctx.fail(sig, _c(case, stage=stage, optimize=opt, advertised=str(y.shape), computed=str(got.shape), numpy=str(want.shape)),
                             "computed result has a different shape than advertised / than the brute-force value")
                    return n
                if stage == "post" and case["post"][0] in SELECTIONS:
                    # values under a selection above a NON-elementwise block function: C01/C02's business (known
                    # family slice-through-generic-blockwise); C03 checks shapes and dtypes of what is produced
                    continue
                if not np.array_equal(got, want.astype(got.dtype)):
                    ctx.fail(pre + "value", _c(case, stage=stage, optimize=opt, got=repr(got.tolist())[:160], want=repr(want.tolist())[:160]),
                             "values differ from the brute-force positional pairing of blocks")
                    return n
        return n


MB_CORPUS = [
    # the 1-d tie: same block count, different sizes; both argument orders; with and without block_id
    {"api": "map_blocks", "inputs": [{"chunks": [[2, 4, 6]], "dtype": "f8"}, {"chunks": [[1, 2, 3]], "dtype": "f8"}],
     "plan": [["lead", 0, 0, 1, 0]], "fdtype": "f8", "post": ["affine"]},
    {"api": "map_blocks", "inputs": [{"chunks": [[1, 2, 3]], "dtype": "i8"}, {"chunks": [[2, 4, 6]], "dtype": "i8"}],
     "plan": [["lead", 0, 0, 1, 0]], "fdtype": "i8", "post": ["tail", 0]},
    {"api": "map_blocks", "inputs": [{"chunks": [[2, 4, 6]], "dtype": "i8"}, {"chunks": [[1, 2, 3]], "dtype": "i8"}],
     "plan": [["lead", 0, 0, 1, 0]], "fdtype": "i8", "with_id": True, "post": ["none"]},
    # same extent, different cuts, under a slice / a take / .blocks (selections must not be pushed into operands paired by position)
    {"api": "map_blocks", "inputs": [{"chunks": [[1, 2]], "dtype": "i8"}, {"chunks": [[2, 1]], "dtype": "i8"}],
     "plan": [["lead", 0, 0, 1, 0]], "fdtype": "i8", "post": ["tail", 0]},
    {"api": "map_blocks", "inputs": [{"chunks": [[3, 4, 1]], "dtype": "i8"}, {"chunks": [[4, 3, 1]], "dtype": "i8"}],
     "plan": [["lead", 0, 0, 1, 0]], "fdtype": "i8", "post": ["tail", 0]},
    {"api": "map_blocks", "inputs": [{"chunks": [[3, 4, 1]], "dtype": "i8"}, {"chunks": [[4, 3, 1]], "dtype": "i8"}],
     "plan": [["lead", 0, 0, 1, 0]], "fdtype": "i8", "post": ["take", 0, [7, 0, 3, 3]]},
    {"api": "map_blocks", "inputs": [{"chunks": [[2, 4]], "dtype": "i8"}, {"chunks": [[1, 2]], "dtype": "i8"}],
     "plan": [["lead", 0, 0, 1, 0]], "fdtype": "i8", "post": ["take", 0, [5, 0]]},
    {"api": "blockwise", "out_ind": [0], "inputs": [{"chunks": [[1, 2, 2]], "dtype": "i8", "ind": [0]}, {"chunks": [[2, 2, 1]], "dtype": "i8", "ind": [0]}],
     "plan": [["lead", 0, 0, 1, 0]], "fdtype": "i8", "post": ["lastblock", 0]},
    # 2-d, same 2x2 grid, different sizes
    {"api": "map_blocks", "inputs": [{"chunks": [[2, 3], [3, 4]], "dtype": "i8"}, {"chunks": [[1, 3], [2, 2]], "dtype": "i8"}],
     "plan": [["lead", 0, 0, 1, 0], ["lead", 0, 1, 1, 0]], "fdtype": "i8", "post": ["rechunk", [2, 2]]},
    # three inputs, the leader of each axis is a different input (broadcasting single blocks)
    {"api": "map_blocks", "inputs": [{"chunks": [[1], [2, 1, 3]], "dtype": "i8"}, {"chunks": [[3, 1], [1, 1, 1]], "dtype": "i4"}, {"chunks": [[2, 2], [4]], "dtype": "f4"}],
     "plan": [["lead", 1, 0, 1, 0], ["lead", 0, 1, 1, 0]], "fdtype": None, "post": ["sum", 0]},
    # explicit chunks= (int and per-block sizes through block_id), tie underneath
    {"api": "map_blocks", "inputs": [{"chunks": [[2, 1, 2]], "dtype": "i8"}, {"chunks": [[1, 3, 1]], "dtype": "i8"}],
     "plan": [["byid", [3, 1, 2]]], "chunks": [[3, 1, 2]], "with_id": True, "fdtype": "i4", "post": ["tail", 0]},
    {"api": "map_blocks", "inputs": [{"chunks": [[2, 1, 2]], "dtype": "i8"}, {"chunks": [[1, 3, 1]], "dtype": "i8"}],
     "plan": [["const", 2]], "chunks": [2], "fdtype": "i4", "post": ["none"]},
    # drop_axis / new_axis over a tie
    {"api": "map_blocks", "inputs": [{"chunks": [[2, 3], [1, 2, 1]], "dtype": "i8"}, {"chunks": [[1, 1], [2, 2, 3]], "dtype": "i8"}],
     "plan": [["lead", 0, 1, 1, 0]], "drop_axis": [0], "fdtype": "i8", "post": ["none"]},
    {"api": "map_blocks", "inputs": [{"chunks": [[2, 3, 1]], "dtype": "i8"}, {"chunks": [[1, 1, 4]], "dtype": "i8"}],
     "plan": [["const", 1], ["lead", 0, 0, 1, 0]], "new_axis": [0], "fdtype": "i8", "post": ["none"]},
    # blockwise(align_arrays=False) directly, transposed second operand, adjust_chunks
    {"api": "blockwise", "out_ind": [1, 0], "inputs": [{"chunks": [[2, 3], [1, 2, 1]], "dtype": "i8", "ind": [1, 0]}, {"chunks": [[3, 1, 1], [1, 4]], "dtype": "i8", "ind": [0, 1]}],
     "plan": [["lead", 0, 0, 1, 0], ["lead", 0, 1, 1, 0]], "fdtype": "i8", "post": ["affine"]},
    {"api": "blockwise", "out_ind": [0], "inputs": [{"chunks": [[2, 3, 1]], "dtype": "i8", "ind": [0]}, {"chunks": [[1, 1, 2]], "dtype": "i8", "ind": [0]}],
     "plan": [["lead", 0, 0, 2, 0]], "adjust": {"0": "twice"}, "fdtype": "i8", "post": ["tail", 0]},
]


def mb_gen(rng):
    """A random mbshape case (JSON dict)."""
    api = "map_blocks" if rng.random() < 0.7 else "blockwise"
    nd = rng.choice([1, 1, 2, 2, 3])
    nin = rng.choice([2, 2, 2, 3])
    nbs = [rng.choice([1, 2, 3, 3, 4]) for _ in range(nd)]  # block count per label
    labels = list(range(nd))
    inputs = []
    first_full = {}
    for i in range(nin):
        if api == "map_blocks":
            r = nd if i == rng.randrange(nin) or rng.random() < 0.6 else rng.randint(1, nd)
            ind = list(range(r))[::-1]
        else:
            r = nd if rng.random() < 0.6 else rng.randint(1, nd)
            ind = rng.sample(labels, r)
        chunks = []
        for lab in ind:
            m = rng.random()
            prev = first_full.get(lab)
            if m < 0.72:
                if prev is not None and m < 0.25 and sum(prev) > len(prev):
                    # same extent, different cuts (still paired by block position)
                    T, k = sum(prev), len(prev)
                    cuts = sorted(rng.sample(range(1, T), k - 1))
                    c = [b - a for a, b in zip([0] + cuts, cuts + [T])]
                elif prev is not None and m < 0.33:
                    c = list(prev)
                else:
                    c = _chunks_k(rng, nbs[lab])
                first_full.setdefault(lab, c)
                chunks.append(c)
            else:
                chunks.append([rng.choice([1, 1, 2, 3])])
        inputs.append({"chunks": chunks, "dtype": rng.choice(["i8", "i8", "i4", "f8", "f4", "u1"]), "ind": ind})
    if api == "map_blocks":
        if not any(len(i["chunks"]) == nd for i in inputs):
            k = rng.randrange(nin)
            inputs[k]["ind"] = list(range(nd))[::-1]
            inputs[k]["chunks"] = [_chunks_k(rng, nbs[lab]) for lab in inputs[k]["ind"]]
    else:
        used = set(l for i in inputs for l in i["ind"])
        if used != set(labels):
            inputs[0]["ind"] = rng.sample(labels, nd)
            inputs[0]["chunks"] = [_chunks_k(rng, nbs[lab]) for lab in inputs[0]["ind"]]
    case = {"mbshape": True, "api": api, "inputs": inputs}
    if api == "map_blocks":
        for i in inputs:
            del i["ind"]
        r = rng.random()
        if r < 0.15 and nd >= 2:
            case["drop_axis"] = [rng.randrange(nd)] if rng.random() < 0.7 else [rng.randrange(-nd, 0)]
        elif r < 0.3 and nd <= 2:
            case["new_axis"] = [rng.randint(0, nd)]
    else:
        case["out_ind"] = rng.sample(labels, nd)
        if rng.random() < 0.2:
            lab = nd
            case["new_axes"] = {str(lab): rng.choice([1, 2, 3])}
            case["out_ind"].insert(rng.randint(0, nd), lab)
    inds, out_ind, new_labels, leader = _mb_spec(case)
    with_id = api == "map_blocks" and rng.random() < 0.4
    plan, spec, adjust = [], [], {}
    explicit = api == "map_blocks" and rng.random() < 0.45
    for ax, lab in enumerate(out_ind):
        if lab in new_labels:
            if api == "blockwise":
                plan.append(["const", int(case["new_axes"][str(lab)])])
            elif explicit:
                if with_id and rng.random() < 0.4:
                    sizes = _chunks_k(rng, rng.randint(1, 3), 1, 3)
                    plan.append(["byid", sizes])
                    spec.append(sizes)
                else:
                    c = rng.choice([1, 2, 3])
                    plan.append(["const", c])
                    spec.append(c)
            else:
                plan.append(["const", 1])
            continue
        nb, li, lax = leader[lab]
        lead_chunks = inputs[li]["chunks"][lax]
        m = rng.random()
        if api == "blockwise":
            if m < 0.2:
                plan.append(["lead", li, lax, 2, 0])
                adjust[str(lab)] = "twice"
            elif m < 0.3:
                plan.append(["lead", li, lax, 1, 1])
                adjust[str(lab)] = "plus1"
            elif m < 0.4:
                c = rng.choice([1, 2, 5])
                plan.append(["const", c])
                adjust[str(lab)] = c
            elif m < 0.5:
                plan.append(["lead", li, lax, 1, 2])
                adjust[str(lab)] = [c + 2 for c in lead_chunks]
            else:
                plan.append(["lead", li, lax, 1, 0])
        elif explicit:
            if m < 0.3:
                c = rng.choice([1, 2, 5])
                plan.append(["const", c])
                spec.append(c)
            elif m < 0.5 and with_id:
                sizes = _chunks_k(rng, nb)
                plan.append(["byid", sizes])
                spec.append(sizes)
            elif m < 0.7:
                mul, add = rng.choice([(2, 0), (1, 1), (3, 1)])
                plan.append(["lead", li, lax, mul, add])
                spec.append([mul * c + add for c in lead_chunks])
            else:
                plan.append(["lead", li, lax, 1, 0])
                spec.append(list(lead_chunks))
        else:
            plan.append(["lead", li, lax, 1, 0])
    case["plan"] = plan
    if explicit:
        case["chunks"] = spec
    if adjust:
        case["adjust"] = adjust
    case["with_id"] = with_id
    case["fdtype"] = rng.choice(["i8", "i8", "f8", "i4", "f4", None])
    if case["fdtype"] is not None and rng.random() < 0.15:
        case["pass_dtype"] = False  # dtype inferred from the function although it has a fixed result dtype
    nd_out = len(out_ind)
    post = rng.choice(["none", "affine", "tail", "tail", "lastblock", "rechunk", "sum", "take"])
    if nd_out == 0:
        post = "none"
    if post in ("tail", "lastblock", "sum"):
        case["post"] = [post, rng.randrange(nd_out)]
    elif post == "rechunk":
        case["post"] = [post, [rng.randint(1, 4) for _ in range(nd_out)]]
    elif post == "take":
        case["post"] = [post, rng.randrange(nd_out), [rng.randint(0, 30) for _ in range(rng.randint(1, 5))]]
    else:
        case["post"] = [post]
    return case


def mb_class(case):
    ins = case["inputs"]
    inds, out_ind, new_labels, leader = _mb_spec(case)
    tie = False
    for lab, (nb, li, lax) in leader.items():
        for i, (inp, ind) in enumerate(zip(ins, inds)):
            if i != li and lab in ind and len(inp["chunks"][ind.index(lab)]) == nb and inp["chunks"][ind.index(lab)] != ins[li]["chunks"][lax]:
                tie = True
    return ("mbshape", case["api"], len(ins), tie, case.get("chunks") is not None, bool(case.get("drop_axis")), case.get("new_axis") is not None,
            bool(case.get("adjust")), bool(case.get("new_axes")), bool(case.get("with_id")), case.get("fdtype") is None, case.get("post", ["none"])[0])


def run_mb(ctx):
    rng = ctx.rng
    n_tie = 0
    for c in MB_CORPUS:
        case = {"mbshape": True, **c}
        ctx.count(mb_class(case), max(1, mb_check(ctx, case)))
    N = ctx.scale(300, 4000)
    for i in range(N):
        case = mb_gen(rng)
        k = mb_class(case)
        n_tie += bool(k[3])
        ctx.count(k, max(1, mb_check(ctx, case)))
        if i < 2:
            ctx.sample(case)
    ctx.notes["mbshape.cases"] = N + len(MB_CORPUS)
    ctx.notes["mbshape.cases_with_equal_count_different_sizes"] = n_tie


# ====================================================================================== (B) xdtype

CUM = ("cumsum", "cumprod", "nancumsum", "nancumprod")
RED = ("sum", "prod", "mean", "var", "std", "nansum", "nanprod", "nanmean", "nanvar", "nanstd")
UF2 = ("add", "multiply", "subtract", "maximum", "true_divide", "floor_divide")
UF1 = ("negative", "sqrt", "square", "absolute", "exp")
DTS = ("f8", "f4", "i8", "i4", "i2", "u1")
ODS = ("f8", "f4", "i8", "i4", "i2", "u2", "c8")


def _honest_cast(b, dtype=None):
    return (np.asarray(b) * 2).astype(dtype)


def _sum_last(b):
    return np.asarray(b).sum(axis=-1)


def _cum_f4(v):
    return np.cumsum(v, dtype="f4")


def _xd_source(case):
    import dask_array as da

    shape = tuple(case["shape"])
    prodlike = "prod" in case.get("fn", "")
    a = _data(shape, case["dt"], mul=7, off=3, mod=2 if prodlike else 5, half=not prodlike,
              nan_at=case.get("nan_at") if "nan" in case.get("fn", "") else None)
    if prodlike:
        a = a + a.dtype.type(1)
    x = da.from_array(a, chunks=tuple(tuple(c) for c in case["chunks"]))
    return a, x


def _xd_build(case):
    """Returns (y, want) — the dask result and NumPy's result of the same call (None: no NumPy analogue);
    raises _NumpyRefuses when NumPy itself rejects the call."""
    import dask_array as da

    fam, fn = case["family"], case.get("fn")
    od = np.dtype(case["od"]) if case.get("od") is not None else None
    kw = dict(case.get("kw") or {})
    if "axis" in kw and isinstance(kw["axis"], list):
        kw["axis"] = tuple(kw["axis"])
    if fam == "creation":
        return _xd_creation(case, od)
    a, x = _xd_source(case)

    def both(f_np, f_da):
        try:
            with np.errstate(all="ignore"):
                want = f_np()
        except Exception as e:  # noqa: BLE001
            raise _NumpyRefuses(repr(e)[:100])
        return f_da(), want

    if fam == "cum" and fn.startswith("cumreduction"):  # the public generic entry point
        import operator

        method = kw.pop("method", "sequential")
        f_np, binop, ident, preop = (np.cumsum, operator.add, 0, np.sum) if fn.endswith("sum") else (np.cumprod, operator.mul, 1, np.prod)
        return both(lambda: f_np(a, dtype=od, **kw),
                    lambda: da.cumreduction(f_np, binop, ident, x, dtype=od, method=method, preop=preop, **kw))
    if fam == "cum":
        method = kw.pop("method", "sequential")
        return both(lambda: getattr(np, fn)(a, dtype=od, **kw), lambda: getattr(da, fn)(x, dtype=od, method=method, **kw))
    if fam == "cum-method":  # Array.cumsum / Array.cumprod
        method = kw.pop("method", "sequential")
        return both(lambda: getattr(a, fn)(dtype=od, **kw), lambda: getattr(x, fn)(dtype=od, method=method, **kw))
    if fam == "reduce":
        se = kw.pop("split_every", None)
        return both(lambda: getattr(np, fn)(a, dtype=od, **kw), lambda: getattr(da, fn)(x, dtype=od, split_every=se, **kw))
    if fam == "astype":
        return both(lambda: a.astype(od, **kw), lambda: x.astype(od, **kw))
    if fam == "ufunc2":
        b = _data(a.shape, case.get("dt2", case["dt"]), mul=5, off=1, mod=4, half=False) + np.dtype(case.get("dt2", case["dt"])).type(1)
        y2 = da.from_array(b, chunks=tuple(tuple(c) for c in case.get("chunks2", case["chunks"])))
        if case.get("scalar"):
            return both(lambda: getattr(np, fn)(a, 3, dtype=od), lambda: getattr(da, fn)(x, 3, dtype=od))
        return both(lambda: getattr(np, fn)(a, b, dtype=od), lambda: getattr(da, fn)(x, y2, dtype=od))
    if fam == "ufunc1":
        return both(lambda: getattr(np, fn)(a, dtype=od), lambda: getattr(da, fn)(x, dtype=od))
    if fam == "like":
        args = (7,) if fn == "full_like" else ()
        if fn == "empty_like":
            y = da.empty_like(x, dtype=od)
            return y, np.empty_like(a, dtype=od)
        return both(lambda: getattr(np, fn)(a, *args, dtype=od), lambda: getattr(da, fn)(x, *args, dtype=od))
    if fam == "asarray":
        if fn == "array":
            return both(lambda: np.array(a, dtype=od), lambda: da.array(x, dtype=od))
        return both(lambda: getattr(np, fn)(a, dtype=od), lambda: getattr(da, fn)(x, dtype=od))
    if fam == "einsum":
        b = _data(a.shape[::-1], case.get("dt2", case["dt"]), mul=5, off=1, mod=4, half=False)
        y2 = da.from_array(b, chunks=tuple(tuple(c) for c in case["chunks"])[::-1])
        sub = case["sub"]
        ops_np = (a, b) if "," in sub else (a,)
        ops_da = (x, y2) if "," in sub else (x,)
        return both(lambda: np.einsum(sub, *ops_np, dtype=od, casting="unsafe"), lambda: da.einsum(sub, *ops_da, dtype=od, casting="unsafe"))
    if fam == "trace":
        return both(lambda: np.trace(a, dtype=od, **kw), lambda: da.trace(x, dtype=od, **kw))
    if fam == "cov":
        return both(lambda: np.cov(a, dtype=od), lambda: da.cov(x, dtype=od))
    if fam == "mixed":  # no dtype=: the advertised dtype comes from promotion of differently typed operands
        b = _data(a.shape[::-1], case["dt2"], mul=5, off=1, mod=4, half=False)
        y2 = da.from_array(b, chunks=tuple(tuple(c) for c in case["chunks"])[::-1])
        if fn == "tensordot":
            return both(lambda: np.tensordot(a, b, axes=1), lambda: da.tensordot(x, y2, axes=1))
        if fn == "matmul":
            return both(lambda: a @ b, lambda: x @ y2)
        if fn == "dot":
            return both(lambda: np.dot(a, b), lambda: da.dot(x, y2))
        if fn == "where":
            return both(lambda: np.where(a > 2, a, b.T), lambda: da.where(x > 2, x, y2.T))
        if fn == "concatenate":
            return both(lambda: np.concatenate([a, b.T], axis=0), lambda: da.concatenate([x, y2.T], axis=0))
        if fn == "stack":
            return both(lambda: np.stack([a, b.T], axis=0), lambda: da.stack([x, y2.T], axis=0))
        if fn == "outer":
            return both(lambda: np.outer(a, b), lambda: da.outer(x, y2))
        if fn == "vdot":
            return both(lambda: np.vdot(a, b), lambda: da.vdot(x, y2))
        raise ValueError(fn)
    if fam == "map":
        if fn == "map_blocks":
            return both(lambda: _honest_cast(a, od), lambda: da.map_blocks(_honest_cast, x, od, dtype=od))
        if fn == "map_blocks_meta":
            return both(lambda: _honest_cast(a, od), lambda: da.map_blocks(_honest_cast, x, od, meta=np.empty((0,) * a.ndim, dtype=od)))
        if fn == "map_overlap":
            return both(lambda: _honest_cast(a, od), lambda: da.map_overlap(_Cast(od), x, depth=1, boundary="none", dtype=od, meta=np.empty((0,) * a.ndim, dtype=od)))
        if fn == "apply_gufunc":
            f = lambda v: np.asarray(v).sum(axis=-1).astype(od)  # noqa: E731
            xx = x.rechunk({x.ndim - 1: -1})
            return both(lambda: f(a), lambda: da.apply_gufunc(_GuSum(od), "(i)->()", xx, output_dtypes=od))
        if fn == "apply_along_axis":
            ax = kw.get("axis", 0)
            return both(lambda: np.apply_along_axis(_cum_f4, ax, a), lambda: da.apply_along_axis(_cum_f4, ax, x, dtype="f4", shape=(a.shape[ax],)))
        if fn == "reduction":
            return both(lambda: np.sum(a, axis=0, dtype=od),
                        lambda: da.reduction(x, _ChunkSum(od), _ChunkSum(od), axis=0, dtype=od, split_every=kw.get("split_every")))
        raise ValueError(fn)
    raise ValueError(fam)


class _Cast:
    def __init__(self, od):
        self.od = np.dtype(od)

    def __dask_tokenize__(self):
        return ("_Cast", str(self.od))

    def __call__(self, b):
        return (np.asarray(b) * 2).astype(self.od)


class _GuSum:
    def __init__(self, od):
        self.od = np.dtype(od)

    def __dask_tokenize__(self):
        return ("_GuSum", str(self.od))

    def __call__(self, v):
        return np.asarray(v).sum(axis=-1).astype(self.od)


class _ChunkSum:
    def __init__(self, od):
        self.od = np.dtype(od)

    def __dask_tokenize__(self):
        return ("_ChunkSum", str(self.od))

    def __call__(self, v, axis=None, keepdims=False):
        return np.sum(v, axis=axis, keepdims=keepdims, dtype=self.od)


class _NumpyRefuses(Exception):
    pass


def _xd_creation(case, od):
    import dask_array as da

    fn = case["fn"]
    ck = case["chunks"]
    n = case["shape"][0]
    try:
        if fn == "arange":
            st, sp, step = case["args"]
            return da.arange(st, sp, step, chunks=tuple(ck[0]), dtype=od), np.arange(st, sp, step, dtype=od)
        if fn == "linspace":
            st, sp = case["args"]
            return da.linspace(st, sp, n, chunks=tuple(ck[0]), dtype=od), np.linspace(st, sp, n, dtype=od)
        shape = tuple(case["shape"])
        chunks = tuple(tuple(c) for c in ck)
        if fn in ("ones", "zeros", "empty"):
            return getattr(da, fn)(shape, dtype=od, chunks=chunks), getattr(np, fn)(shape, dtype=od)
        if fn == "full":
            return da.full(shape, case["args"][0], dtype=od, chunks=chunks), np.full(shape, case["args"][0], dtype=od)
        if fn == "eye":
            c, M, k = case["args"]
            return da.eye(n, chunks=c, M=M, k=k, dtype=od), np.eye(n, M=M, k=k, dtype=od)
        if fn == "tri":
            c, M, k = case["args"]
            return da.tri(n, M=M, k=k, dtype=od, chunks=c), np.tri(n, M=M, k=k, dtype=od)
        if fn == "indices":
            return da.indices(shape, dtype=od, chunks=tuple(max(c) for c in ck)), np.indices(shape, dtype=od)
        if fn == "fromfunction":
            return da.fromfunction(_ff, chunks=chunks, shape=shape, dtype=od), np.fromfunction(_ff, shape, dtype=od)
        if fn == "random":
            import dask_array.random as dr

            rs = dr.default_rng(5)
            return rs.random(shape, dtype=od, chunks=chunks), np.empty(shape, dtype=od)
        if fn == "integers":
            import dask_array.random as dr

            rs = dr.default_rng(5)
            return rs.integers(0, 9, size=shape, dtype=od, chunks=chunks), np.empty(shape, dtype=od)
    except (TypeError, ValueError) as e:
        # NumPy's own refusal shows when evaluating the reference (right-hand side of the tuple) first is not
        # possible; find out which side raised
        try:
            _np_creation(case, od)
        except Exception:  # noqa: BLE001
            raise _NumpyRefuses(repr(e)[:100])
        raise
    raise ValueError(fn)


def _np_creation(case, od):
    fn = case["fn"]
    n = case["shape"][0]
    if fn == "arange":
        return np.arange(*case["args"], dtype=od)
    if fn == "linspace":
        return np.linspace(*case["args"], n, dtype=od)
    shape = tuple(case["shape"])
    if fn in ("ones", "zeros", "empty"):
        return getattr(np, fn)(shape, dtype=od)
    if fn == "full":
        return np.full(shape, case["args"][0], dtype=od)
    if fn == "eye":
        return np.eye(n, M=case["args"][1], k=case["args"][2], dtype=od)
    if fn == "tri":
        return np.tri(n, M=case["args"][1], k=case["args"][2], dtype=od)
    if fn == "indices":
        return np.indices(shape, dtype=od)
    if fn == "fromfunction":
        return np.fromfunction(_ff, shape, dtype=od)
    if fn == "random":
        return np.random.default_rng(5).random(shape, dtype=od)
    if fn == "integers":
        return np.random.default_rng(5).integers(0, 9, size=shape, dtype=od)


def _ff(*idx):
    out = idx[0]
    for k, i in enumerate(idx[1:]):
        out = out + (k + 2) * i
    return out


NO_VALUE = {"empty", "empty_like", "random", "integers"}


def xd_signature(case, kind, exc=None):
    fam = case["family"]
    if fam == "einsum" and kind in ("block-dtype", "computed-dtype") and "," not in case["sub"] and len(case["sub"].split("->")[1]) == len(case["sub"].split("->")[0]):
        return "einsum-relabel-ignores-dtype"  # da.einsum('ij->ji', x, dtype=…): advertised dtype=…, blocks keep x.dtype
    if fam == "creation" and case.get("fn") in ("fromfunction", "indices") and case.get("post", ["none"])[0] == "take" and (
            (kind == "compute-raises" and exc is not None and "Chunks do not add up to" in str(exc)) or kind in ("computed-shape", "block-shape")):
        return "take-through-broadcast"  # documented family (meshgrid = broadcast_to underneath)
    if fam in ("cum", "cum-method"):
        m = (case.get("kw") or {}).get("method", "sequential")
        if m == "blelloch" and kind in ("block-dtype", "computed-dtype"):
            return "blelloch-narrowing-dtype"
        return f"explicit-dtype:cum-{m}:{kind}"
    return f"explicit-dtype:{fam}:{kind}"


def xd_check(ctx, case):
    import dask

    with warnings.catch_warnings():
        warnings.simplefilter("ignore")
        try:
            z, want = _xd_build(case)
        except _NumpyRefuses:
            ctx.notes["xdtype.numpy_refuses"] = ctx.notes.get("xdtype.numpy_refuses", 0) + 1
            return 0
        except Exception as e:  # noqa: BLE001
            # dask refuses a call NumPy accepts: a refusal, not wrong data (noted, with examples)
            ctx.notes["xdtype.dask_refuses"] = ctx.notes.get("xdtype.dask_refuses", 0) + 1
            ex = ctx.extra.setdefault("xdtype_refusal_examples", {})
            key = f"{case['family']}:{case.get('fn')}:{type(e).__name__}"
            if key not in ex and len(ex) < 12:
                ex[key] = {"case": case, "error": repr(e)[:160]}
            return 0
        want = np.asarray(want)
        n = 0
        od = case.get("od")
        # advertised dtype vs NumPy's dtype of the same call.  C03 is about advertised vs PRODUCED; conformance of
        # the advertised dtype itself to NumPy is checked at the level C03 always used (dtype KIND); an exact
        # difference (small-int products promoted by the summing reduction, cov/einsum ignoring dtype=) is noted
        if case["family"] == "einsum":
            # np.einsum returns a VIEW of its operand (ignoring dtype=) for pure relabelings such as 'ij->ji' and dask sums
            # products in the promoted accumulator: NumPy's dtype is no oracle here; produced-vs-advertised is
            want = want.astype(z.dtype)
        if z.dtype.kind != want.dtype.kind and not (z.dtype.kind in "iu" and want.dtype.kind in "iu"):
            ctx.fail(xd_signature(case, "advertised-dtype-kind"), _c(case, advertised=str(z.dtype), numpy=str(want.dtype)),
                     "advertised dtype kind differs from the dtype NumPy returns for the same call")
            return 0
        if z.dtype != want.dtype:
            k = f"{case['family']}:{case.get('fn') or case.get('sub')}"
            d = ctx.extra.setdefault("xdtype_advertised_dtype_differs_from_numpy(noted, not C03)", {})
            if k not in d:
                d[k] = {"advertised": str(z.dtype), "numpy": str(want.dtype), "case": case}
            ctx.notes["xdtype.advertised_dtype_differs_from_numpy"] = ctx.notes.get("xdtype.advertised_dtype_differs_from_numpy", 0) + 1
        if tuple(int(s) for s in z.shape) != want.shape:
            ctx.fail(xd_signature(case, "advertised-shape"), _c(case, advertised=str(z.shape), numpy=str(want.shape)), "advertised shape differs from NumPy")
            return 0
        posts = [["none"]] + ([case["post"]] if case.get("post", ["none"])[0] != "none" else [])
        for post in posts:
            try:
                y, w = _apply_post(z, want, post)
            except (IndexError, ValueError, NotImplementedError, ZeroDivisionError):
                continue
            for opt in (True, False):
                try:
                    fails, values = _blocks_of(y, opt)
                    got = None if fails else _result(y, values, opt)
                except Exception as e:  # noqa: BLE001
                    ctx.fail(xd_signature(case, "compute-raises", e), _c(case, stage=post, optimize=opt, outcome=repr(e)[:240]), "executing the graph raises")
                    return n
                n += len(values)
                if fails:
                    kind, bid, g, wv = fails[0]
                    ctx.fail(xd_signature(case, kind), _c(case, stage=post, optimize=opt, block=list(bid), got=str(g), advertised=str(wv), chunks=str(y.chunks)),
                             "a block of the materialized graph does not have the advertised dtype/shape")
                    return n
                if got.dtype != y.dtype:
                    ctx.fail(xd_signature(case, "computed-dtype"), _c(case, stage=post, optimize=opt, advertised=str(y.dtype), computed=str(got.dtype)),
                             "computed result has a different dtype than advertised")
                    return n
                if got.shape != w.shape:
                    ctx.fail(xd_signature(case, "computed-shape"), _c(case, stage=post, optimize=opt, computed=str(got.shape), numpy=str(w.shape)),
                             "computed result has a different shape than NumPy")
                    return n
                if case.get("fn") in NO_VALUE or not case.get("values", True) or z.dtype != want.dtype:
                    continue
                with np.errstate(all="ignore"):
                    if w.dtype.kind in "fc":
                        tol = 2e-3 if w.dtype.itemsize // (2 if w.dtype.kind == "c" else 1) <= 4 else 1e-9
                        ok = np.allclose(got, w, rtol=tol, atol=tol, equal_nan=True)
                    else:
                        ok = np.array_equal(got, w)
                if not ok:
                    # VALUES are not C03's property (C01/C19 own them): noted with an example per class, never a failure here
                    k = f"{case['family']}:{case.get('fn') or case.get('sub')}:{(case.get('kw') or {}).get('method', '')}"
                    d = ctx.extra.setdefault("xdtype_values_differ_from_numpy(noted, not C03)", {})
                    if k not in d:
                        d[k] = {"case": case, "got": repr(got.tolist())[:120], "want": repr(w.tolist())[:120]}
                    ctx.notes["xdtype.values_differ_from_numpy"] = ctx.notes.get("xdtype.values_differ_from_numpy", 0) + 1
                    break
        return n


def _xd_layout(rng, nd=None, kmin=3):
    nd = nd or rng.choice([1, 2, 2, 2, 3])
    shape = [rng.randint(max(3, kmin), 9) if d == 0 else rng.randint(2, 6) for d in range(nd)]
    return shape


def _posts(rng, nd, axis):
    if nd == 0:
        return ["none"]
    ax = axis if isinstance(axis, int) else rng.randrange(nd)
    p = rng.choice(["tail", "tail", "lastblock", "take", "rechunk", "none"])
    if p in ("tail", "lastblock"):
        return [p, ax]
    if p == "take":
        return [p, ax, [rng.randint(0, 30) for _ in range(rng.randint(1, 5))]]
    if p == "rechunk":
        return [p, [rng.randint(1, 4) for _ in range(nd)]]
    return ["none"]


def xd_gen(rng):
    fam = rng.choice(["cum", "cum", "cum", "cum-method", "reduce", "reduce", "reduce", "astype", "ufunc2", "ufunc1", "like", "asarray",
                      "creation", "creation", "einsum", "trace", "cov", "mixed", "mixed", "map", "map"])
    dt = rng.choice(DTS)
    od = rng.choice(ODS)
    case = {"xdtype": True, "family": fam, "dt": dt, "od": od}
    nd = rng.choice([1, 2, 2, 2, 3])
    if fam in ("einsum", "trace", "cov", "mixed"):
        nd = 2
    shape = [rng.randint(3, 9) for _ in range(nd)]
    axis = rng.randrange(nd)
    # >= 3 blocks along the operated axis
    chunks = [(_chunks_min_blocks(rng, n, 3) if d == axis else _chunks_min_blocks(rng, n, rng.choice([1, 2, 3]))) for d, n in enumerate(shape)]
    case.update(shape=shape, chunks=chunks)
    if fam in ("cum", "cum-method"):
        fn = rng.choice(CUM + ("cumreduction-sum", "cumreduction-prod") if fam == "cum" else ("cumsum", "cumprod"))
        ax = axis if (fn.startswith("nan") or fam == "cum-method" or rng.random() < 0.85) else None
        if "prod" in fn:  # keep products exactly representable in every target dtype
            for d in range(nd):
                if d == axis and shape[d] > 7:
                    shape[d] = 7
                    chunks[d] = _chunks_min_blocks(rng, 7, 3)
            if ax is None:
                ax = axis
        case.update(fn=fn, kw={"axis": ax, "method": rng.choice(["sequential", "blelloch"])}, nan_at=rng.randint(0, 40))
        if dt[0] not in "f" and fn.startswith("nan"):
            case["nan_at"] = None
        case["post"] = _posts(rng, nd if ax is not None else 1, ax if ax is not None else 0)
        return case
    if fam == "reduce":
        fn = rng.choice(RED)
        ax = rng.choice([axis, axis, None, list(range(nd))[: rng.randint(1, nd)]])
        kw = {"axis": ax, "keepdims": rng.random() < 0.4, "split_every": rng.choice([None, 2, 2])}
        if fn in ("var", "std", "nanvar", "nanstd") and rng.random() < 0.3:
            kw["ddof"] = 1
        if fn.endswith(("var", "std")) and np.dtype(od).kind in "iu":
            # var/std with an INTEGER dtype= raise 'cannot convert float NaN to integer' at compute time (as in upstream dask;
            # the moment pipeline casts NaN-padded intermediates): a refusal, outside this stream
            case["od"] = od = rng.choice(["f4", "f8", "c8"])
        if "prod" in fn:
            case["shape"] = shape = [min(s, 5) for s in shape]
            case["chunks"] = chunks = [_chunks_min_blocks(rng, n, min(3, n)) for n in shape]
        case.update(fn=fn, kw=kw, nan_at=rng.randint(0, 40))
        # int accumulators of mean/var/std: NumPy's own rounding of intermediate results is not the property
        if np.dtype(od).kind in "iu" and fn.endswith(("mean", "var", "std")):
            case["values"] = False
        out_nd = nd if kw["keepdims"] else (0 if ax is None else nd - (1 if isinstance(ax, int) else len(ax)))
        case["post"] = _posts(rng, out_nd, None)
        return case
    if fam == "astype":
        case.update(fn="astype", kw=rng.choice([{}, {"casting": "unsafe"}, {"copy": False}]), post=_posts(rng, nd, axis))
        return case
    if fam == "ufunc2":
        case.update(fn=rng.choice(UF2), dt2=rng.choice(DTS), scalar=rng.random() < 0.3, post=_posts(rng, nd, axis))
        if rng.random() < 0.5:
            case["chunks2"] = [_chunks_min_blocks(rng, n, rng.choice([1, 2, 3])) for n in shape]
        return case
    if fam == "ufunc1":
        case.update(fn=rng.choice(UF1), post=_posts(rng, nd, axis))
        return case
    if fam == "like":
        case.update(fn=rng.choice(["ones_like", "zeros_like", "full_like", "empty_like"]), post=_posts(rng, nd, axis))
        return case
    if fam == "asarray":
        case.update(fn=rng.choice(["asarray", "asanyarray", "array"]), post=_posts(rng, nd, axis))
        return case
    if fam == "creation":
        fn = rng.choice(["arange", "linspace", "ones", "zeros", "full", "empty", "eye", "tri", "indices", "fromfunction", "random", "integers"])
        case["fn"] = fn
        del case["dt"]
        if fn == "arange":
            st, step = rng.randint(-3, 3), rng.choice([1, 2, 3])
            n = rng.randint(4, 10)
            case.update(args=[st, st + n * step, step], shape=[n], chunks=[_chunks_min_blocks(rng, n, 3)])
            if np.dtype(od).kind == "u":
                case["args"] = [abs(st), abs(st) + n * step, step]
            if np.dtype(od).kind == "c":
                case["od"] = "f4"
            nd = 1
        elif fn == "linspace":
            n = rng.randint(4, 10)
            case.update(args=[rng.randint(0, 3), rng.randint(4, 20)], shape=[n], chunks=[_chunks_min_blocks(rng, n, 3)])
            nd = 1
            if np.dtype(od).kind in "iu":
                case["values"] = False  # truncation of computed floats to an integer dtype: rounding of the last bit
        elif fn in ("eye", "tri"):
            n = rng.randint(4, 9)
            case.update(shape=[n, n], args=[rng.randint(1, 3), rng.choice([None, n + 2, n - 1]), rng.randint(-2, 2)], chunks=[[1], [1]])
            case["shape"] = [n, case["args"][1] or n]
            nd = 2
        elif fn == "full":
            case["args"] = [rng.randint(0, 9)]
        elif fn == "random":
            case["od"] = rng.choice(["f4", "f8"])
        elif fn == "integers":
            case["od"] = rng.choice(["i8", "i4", "i2", "u1", "u2"])
        case["post"] = _posts(rng, nd, 0)
        return case
    if fam == "einsum":
        case.update(sub=rng.choice(["ij,jk->ik", "ij,ji->i", "ij->j", "ij->i", "ij,ji->", "ij->ji"]), dt2=rng.choice(DTS))
        case["post"] = _posts(rng, 1, 0)
        return case
    if fam == "trace":
        case.update(fn="trace", kw={"offset": rng.choice([0, 1, -1])}, post=["none"])
        return case
    if fam == "cov":
        case.update(fn="cov", post=_posts(rng, 2, 0))
        if np.dtype(od).kind != "f":
            case["od"] = "f4"  # cov ignores dtype= (advertises result_type(m, float64)): noted as a NumPy difference, not C03
        return case
    if fam == "mixed":
        fn = rng.choice(["tensordot", "matmul", "dot", "where", "concatenate", "stack", "outer", "vdot"])
        case.update(fn=fn, dt2=rng.choice(DTS), od=None)
        if fn in ("outer", "vdot"):
            case["shape"] = [shape[0]]
            case["chunks"] = [_chunks_min_blocks(rng, shape[0], 3)]
        case["post"] = _posts(rng, 1, 0) if fn != "vdot" else ["none"]
        return case
    if fam == "map":
        fn = rng.choice(["map_blocks", "map_blocks_meta", "map_overlap", "apply_gufunc", "apply_along_axis", "reduction"])
        case.update(fn=fn, kw={"axis": axis, "split_every": rng.choice([None, 2])}, post=_posts(rng, 1, 0))
        if fn == "apply_along_axis":
            case["od"] = "f4"
        return case
    raise ValueError(fam)


def xd_corpus():
    """Deterministic core, run in every quick run whatever the seed: every cumulative function x both methods x
    narrowing / kind-changing / widening dtype= over 3 blocks, whole and with the first block sliced away."""
    out = []
    pairs = [("f8", "f4"), ("f8", "i8"), ("i8", "i2"), ("i4", "f8"), ("f4", "f8"), ("i8", "f4")]
    for fn in CUM:
        for method in ("sequential", "blelloch"):
            for k, (dt, od) in enumerate(pairs):
                for nd, axis in ((1, 0), (2, 0), (2, 1)):
                    if (k + nd + axis) % 2 and (dt, od) != ("f8", "f4"):
                        continue
                    shape = [7] if nd == 1 else ([7, 4] if axis == 0 else [3, 7])
                    chunks = [[3, 2, 2]] if nd == 1 else ([[3, 2, 2], [2, 2]] if axis == 0 else [[2, 1], [2, 3, 2]])
                    out.append({"xdtype": True, "family": "cum", "fn": fn, "dt": dt, "od": od, "shape": shape, "chunks": chunks,
                                "kw": {"axis": axis, "method": method}, "nan_at": 4 if dt[0] == "f" else None, "post": ["tail", axis]})
    for fn in ("sum", "prod", "mean", "nansum", "var"):
        for dt, od in (("f8", "f4"), ("i8", "i2"), ("i4", "f8")):
            if fn == "var" and od == "i2":
                continue
            out.append({"xdtype": True, "family": "reduce", "fn": fn, "dt": dt, "od": od, "shape": [5, 4], "chunks": [[2, 2, 1], [1, 2, 1]],
                        "kw": {"axis": 0, "keepdims": True, "split_every": 2}, "post": ["tail", 1], "values": not (od[0] in "iu" and fn in ("mean", "var"))})
    return out


def xd_class(case):
    kw = case.get("kw") or {}
    dt, od = case.get("dt"), case.get("od")
    rel = "none"
    if dt and od:
        a, b = np.dtype(dt), np.dtype(od)
        rel = "same" if a == b else ("widen" if np.result_type(a, b) == b else "narrow")
    return ("xdtype", case["family"], case.get("fn"), kw.get("method"), rel, case.get("post", ["none"])[0])


def run_xd(ctx):
    rng = ctx.rng
    core = xd_corpus()
    for case in core:
        ctx.count(xd_class(case), max(1, xd_check(ctx, case)))
    N = ctx.scale(420, 6000)
    for i in range(N):
        case = xd_gen(rng)
        ctx.count(xd_class(case), max(1, xd_check(ctx, case)))
        if i < 2:
            ctx.sample(case)
    ctx.notes["xdtype.cases"] = N + len(core)


# ====================================================================================== entry


def run(ctx):
    run_mb(ctx)
    run_xd(ctx)


def _strip(case):
    return {k: v for k, v in case.items() if k != "detail"}


def replay(ctx, case):
    case = _strip(case)
    if case.get("mbshape"):
        ctx.count(mb_class(case), max(1, mb_check(ctx, case)))
    else:
        ctx.count(xd_class(case), max(1, xd_check(ctx, case)))
