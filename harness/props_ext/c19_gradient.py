"""C19: `gradient` and `diff` compute what the NumPy definition computes, for every axis and chunking.

`da.gradient` (dask_array/routines/_gradient.py) is, per axis, a `map_overlap` with depth 1 and boundary 'none' over a
kernel that calls `np.gradient` on the EXTENDED block; for a coordinate-array spacing the kernel slices the coordinate
vector with `array_locs`, two arrays computed from the chunk sizes.  `da.diff` (routines/_diff.py) is n rounds of
`r[1:] - r[:-1]` after an optional concatenate with prepend / append.
Model: lean/DaskArrayModel/Model/Gradient.lean, Model/Diff.lean; driver family `grd.*` (Drv/Gradient.lean); theorems
Props/C19Gradient.lean (`C19g_coord_slice`, `C19g_gradient_eq_global`, `C19g_diff_n`, …).

(1) correspondence, the real code observed at the `np.gradient` call of every block (a recording `numpy.gradient` is in
    place while the lowered graph runs on the synchronous scheduler; nothing of the expression structure is read):
      `grd.coords`    the (start, stop) of the coordinate slice every block's call received (coordinates = positions);
      `grd.inputs`    the values and the coordinates every block's call received, `f` and the coordinate vector both
                      position-encoding, incl. coordinate vectors LONGER than the axis (the code does not check);
      `grd.guard`     which chunkings `gradient` refuses for edge_order 1 / 2;
      `grd.gradient`  the computed blocks (after the trim) against NumPy's formulas over ℚ, integer data and integer
                      non-uniform coordinates (results are recovered exactly as fractions with small denominators);
      `grd.diff`      `da.diff` on 1-d integer data, n = 0..4, prepend / append lists and scalars, negative n.
(2) search, oracle = NumPy: `da.gradient` with no / one scalar / per-axis scalar / coordinate-array / mixed spacing,
    edge_order 1 / 2, axis None / int / negative / tuple, 1-d..3-d, ragged chunkings (first chunk smaller or larger than
    the later ones, chunks AT the minimum `edge_order + 1`), int and float (dyadic) data, optionally followed by a slice
    of the result; `da.diff` n = 0..3, prepend / append scalars and arrays, every axis.  Case kinds "grad" / "gdiff"
    (replay: `check(ctx, case)`); one case in ten has a chunk BELOW the minimum on a differentiated axis: raising is a
    refusal, a returned value is compared all the same; signatures `gradient:<spacing kind>:<edge_order>:value|raises|meta`,
    `diff:<n>:<prepend/append kind>:value|raises|meta`.
"""
from __future__ import annotations

import contextlib
import warnings
from fractions import Fraction

import numpy as np

from harness.core import err_name, f_list, f_ll


# --------------------------------------------------------------------------- helpers

def ragged(rng, n, least, style=None):
    """a chunking of an axis of length n with every chunk >= least (n >= least)"""
    style = style or rng.choice(["single", "min", "small-first", "large-first", "mixed", "uniform"])
    if style == "single" or n < 2 * least:
        return (n,)
    if style == "uniform":
        c = rng.randint(least, max(least, n // 2))
        out = [c] * (n // c)
        if n % c:
            if n % c >= least:
                out.append(n % c)
            else:
                out[-1] += n % c
        return tuple(out)
    out, left = [], n
    first = True
    while left > 0:
        if style == "min":
            c = least
        elif style == "small-first":
            c = least if first else rng.randint(least + 1, least + 4)
        elif style == "large-first":
            c = rng.randint(least + 3, least + 6) if first else rng.randint(least, least + 1)
        else:
            c = rng.randint(least, least + 4)
        first = False
        c = min(c, left)
        if left - c < least and left - c > 0:
            c = left
        out.append(c)
        left -= c
    return tuple(out)


def nonuniform_coords(rng, n, dyadic=True):
    """strictly increasing coordinates with non-uniform spacing; dyadic steps keep NumPy's arithmetic exact-ish"""
    steps = [rng.choice([0.25, 0.5, 1.0, 2.0, 4.0] if dyadic else [1, 2, 3, 5]) for _ in range(n)]
    return np.cumsum(np.asarray(steps, dtype=float)) - steps[0]


@contextlib.contextmanager
def recording_gradient(log):
    """replace numpy.gradient by a recorder for the duration (the kernel looks `np.gradient` up at call time)"""
    orig = np.gradient

    def rec(f, *varargs, **kw):
        try:
            fa = np.asarray(f)
            if fa.size:
                log.append((fa.copy(), tuple(np.array(v, copy=True) for v in varargs), dict(kw)))
        except Exception:
            pass
        return orig(f, *varargs, **kw)

    np.gradient = rec
    try:
        yield
    finally:
        np.gradient = orig


def raw_blocks(arr):
    """computed blocks (nested lists) of exactly this expression: lower_completely + synchronous get, no simplify"""
    import dask
    from dask._expr import Expr

    with warnings.catch_warnings():
        warnings.simplefilter("ignore")
        low = arr.expr.lower_completely()
        dsk = Expr.__dask_graph__(low)
        return dask.get(dsk, low.__dask_keys__())


def frac_tok(v):
    fr = Fraction(float(v)).limit_denominator(10**6)
    return f"{fr.numerator}/{fr.denominator}"


# --------------------------------------------------------------------------- (1) correspondence

def observed_calls(da, n, chunks, ncoords, eo):
    """the (values, coords) every block's np.gradient call received for f = arange(n), coord = arange(ncoords)"""
    log = []
    x = da.from_array(np.arange(n, dtype=float), chunks=(tuple(chunks),))
    co = np.arange(ncoords, dtype=float)
    err = None
    with recording_gradient(log):
        try:
            r = da.gradient(x, co, axis=0, edge_order=eo)
            raw_blocks(r)
        except Exception as e:  # a block whose call raised: the calls before it are in the log
            err = e
    calls = {}
    for fa, va, _kw in log:
        if fa.ndim != 1 or not va:
            continue
        key = int(fa[0])
        calls[key] = (fa, np.atleast_1d(va[0]))
    return [calls[k] for k in sorted(calls)], err


def correspond(ctx):
    import dask_array as da

    rng = ctx.rng
    P = {k: [] for k in ("grd.coords", "grd.inputs", "grd.guard", "grd.gradient", "grd.diff")}
    info = {}

    # ---- guard
    for _ in range(ctx.scale(60, 300)):
        eo = rng.choice([1, 2])
        cs = [rng.choice([1, 2, 2, 3, 3, 4, 5]) for _ in range(rng.randint(1, 5))]
        x = da.ones(sum(cs), chunks=(tuple(cs),))
        try:
            da.gradient(x, edge_order=eo)
            impl = "ok"
        except Exception as e:
            impl = err_name(e)
        P["grd.guard"].append((f"grd.guard {eo} {f_list(cs)}", impl))

    # ---- coordinate slices / block inputs, observed at the np.gradient call
    fixed = [(3, 5, 4), (2, 2), (2, 3, 2, 5), (7,), (5, 2, 2), (2, 6, 2), (4, 4, 4), (3, 3, 3, 3, 3)]
    nrand = ctx.scale(70, 500)
    for i in range(len(fixed) + nrand):
        eo = rng.choice([1, 2]) if i >= len(fixed) else 1 + (i % 2)
        if i < len(fixed):
            cs = fixed[i]
            if min(cs) < eo + 1:
                eo = 1
        else:
            cs = ragged(rng, rng.randint(eo + 1, 26), eo + 1)
        n = sum(cs)
        extra = 0 if (i < len(fixed) or rng.random() < 0.8) else rng.randint(1, 3)
        calls, err = observed_calls(da, n, cs, n + extra, eo)
        if len(calls) != len(cs):
            # a block's call never happened (it raised before np.gradient): nothing comparable at this level;
            # the end-to-end search decides
            info["blocks-missing"] = info.get("blocks-missing", 0) + 1
            continue
        vals = [[int(v) for v in fa] for fa, _ in calls]
        cos = [[int(v) for v in ca] for _, ca in calls]
        P["grd.inputs"].append((f"grd.inputs {f_list(cs)} {n + extra}", f"ok {f_ll(vals)} {f_ll(cos)}"))
        if extra == 0 and all(len(c) for c in cos):
            P["grd.coords"].append((f"grd.coords {f_list(cs)}", "ok " + f_ll([[c[0], c[-1] + 1] for c in cos])))
        ctx.count(("grd.inputs", len(cs), min(cs) == eo + 1, cs[0] < max(cs), extra > 0))

    # ---- values over Q
    for _ in range(ctx.scale(60, 400)):
        eo = rng.choice([1, 2])
        cs = ragged(rng, rng.randint(eo + 1, 18), eo + 1)
        n = sum(cs)
        f = [rng.randint(-6, 6) for _ in range(n)]
        steps = [rng.choice([1, 1, 2, 3, 4]) for _ in range(n)]
        co = list(np.cumsum(steps) - steps[0] + rng.randint(-3, 3))
        x = da.from_array(np.asarray(f, dtype=rng.choice(["i8", "f8", "i4"])), chunks=(tuple(cs),))
        try:
            blocks = raw_blocks(da.gradient(x, np.asarray(co, dtype=float), axis=0, edge_order=eo))
            impl = "ok " + ";".join(",".join(frac_tok(v) for v in b) for b in blocks)
        except Exception as e:
            impl = err_name(e)
        P["grd.gradient"].append((f"grd.gradient {eo} {f_list(cs)} {f_list(f)} {f_list(co)}", impl))

    # ---- diff, 1-d
    for _ in range(ctx.scale(150, 1000)):
        n = rng.choice([0, 1, 1, 2, 2, 3, 4, -1])
        ln = rng.randint(1, 9)
        xs = [rng.randint(-9, 9) for _ in range(ln)]
        cs = ragged(rng, ln, 1, "mixed")

        def side():
            k = rng.random()
            if k < 0.45:
                return None, None
            if k < 0.7:
                v = rng.randint(-9, 9)
                return v, [v]
            l = [rng.randint(-9, 9) for _ in range(rng.randint(1, 3))]
            return np.asarray(l), l

        pre, pre_l = side()
        app, app_l = side()
        x = da.from_array(np.asarray(xs, dtype="i8"), chunks=(cs,))
        try:
            with warnings.catch_warnings():
                warnings.simplefilter("ignore")
                r = da.diff(x, n=n, prepend=pre, append=app)
                impl = "ok " + f_list(np.asarray(r.compute()).tolist())
        except Exception as e:
            impl = err_name(e)
        tok = lambda l: "N" if l is None else f_list(l)
        P["grd.diff"].append((f"grd.diff {n} {f_list(xs)} {tok(pre_l)} {tok(app_l)}", impl))

    for fam, pairs in P.items():
        nd = ctx.correspond(fam, pairs)
        info[fam] = {"cases": len(pairs), "disagreements": nd}
    return info


# --------------------------------------------------------------------------- (2) search

def build(case):
    rs = np.random.RandomState(case["dseed"])
    shape = tuple(case["shape"])
    if case["dtype"] == "int":
        x = rs.randint(-8, 9, size=shape).astype("i8")
    elif case["dtype"] == "f4":
        x = (rs.randint(-64, 65, size=shape) / 8.0).astype("f4")
    else:
        x = rs.randint(-64, 65, size=shape) / 8.0
    return x


def spacing_args(case):
    out = []
    for s in case.get("spacing", []):
        if isinstance(s, dict):
            out.append(np.asarray(s["coords"], dtype=float))
        else:
            out.append(s)
    return out


def check_grad(ctx, case):
    import dask_array as da

    x = build(case)
    sp = spacing_args(case)
    ax = case["axis"]
    if isinstance(ax, list):
        ax = tuple(ax)
    eo = case["edge_order"]
    sig = f"gradient:{case['skind']}:{eo}"
    try:
        want = np.gradient(x, *sp, axis=ax, edge_order=eo)
    except Exception:
        return True  # NumPy refuses: nothing to compare
    d = da.from_array(x, chunks=tuple(tuple(c) for c in case["chunks"]))
    sl = case.get("slice")
    # construction: `gradient` refuses chunks below `edge_order + 1` here (a refusal, not wrong data)
    try:
        with warnings.catch_warnings():
            warnings.simplefilter("ignore")
            r = da.gradient(d, *sp, axis=ax, edge_order=eo)
    except Exception as e:
        if case.get("guard_ok", True):
            ctx.fail(sig + ":raises", dict(case, error=repr(e)[:200]), "raises although every chunk has at least edge_order + 1 entries and NumPy computes a result")
            return False
        return True
    rl = r if isinstance(r, (list, tuple)) else [r]
    wl = want if isinstance(want, (list, tuple)) else [want]
    if len(rl) != len(wl):
        ctx.fail(sig + ":meta", case, f"{len(rl)} results where NumPy returns {len(wl)}")
        return False
    tol = 1e-9 if x.dtype != np.float32 else 1e-4
    # compute: the call was accepted, so the graph must compute what NumPy computes
    try:
        with warnings.catch_warnings():
            warnings.simplefilter("ignore")
            for a, w in zip(rl, wl):
                if sl is not None:
                    key = tuple(slice(*s) for s in sl)
                    a, w = a[key], w[key]
                if tuple(a.shape) != w.shape:
                    ctx.fail(sig + ":meta", dict(case, meta=f"declared shape {tuple(a.shape)} != {w.shape}"), "declared shape differs")
                    return False
                got = np.asarray(a.compute())
                if got.shape != w.shape or not np.allclose(got, w, rtol=tol, atol=tol, equal_nan=True):
                    ctx.fail(sig + ":value", case, "result differs from np.gradient")
                    return False
    except Exception as e:
        ctx.fail(sig + ":raises", dict(case, error=repr(e)[:200]), "gradient() accepted the call but computing the result raises; NumPy computes a result")
        return False
    return True


def check_diff(ctx, case):
    import dask_array as da

    x = build(case)
    ax = case["axis"]
    n = case["n"]
    kw, kwd = {}, {}
    kinds = []
    for name in ("prepend", "append"):
        v = case.get(name)
        if v is None:
            continue
        if isinstance(v, dict):
            arr = np.asarray(v["array"], dtype=x.dtype)
            kw[name] = arr
            kwd[name] = da.from_array(arr, chunks=tuple(tuple(c) for c in v["chunks"])) if v.get("chunks") else arr
            kinds.append(name + "-array")
        else:
            kw[name] = v
            kwd[name] = v
            kinds.append(name + "-scalar")
    sig = f"diff:{n}:{'+'.join(kinds) or 'plain'}"
    try:
        want = np.diff(x, n=n, axis=ax, **kw)
    except Exception:
        return True
    d = da.from_array(x, chunks=tuple(tuple(c) for c in case["chunks"]))
    try:
        with warnings.catch_warnings():
            warnings.simplefilter("ignore")
            r = da.diff(d, n=n, axis=ax, **kwd)
            if tuple(r.shape) != want.shape:
                ctx.fail(sig + ":meta", dict(case, meta=f"declared shape {tuple(r.shape)} != {want.shape}"), "declared shape differs")
                return False
            got = np.asarray(r.compute())
    except Exception as e:
        ctx.fail(sig + ":raises", dict(case, error=repr(e)[:200]), "raises where np.diff computes a result")
        return False
    ok = got.shape == want.shape and (np.array_equal(got, want) if x.dtype.kind == "i" else np.allclose(got, want, rtol=1e-12, atol=1e-12))
    if not ok:
        ctx.fail(sig + ":value", case, "result differs from np.diff")
        return False
    return True


def check(ctx, case):
    if case["kind"] == "grad":
        return check_grad(ctx, case)
    return check_diff(ctx, case)


def gen_grad(rng, k):
    eo = rng.choice([1, 2])
    least = eo + 1
    nd = rng.choice([1, 1, 2, 2, 3])
    shape = [rng.randint(least, 14 if nd < 3 else 8) for _ in range(nd)]
    chunks = [list(ragged(rng, s, least)) for s in shape]
    guard_ok = True
    axk = rng.choice(["none", "int", "neg", "tuple"]) if nd > 1 else rng.choice(["none", "int", "neg"])
    if axk == "none":
        axis, axes = None, list(range(nd))
    elif axk == "int":
        a = rng.randrange(nd)
        axis, axes = a, [a]
    elif axk == "neg":
        a = rng.randrange(nd)
        axis, axes = a - nd, [a]
    else:
        axes = rng.sample(range(nd), rng.randint(1, nd))
        axis = [a if rng.random() < 0.7 else a - nd for a in axes]
    if rng.random() < 0.12:  # an axis NOT differentiated may have any chunking, also size-1 chunks
        others = [a for a in range(nd) if a not in axes]
        if others:
            a = rng.choice(others)
            chunks[a] = [1] * shape[a]
    if rng.random() < 0.1:  # a differentiated axis with a chunk BELOW the minimum: a refusal is fine, a wrong value is not
        a = rng.choice(axes)
        small = rng.randint(1, eo)
        if shape[a] - small >= least:
            rest = list(ragged(rng, shape[a] - small, least))
            pos = rng.choice([0, len(rest), rng.randint(0, len(rest))])
            chunks[a] = rest[:pos] + [small] + rest[pos:]
            guard_ok = False
    skind = rng.choice(["default", "scalar", "scalars", "coords", "coords", "coords", "mixed"])
    if skind == "default":
        spacing = []
    elif skind == "scalar":
        spacing = [rng.choice([0.5, 2.0, 1, 4, 0.25])]
    elif skind == "scalars":
        spacing = [rng.choice([0.5, 2.0, 1, 4, 0.25]) for _ in axes]
    elif skind == "coords":
        spacing = [{"coords": nonuniform_coords(rng, shape[a], rng.random() < 0.8).tolist()} for a in axes]
    else:
        spacing = [({"coords": nonuniform_coords(rng, shape[a]).tolist()} if rng.random() < 0.5 else rng.choice([0.5, 2.0, 1])) for a in axes]
    case = {"kind": "grad", "shape": shape, "chunks": chunks, "axis": axis, "edge_order": eo, "skind": skind, "spacing": spacing,
            "dtype": rng.choice(["int", "float", "float", "f4"]), "dseed": k, "guard_ok": guard_ok}
    if rng.random() < 0.25:
        case["slice"] = []
        for s_ in shape:
            a = rng.randint(0, s_ - 1)
            b = s_ if rng.random() < 0.5 else rng.randint(a + 1, s_)
            case["slice"].append([a, b])
    return case


def gen_diff(rng, k):
    nd = rng.choice([1, 2, 2, 3])
    shape = [rng.randint(1, 9 if nd < 3 else 5) for _ in range(nd)]
    chunks = [list(ragged(rng, s, 1, rng.choice(["single", "min", "mixed", "uniform"]))) for s in shape]
    ax = rng.randrange(nd)
    axis = ax if rng.random() < 0.6 else ax - nd
    case = {"kind": "gdiff", "shape": shape, "chunks": chunks, "axis": axis, "n": rng.choice([0, 1, 1, 2, 2, 3]),
            "dtype": rng.choice(["int", "int", "float"]), "dseed": k}
    for name in ("prepend", "append"):
        u = rng.random()
        if u < 0.4:
            continue
        if u < 0.65:
            case[name] = rng.choice([0, -3, 5])
        else:
            sh = list(shape)
            sh[ax] = rng.randint(1, 3)
            rs = np.random.RandomState(k + (7 if name == "append" else 3))
            arr = rs.randint(-8, 9, size=sh)
            v = {"array": arr.tolist()}
            if rng.random() < 0.5:
                v["chunks"] = [list(ragged(rng, s, 1, rng.choice(["single", "min", "mixed"]))) for s in sh]
            case[name] = v
    return case


def search(ctx):
    rng = ctx.rng
    tally = {}
    fixed = [
        # ragged chunks, first chunk smaller / larger than the later ones, coordinate array
        {"kind": "grad", "shape": [12], "chunks": [[3, 5, 4]], "axis": 0, "edge_order": 2, "skind": "coords",
         "spacing": [{"coords": [0, 1, 2, 4, 5, 6, 8, 9, 10, 12, 13, 14]}], "dtype": "float", "dseed": 1},
        {"kind": "grad", "shape": [11], "chunks": [[5, 2, 2, 2]], "axis": -1, "edge_order": 1, "skind": "coords",
         "spacing": [{"coords": [0, 0.5, 1, 3, 3.5, 4, 8, 9, 9.25, 12, 16]}], "dtype": "int", "dseed": 2},
        {"kind": "grad", "shape": [6, 9], "chunks": [[3, 3], [3, 3, 3]], "axis": None, "edge_order": 2, "skind": "coords",
         "spacing": [{"coords": [0, 1, 3, 4, 8, 9]}, {"coords": [0, 2, 3, 5, 6, 8, 9, 11, 12]}], "dtype": "float", "dseed": 3},
        {"kind": "grad", "shape": [4, 10], "chunks": [[1, 1, 1, 1], [2, 4, 2, 2]], "axis": 1, "edge_order": 1, "skind": "coords",
         "spacing": [{"coords": [0, 1, 2, 4, 8, 9, 10, 12, 16, 17]}], "dtype": "float", "dseed": 4},
    ]
    n_g = ctx.scale(150, 1500)
    n_d = ctx.scale(150, 1500)
    seen = set()
    for i in range(len(fixed) + n_g):
        case = fixed[i] if i < len(fixed) else gen_grad(rng, 1000 + i)
        ok = check_grad(ctx, case)
        key = ("grad", case["skind"], case["edge_order"], len(case["shape"]), type(case["axis"]).__name__, "slice" in case,
               any(len(c) > 1 and c[0] != c[1] for c in case["chunks"]), any(min(c) == case["edge_order"] + 1 for c in case["chunks"]), case.get("guard_ok", True))
        ctx.count(key)
        tally[f"gradient:{case['skind']}:{case['edge_order']}"] = tally.get(f"gradient:{case['skind']}:{case['edge_order']}", 0) + 1
        if key not in seen:
            seen.add(key)
            ctx.sample(case)
        if not ok and len(ctx.failures) > 12:
            break
    for i in range(n_d):
        case = gen_diff(rng, 5000 + i)
        ok = check_diff(ctx, case)
        pk = tuple(("array" if isinstance(case.get(nm), dict) else "scalar") if case.get(nm) is not None else "-" for nm in ("prepend", "append"))
        ctx.count(("gdiff", case["n"], pk, len(case["shape"]), case["axis"] < 0))
        tally[f"diff:{case['n']}"] = tally.get(f"diff:{case['n']}", 0) + 1
        if not ok and len(ctx.failures) > 24:
            break
    return tally


def targeted(ctx, disagreements):
    """lift model/implementation disagreements of the gradient families to API level: the same chunking, edge_order 1 and 2,
    scalar and non-uniform coordinate spacing, 1-d and as the last axis of a 2-d array"""
    tried = 0
    seen = set()
    for d in disagreements:
        fam = d["family"]
        toks = d["request"].split()
        if fam == "grd.guard" or fam == "grd.gradient":
            eos, cs = [int(toks[1])], toks[2]
        elif fam in ("grd.coords", "grd.inputs"):
            eos, cs = [1, 2], toks[1]
        else:
            continue
        if cs == "_":
            continue
        cs = [int(v) for v in cs.split(",")]
        for eo in eos:
            if (eo, tuple(cs)) in seen or len(seen) > 40:
                continue
            seen.add((eo, tuple(cs)))
            n = sum(cs)
            co = np.cumsum([1, 2, 1, 4, 1, 1, 2, 8] * (n // 8 + 1))[:n].astype(float).tolist()
            gok = min(cs) >= eo + 1
            for shape, chunks, axis in (([n], [cs], 0), ([3, n], [[2, 1], cs], -1)):
                for skind, spacing in (("coords", [{"coords": co}]), ("scalar", [0.5])):
                    case = {"kind": "grad", "shape": shape, "chunks": chunks, "axis": axis, "edge_order": eo, "skind": skind,
                            "spacing": spacing, "dtype": "float", "dseed": 77, "guard_ok": gok, "targeted": fam}
                    tried += 1
                    ctx.count(("grad-targeted", fam, eo, skind, len(shape)))
                    check_grad(ctx, case)
    return tried


def run(ctx, replay=None):
    if replay is not None:
        return check(ctx, replay["case"] if "case" in replay else replay)
    n0 = len(ctx.disagreements)
    info = correspond(ctx)
    info["targeted"] = targeted(ctx, ctx.disagreements[n0:])
    tally = search(ctx)
    info["search"] = dict(sorted(tally.items()))
    ctx.extra["gradient"] = info
    ctx.assumptions.append(
        "gradient: the inputs of every block's np.gradient call are observed through a recording numpy.gradient while the lowered graph "
        "runs synchronously (position-encoding values and coordinates); values are compared with np.gradient within 1e-9 "
        "(dyadic data; NumPy itself switches between its uniform / non-uniform formulas per call); diff on integers exactly"
    )
