"""C01, extension "contraction" — `matmul` / `@`, `tensordot`, `dot`, `einsum`.

Model: lean/DaskArrayModel/Model/Contract.lean (header = Python <-> Lean table); theorems
Props/C01Contract.lean (`C01c_*`, `C03c_*`); driver family `ctr.*` (Drv/Contract.lean).

(1) Correspondence (`ctx.correspond("contract", …)`): for generated integer operands (rank 1-3, axis <= 7,
    uneven and MISMATCHED chunkings on the contracted index so that `unify_chunks_expr` rechunks, 0/1-length
    axes, random `split_every`) the REAL expression is lowered (`lower_completely`), the plan is read off the
    real nodes (blockwise product: `out_ind`, operand index tuples, aligned operand chunks, label chunks;
    reduction: `split_every`, number of `PartialReduce` layers) and every key of the raw graph is computed
    with `dask.get`:
       ctr.wf       the real plan satisfies the model's well-formedness (the hypothesis of the theorems)
       ctr.inds     index tuples built by `tensordot()` / `matmul()` (front-end loops)
       ctr.chunks   `.chunks` of the product and of the result
       ctr.deps     operand block read by every product task (`_compute_block_id`)
       ctr.prod     every block of the blockwise product           (value + shape)
       ctr.level    every block after the per-block sums and after each `PartialReduce(keepdims=True)` layer
       ctr.layer    the SET of inputs of every node of every layer
       ctr.out      every block of the result
       ctr.depth    number of layers
       ctr.den      the model's NumPy meaning vs `np.matmul` / `np.tensordot` / `np.dot` / `np.einsum`
    The layout `unify_chunks_expr` chooses for a label is taken from the implementation (C17's subject); `ctr.wf`
    checks what the theorems need of it (every operand axis has the label's chunks or is a broadcast `(1,)`,
    chunks sum to the shapes) and `ctr.align` the per-axis target rule of its last loop.
(2) Search on the public API with NumPy as oracle: `x @ y`, `da.matmul`, `da.tensordot`, `da.dot`,
    `da.einsum`, optimization on and off, composed with slices / transposes / rechunks of the operands
    and of the result, random `split_every`; exact integer equality, shape, dtype kind, `.chunks` sums.
    `ctx.fail` only when the real code differs from NumPy (or raises where NumPy computes).
(3) A disagreement of (1) is lifted to the API level (same operands, both optimize settings) before
    core.finish decides.
"""
from __future__ import annotations

import itertools
import warnings

import numpy as np

from harness import classify, gen

FAM = "contract"
LETTERS = "ijklmn"


# ------------------------------------------------------------------------------ formatting

def f_l(l):
    l = list(l)
    return "_" if not l else ",".join(str(int(v)) for v in l)


def f_ll(ll):
    ll = list(ll)
    return "-" if not ll else ";".join(f_l(l) for l in ll)


def f_arr(a):
    a = np.asarray(a)
    return f"{f_l(a.shape)}:{f_l(a.ravel().tolist())}"


def f_blocks(pairs):
    pairs = list(pairs)
    return "-" if not pairs else "|".join(f"{f_l(k)}={f_arr(v)}" for k, v in pairs)


# ------------------------------------------------------------------------------ cases

def data_of(spec):
    shape = tuple(spec["shape"])
    n = int(np.prod(shape)) if shape else 1
    a = (np.arange(n, dtype=np.int64) * spec["mul"] + spec["off"]) % spec["mod"] - spec.get("sub", 0)
    return a.reshape(shape)


def rand_dim(rng, edge):
    if rng.random() < edge:
        return rng.choice([0, 1, 1])
    return rng.randint(2, 7)


def operand(rng, shape, zeros=0.0):
    # no zero-width chunk on a length-1 axis: broadcasting such an axis is the known class
    # `broadcast-axis-zero-width-chunk` (chunk unification raises); views can still produce it
    return {
        "shape": [int(s) for s in shape],
        "chunks": [list(gen.rand_chunks(rng, n, zeros=0.0 if n == 1 else zeros)) for n in shape],
        "mul": rng.choice([1, 3, 7, 11]), "off": rng.randint(-9, 9), "mod": rng.choice([13, 29, 101]),
        "sub": rng.choice([0, 6, 50]),
    }


def make_pre(rng, target):
    """(base shape, view) such that the view of an array of the base shape has shape `target`"""
    nd = len(target)
    op = rng.choice(["T", "slice", "slice", "rechunk"])
    if op == "T" and nd >= 2:
        perm = list(range(nd))
        rng.shuffle(perm)
        base = [0] * nd
        for i, p in enumerate(perm):
            base[p] = target[i]
        return base, {"op": "T", "perm": perm}
    if op == "slice" and nd >= 1:
        base, idx = [], []
        for n in target:
            r = rng.random()
            if r < 0.3:
                base.append(n); idx.append([None, None, None])
            elif r < 0.6:
                lo, extra = rng.randint(0, 2), rng.randint(0, 2)
                base.append(n + lo + extra); idx.append([lo, lo + n, None])
            elif r < 0.8:
                base.append(n); idx.append([None, None, -1])
            else:
                st = rng.choice([2, -2])
                base.append(max(0, 2 * n - 1)); idx.append([None, None, st])
        return base, {"op": "slice", "idx": idx}
    return list(target), {"op": "rechunk", "seed": rng.randint(0, 1 << 30)}


def gen_case(rng, edge=0.15, zeros=0.08, views=0.0):
    """A contraction call as a JSON-able dict (replayable without the generator)."""
    kind = rng.choice(["matmul", "matmul", "tensordot", "tensordot", "dot", "einsum", "einsum"])
    K = rand_dim(rng, edge)
    case = {"ctr": True, "kind": kind, "split_every": rng.choice([None, None, 2, 2, 3, 4])}
    if kind == "matmul":
        na, nb = rng.choice([1, 2, 2, 3, 3]), rng.choice([1, 2, 2, 3, 3])
        n, m = rand_dim(rng, edge), rand_dim(rng, edge)
        batch = rng.randint(2, 4)
        mode = rng.choice(["equal", "equal", "a1", "b1"])  # batch axes: equal, or one side broadcast (length 1)
        sa = ([1 if mode == "a1" else batch] if na == 3 else []) + ([n] if na >= 2 else []) + [K]
        sb = ([1 if mode == "b1" else batch] if nb == 3 else []) + [K] + ([m] if nb >= 2 else [])
        shapes = [sa, sb]
        case["form"] = rng.choice(["@", "da.matmul"])
    elif kind == "dot":
        na, nb = rng.randint(1, 3), rng.randint(1, 3)
        sa = [rand_dim(rng, edge) for _ in range(na - 1)] + [K]
        sb = [rand_dim(rng, edge) for _ in range(nb)]
        sb[nb - 2 if nb >= 2 else 0] = K
        shapes = [sa, sb]
    elif kind == "tensordot":
        na, nb = rng.randint(1, 3), rng.randint(1, 3)
        c = rng.randint(0 if rng.random() < 0.15 else 1, min(na, nb, 2))
        la = rng.sample(range(na), c)
        ra = rng.sample(range(nb), c)
        sa = [rand_dim(rng, edge) for _ in range(na)]
        sb = [rand_dim(rng, edge) for _ in range(nb)]
        for l, r in zip(la, ra):
            sb[r] = sa[l]
        if rng.random() < 0.25 and c >= 1 and la == list(range(na - c, na)) and ra == list(range(c)):
            case["axes"] = c
        elif rng.random() < 0.25 and c >= 1:
            # negative spellings on both sides (negative LEFT axes were the defect `ctr:tensordot-negative-left-axes`,
            # repaired in /repo; `probe_known` keeps the minimal input as a regression probe)
            case["axes"] = [[l - na if rng.random() < 0.5 else l for l in la], [r - nb if rng.random() < 0.5 else r for r in ra]]
        elif c == 0:
            case["axes"] = 0
        else:
            case["axes"] = [la, ra]
        shapes = [sa, sb]
    else:
        nops = rng.choice([1, 2, 2, 2, 3])
        nlab = rng.randint(2, 4)
        labs = LETTERS[:nlab]
        dims = {l: rand_dim(rng, edge) for l in labs}
        subs = []
        for _ in range(nops):
            r = rng.randint(1, min(3, nlab))
            subs.append("".join(rng.sample(labs, r)))
        used = sorted(set("".join(subs)))
        keepn = rng.randint(0, max(0, len(used) - 1))
        outs = "".join(rng.sample(used, keepn))
        case["subs"] = ",".join(subs) + "->" + outs
        shapes = []
        for sub in subs:
            shape = [dims[l] for l in sub]
            if rng.random() < 0.12:  # a size-1 axis against a longer one (np.einsum broadcasts)
                shape[rng.randrange(len(shape))] = 1
            shapes.append(shape)
        if rng.random() < 0.3:
            case["split_kw"] = rng.choice([2, 3, 4])
    specs, pre = [], []
    for sh in shapes:
        if views and rng.random() < views:
            base, view = make_pre(rng, sh)
            specs.append(operand(rng, base, zeros))
            pre.append(view)
        else:
            specs.append(operand(rng, sh, zeros))
            pre.append(None)
    if kind == "einsum":
        case["ops"] = specs
    else:
        case["a"], case["b"] = specs
    if any(pre):
        case["pre"] = pre
    return case


PRE = ("T", "slice", "rechunk")


def rand_view(rng, shape):
    """a step applied to an operand or to the result: transpose / basic slice / rechunk"""
    nd = len(shape)
    op = rng.choice(PRE)
    if op == "T" and nd >= 2:
        perm = list(range(nd))
        rng.shuffle(perm)
        return {"op": "T", "perm": perm}
    if op == "slice" and nd >= 1:
        idx = []
        for n in shape:
            r = rng.random()
            if r < 0.3 or n == 0:
                idx.append([None, None, None])
            elif r < 0.4:
                idx.append(rng.randint(-n, n - 1))  # integer index (drops the axis)
            elif r < 0.7:
                lo = rng.randint(0, max(0, n - 1))
                hi = rng.randint(lo, n)
                idx.append([lo, hi, None])
            else:
                idx.append([None, None, rng.choice([-1, 2, -2])])
        return {"op": "slice", "idx": idx}
    return {"op": "rechunk", "seed": rng.randint(0, 1 << 30)}


def apply_view_np(x, st):
    if st["op"] == "T":
        return np.transpose(x, st["perm"])
    if st["op"] == "slice":
        return x[tuple(i if isinstance(i, int) else slice(*i) for i in st["idx"])]
    return x


def apply_view_da(x, st):
    import random

    if st["op"] == "T":
        return x.transpose(st["perm"])
    if st["op"] == "slice":
        return x[tuple(i if isinstance(i, int) else slice(*i) for i in st["idx"])]
    r = random.Random(st["seed"])
    return x.rechunk(tuple(gen.rand_chunks(r, n) for n in x.shape))


def operands_of(case):
    return case["ops"] if case["kind"] == "einsum" else [case["a"], case["b"]]


def np_call(case, arrs):
    k = case["kind"]
    if k == "matmul":
        return np.matmul(arrs[0], arrs[1])
    if k == "dot":
        return np.dot(arrs[0], arrs[1])
    if k == "tensordot":
        ax = case["axes"]
        return np.tensordot(arrs[0], arrs[1], axes=ax if isinstance(ax, int) else (tuple(ax[0]), tuple(ax[1])))
    return np.einsum(case["subs"], *arrs)


def da_call(case, arrs):
    import dask_array as da

    k = case["kind"]
    if k == "matmul":
        return (arrs[0] @ arrs[1]) if case.get("form", "@") == "@" else da.matmul(arrs[0], arrs[1])
    if k == "dot":
        return da.dot(arrs[0], arrs[1])
    if k == "tensordot":
        ax = case["axes"]
        return da.tensordot(arrs[0], arrs[1], axes=ax if isinstance(ax, int) else (tuple(ax[0]), tuple(ax[1])))
    kw = {"split_every": case["split_kw"]} if case.get("split_kw") else {}
    return da.einsum(case["subs"], *arrs, **kw)


def build(case):
    """(numpy value | exception, dask array | exception)"""
    import dask
    import dask_array as da

    specs = operands_of(case)
    nps = [data_of(s) for s in specs]
    pre = case.get("pre") or [None] * len(specs)
    post = case.get("post") or []
    try:
        with warnings.catch_warnings():
            warnings.simplefilter("ignore")
            vs = [apply_view_np(x, st) if st else x for x, st in zip(nps, pre)]
            want = np_call(case, vs)
            for st in post:
                want = apply_view_np(want, st)
            want = np.asarray(want)
    except Exception as e:  # noqa: BLE001 - NumPy refuses: nothing is required of the implementation
        want = e
    cfg = {"split_every": case["split_every"]} if case.get("split_every") else {}
    try:
        with warnings.catch_warnings():
            warnings.simplefilter("ignore")
            with dask.config.set(cfg):
                ds = [da.from_array(x, chunks=tuple(tuple(c) for c in s["chunks"])) for x, s in zip(nps, specs)]
                ds = [apply_view_da(x, st) if st else x for x, st in zip(ds, pre)]
                got = da_call(case, ds)
                for st in post:
                    got = apply_view_da(got, st)
                got.chunks  # noqa: B018 - chunk unification is lazy; force it inside the config block
    except Exception as e:  # noqa: BLE001
        got = e
    return want, got


def exc_sig(kind, e):
    """stable signature of an exception; the listed class `broadcast-axis-zero-width-chunk` keeps its signature"""
    if classify._zero_width_on_broadcast_axis(repr(e)):
        return "broadcast-axis-zero-width-chunk"
    return f"ctr:{kind}:raises:{type(e).__name__}"


def check_api(ctx, case, want=None, x=None):
    """The property on the real code: returns a failure (sig, what) or None."""
    import dask

    if want is None:
        want, x = build(case)
    if isinstance(want, Exception):
        ctx.notes["ctr.numpy_refuses"] = ctx.notes.get("ctr.numpy_refuses", 0) + 1
        return None
    kind = case["kind"]
    if isinstance(x, Exception):
        if isinstance(x, NotImplementedError):
            ctx.notes["ctr.declined_at_construction"] = ctx.notes.get("ctr.declined_at_construction", 0) + 1
            return None
        return (exc_sig(kind, x), f"construction raises {x!r}"[:300])
    if tuple(x.shape) != want.shape:
        return (f"ctr:{kind}:advertised-shape", f"x.shape {x.shape} vs NumPy {want.shape}")
    if tuple(sum(c) for c in x.chunks) != want.shape:
        return (f"ctr:{kind}:chunks-sum", f"x.chunks {x.chunks} vs shape {want.shape}")
    for opt in (True, False):
        try:
            with warnings.catch_warnings():
                warnings.simplefilter("ignore")
                with dask.config.set({"array.optimize-graph": opt}):
                    got = np.asarray(x.compute(scheduler="sync"))
        except Exception as e:  # noqa: BLE001
            return (exc_sig(kind, e), f"compute(optimize={opt}) raises {e!r}"[:300])
        if got.shape != want.shape or got.dtype.kind != want.dtype.kind or not np.array_equal(got, want):
            return (
                f"ctr:{kind}:differs-from-numpy",
                f"optimize={opt}: got shape {got.shape} {got.ravel()[:10].tolist()} want shape {want.shape} {want.ravel()[:10].tolist()}",
            )
    return None


# ------------------------------------------------------------------------------ known finding classes

SIG_NEG_LEFT = "ctr:tensordot-negative-left-axes"


def in_known_class(case):
    """`tensordot` with a negative LEFT axis: the chunk function `_tensordot` re-inserted the contracted axes with
    `ind.insert(a, None)`, which for a negative `a` counts from the end of the CONTRACTED result (wrong data unless
    rhs.ndim == 2 * number of contracted axes).  Found by this search on the original tree, repaired in /repo
    (left_axes normalised before the blockwise call); recorded as a `fixed` entry, so nothing is suppressed."""
    return case["kind"] == "tensordot" and isinstance(case.get("axes"), list) and any(l < 0 for l in case["axes"][0])


SIG_BCAST_SLICE = "ctr:slice-through-broadcast-operand"


def has_broadcast_label(case):
    """some index label is carried by an operand axis of length 1 AND by a longer one (NumPy broadcasts):
    matmul batch axes, einsum labels.  (shapes AFTER the operand views)"""
    specs = operands_of(case)
    pre = case.get("pre") or [None] * len(specs)
    shapes = [list(apply_view_np(np.empty(s["shape"], dtype=np.int8), st).shape) if st else list(s["shape"]) for s, st in zip(specs, pre)]
    if case["kind"] == "matmul":
        a, b = shapes
        if len(a) < 3 and len(b) < 3:
            return False
        ba, bb = a[:-2] if len(a) >= 2 else [], b[:-2] if len(b) >= 2 else []
        n = max(len(ba), len(bb))
        ba, bb = [1] * (n - len(ba)) + ba, [1] * (n - len(bb)) + bb
        return any((x == 1) != (y == 1) for x, y in zip(ba, bb))
    if case["kind"] == "einsum":
        dims = {}
        for sub, sh in zip(case["subs"].split("->")[0].split(","), shapes):
            for l, n in zip(sub, sh):
                dims.setdefault(l, set()).add(n)
        return any(1 in v and len(v) > 1 for v in dims.values())
    return False


def in_bcast_slice_class(case):
    """a basic index applied to the RESULT of a contraction with a broadcast label: `Blockwise._accept_slice`
    pushed the output index into the length-1 operand axis (compute raised).  Found by this search, repaired in
    /repo (the pushdown declines when a sliced label is broadcast in some operand); recorded as `fixed`."""
    return any(st["op"] == "slice" for st in case.get("post") or []) and has_broadcast_label(case)


def probe_known(ctx):
    case2 = {"ctr": True, "kind": "matmul", "form": "@", "split_every": None,
             "a": {"shape": [2, 2, 2], "chunks": [[1, 1], [2], [1, 1]], "mul": 1, "off": 0, "mod": 101, "sub": 0},
             "b": {"shape": [1, 2, 2], "chunks": [[1], [1, 1], [2]], "mul": 1, "off": 0, "mod": 101, "sub": 0},
             "post": [{"op": "slice", "idx": [[1, 2, None], [None, None, None], [None, None, None]]}]}
    f = check_api(ctx, case2)
    ctx.count(("ctr", "probe", SIG_BCAST_SLICE))
    if f:
        ctx.fail(SIG_BCAST_SLICE, case2, "regression of a repaired defect: " + f[1])
    else:
        ctx.notes["ctr.probe." + SIG_BCAST_SLICE] = "passes (repaired)"
    # the same through einsum and with an integer index
    case3 = {"ctr": True, "kind": "einsum", "subs": "bij,bjk->bik", "split_every": None, "ops": [case2["a"], case2["b"]],
             "post": [{"op": "slice", "idx": [[1, 2, None], [None, None, None], [None, None, None]]}]}
    f = check_api(ctx, case3)
    if f:
        ctx.fail(SIG_BCAST_SLICE, case3, "regression of a repaired defect: " + f[1])
    case = {"ctr": True, "kind": "tensordot", "split_every": None, "axes": [[-1], [0]],
            "a": {"shape": [2, 3], "chunks": [[2], [3]], "mul": 1, "off": 0, "mod": 101, "sub": 0},
            "b": {"shape": [3], "chunks": [[3]], "mul": 1, "off": 0, "mod": 101, "sub": 0}}
    f = check_api(ctx, case)
    ctx.count(("ctr", "probe", SIG_NEG_LEFT))
    if f:
        ctx.fail(SIG_NEG_LEFT, case, "regression of a repaired defect: " + f[1])
    else:
        ctx.notes["ctr.probe." + SIG_NEG_LEFT] = "passes (repaired)"


# ------------------------------------------------------------------------------ reading the real plan

def raw_graph(e):
    dsk = {}
    for n in e.walk():
        dsk.update(n._layer())
    return dsk


def read_plan(x):
    """Walk the lowered expression of a contraction: returns a dict or None when the tree does not have
    the expected form (counted as outside; the API search still covers the case)."""
    from dask_array._blockwise import Blockwise
    from dask_array._expr import unify_chunks_expr
    from dask_array.reductions._reduction import PartialReduce

    e = x.expr.lower_completely()
    top = e
    squeezes = []
    while type(top).__name__ == "Squeeze":
        squeezes.append(top)
        top = top.array
    if type(top) is Blockwise and squeezes and top.adjust_chunks:
        # matmul's `_sum_wo_cat` shortcut: `squeeze(product, axis)` IS the reduction step of the plan
        sq = squeezes.pop()
        if tuple(sq.axis) != tuple(i for i, l in enumerate(top.out_ind) if l in top.adjust_chunks):
            return None
        plan_top = sq
    else:
        plan_top = top
    prs = []
    n = top
    while isinstance(n, PartialReduce):
        prs.append(n)
        n = n.array
    chunkbw = None
    if prs:
        if type(n) is not Blockwise or len(n.args) != 2:
            return None
        chunkbw = n
        n = n.args[0]
    if type(n) is not Blockwise or n.concatenate:
        return None
    fname = getattr(n.func, "__name__", "")
    if fname not in ("_tensordot", "_matmul", "chunk_einsum"):
        return None
    p = n
    pairs = [(p.args[i], p.args[i + 1]) for i in range(0, len(p.args), 2)]
    if any(ind is None or not hasattr(arr, "chunks") for arr, ind in pairs):
        return None
    out_ind = list(p.out_ind)
    if len(set(out_ind)) != len(out_ind):
        return None
    chunkss, _, changed = unify_chunks_expr(*p.args)
    if changed:
        return None
    adj = set((p.adjust_chunks or {}).keys())
    if prs:
        sp = prs[0].split_every
        if any(q.split_every != sp for q in prs):
            return None
        split = [int(sp.get(i, 0)) for i in range(len(out_ind))]
        if {out_ind[i] for i, s in enumerate(split) if s} != adj:
            return None
    else:
        split = [2 if l in adj else 0 for l in out_ind]
    return {
        "e": e, "top": plan_top, "squeezes": [tuple(q.axis) for q in squeezes], "prs": prs, "chunkbw": chunkbw, "p": p, "pairs": pairs,
        "out_ind": out_ind, "full": [list(chunkss[l]) for l in out_ind], "split": split,
        "depth": max(1, len(prs)), "direct": (not prs) and bool(adj),
    }


def plan_token(R, opvals):
    ops = []
    for (arr, ind), v in zip(R["pairs"], opvals):
        pos = [R["out_ind"].index(l) for l in ind]
        ops.append(f"{f_l(pos)}~{f_l(v.shape)}~{f_ll(arr.chunks)}~{f_l(v.ravel().tolist())}")
    return f"{f_ll(R['full'])}/{f_l(R['split'])}/{R['depth']}/{1 if R['direct'] else 0}/" + "|".join(ops)


def grid(nb):
    return list(itertools.product(*[range(n) for n in nb]))


def flat_keys(g):
    out = []

    def walk(v):
        if isinstance(v, list):
            for w in v:
                walk(w)
        else:
            out.append(tuple(v[1:]))

    walk(g)
    return out


def corr_requests(ctx, case, want, x):
    """[(request, impl_output)] for one case whose API call succeeded."""
    import dask
    from dask_array._new_collection import new_collection

    def note(k):
        ctx.notes["ctr." + k] = ctx.notes.get("ctr." + k, 0) + 1

    with warnings.catch_warnings():
        warnings.simplefilter("ignore")
        R = read_plan(x)
    if R is None:
        note("outside_expected_tree")
        return []
    note("plans")
    if len(R["prs"]) >= 2:
        note("plans_depth_ge_2")
    if R["direct"]:
        note("plans_direct_squeeze")
    if sum(1 for v in R["split"] if v) >= 2:
        note("plans_several_contracted_axes")
    if any(arr.shape[t] == 1 and len(R["full"][R["out_ind"].index(l)]) > 1 for arr, ind in R["pairs"] for t, l in enumerate(ind)):
        note("plans_with_broadcast_axis")
    if any(0 in c for c in R["full"]):
        note("plans_with_zero_width_chunk")
    if any(sum(R["full"][i]) == 0 for i, v in enumerate(R["split"]) if v):
        note("plans_zero_length_contraction")
    specs0 = operands_of(case)
    if any(tuple(map(tuple, sp["chunks"])) != tuple(arr.chunks) for sp, (arr, _) in zip(specs0, R["pairs"]) if len(sp["shape"]) == arr.ndim):
        note("plans_operands_rechunked_by_unification")
    if any(np.isnan(c) for cs in R["full"] for c in cs):
        return []
    p = R["p"]
    with warnings.catch_warnings():
        warnings.simplefilter("ignore")
        opvals = [np.asarray(new_collection(arr).compute(scheduler="sync")) for arr, _ in R["pairs"]]
    if any(v.ndim == 0 for v in opvals):
        return []
    tok = plan_token(R, opvals)
    dsk = raw_graph(R["e"])
    nbfull = [len(c) for c in R["full"]]
    wanted = [(R["p"]._name, *b) for b in grid(nbfull)]
    if R["prs"]:
        wanted += [(R["chunkbw"]._name, *b) for b in grid(nbfull)]
        for pr in R["prs"][1:]:
            wanted += [(pr._name, *b) for b in grid([len(c) for c in pr.chunks])]
    wanted += [(R["top"]._name, *b) for b in grid([len(c) for c in R["top"].chunks])]
    if len(wanted) > 400:
        ctx.notes["ctr.corr_too_many_blocks"] = ctx.notes.get("ctr.corr_too_many_blocks", 0) + 1
        return []
    with warnings.catch_warnings():
        warnings.simplefilter("ignore")
        values = dict(zip(wanted, dask.get(dsk, wanted)))

    def val(name, bid):
        return np.asarray(values[(name, *bid)])

    reqs = [(f"ctr.wf {tok}", "ok 1")]
    # --- NumPy meaning (independent of the implementation): the value before the final squeezes
    specs = operands_of(case)
    nps = [data_of(s) for s in specs]
    if case["kind"] == "matmul":
        a, b = nps
        a2 = a[np.newaxis, :] if a.ndim == 1 else a
        b2 = b[:, np.newaxis] if b.ndim == 1 else b
        ref = np.matmul(a2, b2)
    else:
        ref = np.asarray(want)
    reqs.append((f"ctr.den {tok}", "ok " + f_arr(ref)))
    # --- chunks
    reqs.append((f"ctr.chunks {tok}", f"ok {f_ll(p.chunks)}/{f_ll(R['top'].chunks)}"))
    # --- front-end index tuples
    if case["kind"] in ("tensordot", "dot"):
        na, nb = len(specs[0]["shape"]), len(specs[1]["shape"])
        if case["kind"] == "dot":
            req = f"ctr.inds dot {na} {nb}"
        elif isinstance(case["axes"], int):
            req = f"ctr.inds tensordot_int {na} {nb} {case['axes']}"
        else:
            req = f"ctr.inds tensordot {na} {nb} {f_l(case['axes'][0])} {f_l(case['axes'][1])}"
        axes = sorted(i for i, s in enumerate(R["split"]) if s)
        impl = f"ok a={f_l(R['pairs'][0][1])} b={f_l(R['pairs'][1][1])} out={f_l(R['out_ind'])} axes={f_l(axes)}"
        # (the driver prints the summed positions sorted: the reduction takes them as a set)
        reqs.append((req, impl))
    elif case["kind"] == "matmul":
        na, nb = len(specs[0]["shape"]), len(specs[1]["shape"])
        axes = [i for i, s in enumerate(R["split"]) if s]
        n = len(R["out_ind"]) - 1
        a1, b1 = int(na == 1), int(nb == 1)
        pa, pb = n - max(na, 2), n - max(nb, 2)
        impl = (f"ok a={f_l(R['pairs'][0][1])} b={f_l(R['pairs'][1][1])} out={f_l(R['out_ind'])} axes={f_l(axes)} "
                f"pad={pa},{pb} sq={a1},{b1}")
        reqs.append((f"ctr.inds matmul {na} {nb}", impl))
    # --- alignment of every operand axis (`unify_chunks_expr`'s last loop) and the oracle relation
    # (`unify_chunks_expr` returns early, without that loop, when all index tuples and all chunks coincide)
    inds0, ch0 = tuple(R["pairs"][0][1]), R["pairs"][0][0].chunks
    early = all(tuple(ind) == inds0 and arr.chunks == ch0 for arr, ind in R["pairs"])
    for (arr, ind), v in zip(R["pairs"], opvals):
        for t, l in enumerate(ind):
            lab = R["full"][R["out_ind"].index(l)]
            if not early:
                reqs.append((f"ctr.align {v.shape[t]} {f_l(lab)}", "ok " + f_l(arr.chunks[t])))
    # --- dependencies and values of the product
    play = p._layer()
    deps, prods = [], []
    for bid in grid(nbfull):
        t = play[(p._name, *bid)]
        refs = [tuple(a.key[1:]) for a in t.args if hasattr(a, "key")]
        deps.append(f"{f_l(bid)}={f_ll(refs)}")
        prods.append((bid, val(p._name, bid)))
    reqs.append((f"ctr.deps {tok}", "ok " + "|".join(deps)))
    reqs.append((f"ctr.prod {tok}", "ok " + f_blocks(prods)))
    # --- the reduction
    if R["prs"]:
        cb = R["chunkbw"]
        reqs.append((f"ctr.level {tok} 0", f"ok {f_l(nbfull)} " + f_blocks((b, val(cb._name, b)) for b in grid(nbfull))))
        chain = list(reversed(R["prs"]))  # bottom-up
        nb = nbfull
        for r, pr in enumerate(chain, 1):
            lay = pr._layer()
            last = r == len(chain)
            nb_after = [len(c) for c in (pr.chunks if not last else None) or []]
            if last:
                # keepdims=False: the key drops the reduced axes
                keep = [i for i, s in enumerate(R["split"]) if not s]
                nb_after = [-(-n // s) if s else n for n, s in zip(nb, R["split"])]
                for out in grid(nb_after):
                    key = (pr._name, *[out[i] for i in keep])
                    reqs.append((f"ctr.layer {f_l(nb)} {f_l(R['split'])} {f_l(out)}", "ok " + "|".join(f_l(k) for k in sorted(flat_keys(lay[key][1])))))
            else:
                for out in grid(nb_after):
                    reqs.append((f"ctr.layer {f_l(nb)} {f_l(R['split'])} {f_l(out)}", "ok " + "|".join(f_l(k) for k in sorted(flat_keys(lay[(pr._name, *out)][1])))))
                reqs.append((f"ctr.level {tok} {r}", f"ok {f_l(nb_after)} " + f_blocks((b, val(pr._name, b)) for b in grid(nb_after))))
            nb = nb_after
        reqs.append((f"ctr.depth {f_ll(R['full'])} {f_l(R['split'])}", f"ok {len(chain)}"))
    top = R["top"]
    nbout = [len(c) for c in top.chunks]
    reqs.append((f"ctr.out {tok}", "ok " + f_blocks((b, val(top._name, b)) for b in grid(nbout))))
    return reqs


# ------------------------------------------------------------------------------ entry points

def class_key(case, want):
    specs = operands_of(case)
    multi = any(len(c) > 1 for s in specs for c in s["chunks"])
    if not multi:
        return None
    ranks = tuple(len(s["shape"]) for s in specs)
    zero = any(0 in s["shape"] for s in specs)
    one = any(1 in s["shape"] for s in specs)
    views = tuple(sorted((st or {}).get("op", "-") for st in (case.get("pre") or []))) + tuple(st["op"] for st in case.get("post") or [])
    return ("ctr", case["kind"], ranks, zero, one, case.get("split_every"), views)


def fail_sig(case, f):
    """failures inside a listed class carry the class signature (known-findings matching)"""
    if f[0].startswith("ctr:") and in_bcast_slice_class(case) and ":raises:" in f[0]:
        return SIG_BCAST_SLICE
    return f[0]


def shrink(ctx, case, sig):
    """a few cheap reductions of a failing case that keep the same failure signature: drop the views, the fan-in,
    merge the chunks of one operand axis at a time"""
    import copy

    def still(c):
        f = check_api(ctx, c)
        return f is not None and fail_sig(c, f) == sig

    cur = copy.deepcopy(case)
    cands = []
    if cur.get("post"):
        cands.append(lambda c: c.pop("post"))
    if cur.get("pre"):
        cands.append(lambda c: c.pop("pre"))
    if cur.get("split_every"):
        cands.append(lambda c: c.__setitem__("split_every", None))
    if cur.get("split_kw"):
        cands.append(lambda c: c.pop("split_kw"))
    for k in range(len(operands_of(cur))):
        for t in range(len(operands_of(cur)[k]["shape"])):
            def merge(c, k=k, t=t):
                o = operands_of(c)[k]
                o["chunks"][t] = [o["shape"][t]]
            cands.append(merge)
    for fn in cands[:14]:
        trial = copy.deepcopy(cur)
        try:
            fn(trial)
            if trial != cur and still(trial):
                cur = trial
        except Exception:  # noqa: BLE001 - a reduction that does not apply
            pass
    return cur


def report(ctx, case, f):
    sig = fail_sig(case, f)
    small = shrink(ctx, case, sig) if sum(1 for x in ctx.failures if x["sig"] == sig) < 3 else case
    f2 = check_api(ctx, small) or f
    ctx.fail(sig, small, f2[1])


def replay(ctx, case):
    f = check_api(ctx, case)
    if f:
        ctx.fail(fail_sig(case, f), case, f[1])


def run(ctx, replay_case=None):
    if replay_case is not None:
        return replay(ctx, replay_case)
    rng = ctx.rng
    t0 = ctx.elapsed()
    ctx.assumptions.append(
        "contraction extension (ctr.*): which layout unify_chunks_expr picks for an index label (C17) and the extra "
        "rechunk einsum inserts are read from the implementation; the model covers the aligned plan on top of it"
    )
    probe_known(ctx)
    # ---- (1) correspondence on plain operands
    reqs, owners = [], []
    ncorr = ctx.scale(70, 500)
    for i in range(ncorr):
        case = gen_case(rng)
        want, x = build(case)
        ctx.count(class_key(case, want))
        f = check_api(ctx, case, want, x)
        if f:
            report(ctx, case, f)
            continue
        if isinstance(want, Exception) or isinstance(x, Exception):
            continue
        try:
            rs = corr_requests(ctx, case, want, x)
        except Exception as e:  # noqa: BLE001 - an unexpected graph layout is "outside", never an alarm
            ctx.notes["ctr.corr_skipped"] = ctx.notes.get("ctr.corr_skipped", 0) + 1
            ctx.notes.setdefault("ctr.corr_skipped_example", repr(e)[:200])
            continue
        for r in rs:
            reqs.append(r)
            owners.append(case)
        if i < 2:
            ctx.sample({"contraction_case": case})
    if reqs and ctx.driver.run(["ctr.align 1 1"]) == ["bad-op"]:
        ctx.notes["ctr_driver"] = "not available in this build"
        reqs = []
    if reqs:
        n0 = len(ctx.disagreements)
        ctx.correspond(FAM, reqs, branch_key=lambda req, model: (req.split()[0], model[:6]))
        # ---- (3) targeted search: lift disagreeing plans to the API
        lifted = set()
        by_req = {}
        for r, c in zip(reqs, owners):
            by_req.setdefault(r[0], c)
        for d in ctx.disagreements[n0:]:
            c = by_req.get(d["request"])
            if c is None:
                continue
            d["case"] = c
            if id(c) in lifted or len(lifted) >= 20:
                continue
            lifted.add(id(c))
            for se in (None, 2, 4):
                c2 = dict(c, split_every=se)
                f = check_api(ctx, c2)
                if f:
                    ctx.fail(f[0], c2, "contraction behind a model disagreement: " + f[1])
        if lifted:
            ctx.notes["ctr.targeted_search"] = (
                f"{len(lifted)} disagreeing plans re-run on the public API (3 fan-ins, optimize on/off) against NumPy"
            )
    # ---- (2) search with views of the operands and of the result
    nsearch = ctx.scale(220, 2500)
    for i in range(nsearch):
        case = gen_case(rng, edge=0.12, zeros=0.05, views=0.45)
        want, x = build(case)
        if not isinstance(want, Exception) and want.ndim >= 1 and rng.random() < 0.6:
            post = [rand_view(rng, list(want.shape))]
            if rng.random() < 0.3:
                post.append(rand_view(rng, list(apply_view_np(want, post[0]).shape)))
            # (result views on a broadcast label were the defect `ctr:slice-through-broadcast-operand`, repaired in
            # /repo; they stay in the random stream and `probe_known` keeps the minimal input as a regression probe)
            case["post"] = post
            want, x = build(case)
        ctx.count(class_key(case, want))
        f = check_api(ctx, case, want, x)
        if f:
            report(ctx, case, f)
        if i < 2:
            ctx.sample({"contraction_search_case": case})
    ctx.notes["ctr.seconds"] = round(ctx.elapsed() - t0, 1)
