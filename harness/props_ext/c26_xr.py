"""C26 values clause — xarray-level differential stream after register().

One case = one xarray program, fully described by a plain dict (sizes, chunk sizes, variable layout, operation,
data seed), run in a child interpreter (c26_xr_child.py) on NumPy-backed objects (oracle) and on chunked objects:
`registered` (dask_array-backed, after dask_array.xarray.register()) and `stock` (xarray's own dask manager, the
refusal baseline: a raise of the registered run is a failure only where the stock manager computes the program).

Families
  dsload    Dataset / DataArray / DataTree compute, load, load_async, persist, dask.compute, dask.persist on
            Datasets whose variables are fresh chunked arrays, NumPy arrays, ALIASES of an earlier variable (same
            lazy array under two names), the same expression built twice, derived expressions, chunked non-index
            coordinates, in permuted variable order, with per-variable chunking.
  mapblocks xr.map_blocks / .map_blocks over Datasets and DataArrays whose variables have permuted / subset dims,
            several (uneven) blocks per dim, unchunked variables, chunked coordinates; functions with several outputs,
            transposed outputs, new / reduced dims, extra xarray args; explicit and inferred templates.
  ufunc     apply_ufunc dask="allowed"/"parallelized": core dims, new core dims, several outputs, vectorize,
            exclude_dims, Datasets, operands with permuted dims.
  route     a catalogue of xarray operations over several objects with differently ordered dims and different
            chunking (binary ops, concat/merge/align/stack, reductions, ffill/bfill, groupby/resample/rolling/coarsen,
            indexing, creation, dt accessors, CF decoding, ArrayWriter store …).
  mutate    copies × in-place operations: a script over named objects (DataArray / Dataset / Variable / DataTree / the raw
            chunked array): copy kinds (copy() default / deep / shallow, copy.copy, copy.deepcopy alone and inside a
            container, pickle round trip, load / persist of a copy, deep copy of a shallow copy, the array-level copy
            protocol under copy(data=…)) × in-place operations on the copy or the original (item assignment through [],
            .loc, dict keys, the Variable, the wrapped array; boolean-mask assignment; ufunc out=; augmented assignments
            on the object / a Dataset item; replacing .data / .values; Dataset-level assignment, update, where-assign,
            coordinate assignment) × expressions captured before the mutation × a read of EVERY object (values,
            reductions, cumsum, rolling).  NumPy's shared-memory semantics of shallow copies, which no chunked array
            has, are told apart by the stock run: a difference from NumPy is excused only when xarray's stock dask
            manager yields exactly the same values.
  mgr       the registered manager's methods called directly (compute/persist with duplicated arguments, blockwise,
            map_blocks, reduction, scan, apply_gufunc, unify_chunks, rechunk, from_array, normalize_chunks, store,
            shuffle, array_api …).
  grid      operation × chunk count × NaN placement: every operation of the child's GRID table (ffill / bfill with limits
            relative to the chunk sizes, interpolate_na, cumulative ops, rolling / coarsen with windows wider than a chunk,
            idxmax / argmax dict forms, where / fillna / clip / combine_first, diff / shift / roll / every pad mode, reindex /
            sel with method, sortby, xr.dot, apply_ufunc with core dims, map_blocks, unify_chunks, chunk(dict / 'auto'),
            to_numpy / values / load / compute / persist, first / last through groupby and resample, and the manager's scan /
            reduction called directly with NON-commutative associative merges, sequential and Blelloch) along a dimension
            cut into exactly 1, 2, 4 and 7 chunks -- every operation with every chunk count in every run -- with NaNs at
            chunk starts / chunk ends / whole chunks / leading chunks of late blocks / dense / sparse / leading+trailing
            runs, next to operands with permuted dims and their own cut of the same dimension.
The manager's method list is read from the source (REPO/dask_array/_xarray.py); methods never entered during a run
are reported in the notes.
"""
from __future__ import annotations

import ast
import copy
import json
import re
import subprocess
import tempfile
from concurrent.futures import ThreadPoolExecutor
from pathlib import Path

from harness import core

PY = "/venv/bin/python"
CHILD = Path(__file__).with_name("c26_xr_child.py")

DSLOAD_METHODS = [
    "compute", "compute_sync", "load", "load_async", "persist", "persist_compute", "persist_twice", "dask_compute", "dask_compute_two",
    "dask_persist", "values", "dataarray_compute", "dataarray_load", "dataarray_persist", "datatree_compute",
    "datatree_load", "datatree_persist",
]
UNARY = ["mul2", "neg_add1", "T", "cumsum", "mean0", "isel"]
BINARY = ["lin", "sum_keep"]
MBFUNCS = ["affine", "identity", "first_da", "pairs", "transposed", "coord_mul", "reduce", "newdim", "with_args", "subset"]
MGR_SIMPLE = ["blockwise_perm", "blockwise_outer", "map_blocks", "map_blocks_two", "map_blocks_drop_axis", "map_blocks_new_axis",
              "apply_gufunc", "apply_gufunc_two", "apply_gufunc_axes", "apply_gufunc_multi", "unify_chunks", "store",
              "store_regions", "array_api", "chunks_is_chunked"]


def _table_names(table):
    src = CHILD.read_text()
    m = re.search(r"^%s = \{(.*?)^\}" % table, src, re.S | re.M)
    return re.findall(r'^    "(\w+)":', m.group(1), re.M)


def manager_methods():
    """Methods of DaskArrayExprManager, read from the tree under test."""
    f = Path(core.REPO) / "dask_array" / "_xarray.py"
    out = []
    for node in ast.parse(f.read_text()).body:
        if isinstance(node, ast.ClassDef) and node.name == "DaskArrayExprManager":
            for b in node.body:
                if isinstance(b, ast.FunctionDef) and not b.name.startswith("__"):
                    out.append(b.name)
    return out


# ------------------------------------------------------------------------------------ generators

def rchunk(rng, n, multi=False):
    """a chunk spec for a dim of length n: int, or an explicit (uneven) list"""
    r = rng.random()
    if n < 2 or (r < 0.12 and not multi):
        return n
    if r < 0.6:
        return rng.randint(1, max(1, n // 2))
    k = rng.randint(2, min(3, n))
    cuts = sorted(rng.sample(range(1, n), k - 1))
    return [b - a for a, b in zip([0] + cuts, cuts + [n])]


def nblocks(c, n):
    return len(c) if isinstance(c, list) else -(-n // c)


def rsizes(rng, z=0.3):
    s = {"x": rng.randint(4, 8), "y": rng.randint(4, 9)}
    if rng.random() < z:
        s["z"] = rng.randint(2, 4)
    return s


def rdims(rng, sizes, full=0.6):
    ds = list(sizes)
    k = len(ds) if rng.random() < full else rng.randint(1, len(ds))
    return rng.sample(ds, k)


def gen_dsload(rng, method):
    sizes = rsizes(rng)
    chunks = {d: rchunk(rng, n) for d, n in sizes.items()}
    vars_ = []
    names = []

    def add(spec):
        spec["name"] = f"v{len(vars_)}"
        vars_.append(spec)
        names.append(spec["name"])
        return spec["name"]

    def base(kind="base"):
        s = {"kind": kind, "dims": rdims(rng, sizes)}
        if kind == "base" and rng.random() < 0.2:
            s["chunks"] = {d: rchunk(rng, sizes[d]) for d in sizes}
        return add(s)

    def expr(of=None):
        of = of or rng.choice(names)
        if rng.random() < 0.5 and len(names) > 1:
            return add({"kind": "expr", "op": rng.choice(BINARY), "of": of, "other": rng.choice(names)})
        return add({"kind": "expr", "op": rng.choice(UNARY), "of": of})

    first = base()
    forced = rng.random() < 0.55
    if forced:
        # the same lazy array twice, FOLLOWED by other chunked variables
        r = rng.random()
        if r < 0.45:
            add({"kind": "alias", "of": first})
        elif r < 0.6:
            add({"kind": "alias_var", "of": first})
        else:
            e = expr(first)
            add({"kind": "same_expr", "of": e})
        base() if rng.random() < 0.6 else expr()
    for _ in range(rng.randint(0 if forced else 1, 3)):
        r = rng.random()
        exprs = [v["name"] for v in vars_ if v["kind"] == "expr"]
        if r < 0.3:
            base()
        elif r < 0.4:
            base("np")
        elif r < 0.6:
            add({"kind": "alias", "of": rng.choice(names)})
        elif r < 0.65:
            add({"kind": "alias_var", "of": rng.choice(names)})
        elif r < 0.8 and exprs:
            add({"kind": "same_expr", "of": rng.choice(exprs)})
        else:
            expr()
    for v in vars_[1:]:
        if rng.random() < 0.12:
            v["coord"] = True
    data = [v["name"] for v in vars_ if not v.get("coord")]
    case = {"fam": "dsload", "method": method, "sizes": sizes, "chunks": chunks, "vars": vars_, "data_seed": rng.randrange(10**6)}
    if rng.random() < 0.5:
        sel = list(data)
        rng.shuffle(sel)
        if rng.random() < 0.3 and len(sel) > 2:
            sel = sel[:-1]
        case["select"] = sel
    if method.startswith("dataarray_"):
        case["da_var"] = rng.choice(case.get("select") or data)
    if method.startswith("datatree_"):
        case["tree_cut"] = rng.randint(1, max(1, len(case.get("select") or data) - 1))
    return case


def dsload_class(case):
    """coverage key: does the same array occur twice, and is the repeat followed by another chunked variable"""
    kinds = [v["kind"] for v in case["vars"]]
    rep = [i for i, k in enumerate(kinds) if k in ("alias", "alias_var", "same_expr")]
    followed = bool(rep) and any(k in ("base", "expr") for k in kinds[rep[0] + 1:])
    return (case["method"], "repeat-followed" if followed else ("repeat-last" if rep else "distinct"),
            "np" in kinds, bool(case.get("select")), any(v.get("coord") for v in case["vars"]))


def gen_mapblocks(rng, func):
    sizes = rsizes(rng, z=0.35)
    chunks = {d: rchunk(rng, n, multi=rng.random() < 0.7) for d, n in sizes.items()}
    if rng.random() < 0.3:
        # a square grid of equal blocks: reading a transposed / wrong block goes unnoticed by shape checks
        sizes["y"] = sizes["x"]
        chunks["x"] = chunks["y"] = rng.randint(1, sizes["x"] // 2)
    order = list(sizes)
    vars_ = []

    def add(spec):
        spec["name"] = f"v{len(vars_)}"
        vars_.append(spec)

    add({"kind": "base", "dims": list(order)})
    perm = rng.random() < 0.6
    if perm:
        p = list(order)
        while p == order:
            rng.shuffle(p)
        add({"kind": "base", "dims": p})
    for _ in range(rng.randint(0 if perm else 1, 2)):
        r = rng.random()
        if r < 0.15:
            add({"kind": "np", "dims": rdims(rng, sizes)})
        elif r < 0.25:
            add({"kind": "alias", "of": rng.choice([v["name"] for v in vars_])})
        else:
            add({"kind": "base", "dims": rdims(rng, sizes, full=0.5)})
    if rng.random() < 0.3:
        add({"kind": "base" if rng.random() < 0.7 else "np", "dims": rdims(rng, sizes, full=0.7), "coord": True})
    case = {"fam": "mapblocks", "func": func, "sizes": sizes, "chunks": chunks, "vars": vars_,
            "template": rng.choice(["explicit", "none"]), "via": rng.choice(["function", "function", "method"]),
            "obj": "dataarray" if rng.random() < 0.25 else "dataset", "data_seed": rng.randrange(10**6)}
    if rng.random() < 0.3:
        sel = [v["name"] for v in vars_ if not v.get("coord")]
        rng.shuffle(sel)
        case["select"] = sel
    if case["obj"] == "dataarray":
        case["da_var"] = rng.choice([v["name"] for v in vars_ if not v.get("coord") and len(v.get("dims", order)) == len(order)])
    if func == "reduce":
        case["rdim"] = rng.choice(order)
        chunks[case["rdim"]] = sizes[case["rdim"]]       # dropping a multi-chunk dim is a documented refusal
    if func == "with_args":
        case["other_dims"] = rdims(rng, sizes, full=0.3)
        # xarray refuses an unchunked extra argument along a dim the object splits into several blocks
        case["other_chunked"] = rng.random() < 0.5 or any(nblocks(chunks[d], sizes[d]) > 1 for d in case["other_dims"])
    return case


def mapblocks_class(case):
    order = list(case["sizes"])
    perm = any(v.get("dims") and len(v["dims"]) == len(order) and v["dims"] != order and v["kind"] == "base" for v in case["vars"])
    multi = sum(nblocks(case["chunks"][d], n) > 1 for d, n in case["sizes"].items())
    return (case["func"], "perm" if perm else "ordered", min(multi, 2), case["template"], case["obj"], len(order))


def env_params(rng):
    sizes = {"x": rng.randint(4, 8), "y": rng.randint(5, 9)}
    return {"sizes": sizes, "chunks": {d: rchunk(rng, n, multi=True) for d, n in sizes.items()},
            "chunks_b": {d: rchunk(rng, n) for d, n in sizes.items()}, "nan": rng.randint(0, 2), "data_seed": rng.randrange(10**6)}


def gen_mgr(rng):
    out = []
    for m in MGR_SIMPLE:
        out.append(dict(env_params(rng), fam="mgr", method=m))
    for m in ("reduction", "reduction_keepdims", "scan", "scan_prod"):
        out.append(dict(env_params(rng), fam="mgr", method=m, axis=rng.randint(0, 1)))
    pool = ["A", "B", "V", "A2", "N"]
    for m in ("compute_dups", "compute_dups", "compute_dups", "persist_dups", "persist_dups"):
        pat = [rng.choice(pool) for _ in range(rng.randint(1, 4))]
        dup = rng.choice([p for p in pat if p != "N"] or ["A"])
        pat.insert(rng.randint(0, len(pat)), dup)
        if dup not in pat[:-1] or rng.random() < 0.7:
            pat.append(rng.choice(["B", "V", "A2"]))        # something else AFTER the repeat
        out.append(dict(env_params(rng), fam="mgr", method=m, pattern=pat))
    p = env_params(rng)
    out.append(dict(p, fam="mgr", method="rechunk", new_chunks=[rchunk(rng, p["sizes"]["x"]), rchunk(rng, p["sizes"]["y"])]))
    p = env_params(rng)
    out.append(dict(p, fam="mgr", method="from_array", new_chunks=[rchunk(rng, p["sizes"]["y"]), rchunk(rng, p["sizes"]["x"])]))
    for spec in ([rng.randint(1, 4), -1], "auto", [[1, 2, 3], rng.randint(1, 5)], rng.randint(1, 4)):
        out.append(dict(env_params(rng), fam="mgr", method="normalize_chunks", spec=spec, shape=[6, rng.randint(3, 9)]))
    for axis in (0, 1):
        p = env_params(rng)
        n = p["sizes"]["xy"[axis]]
        idx = list(range(n)) + [rng.randrange(n)]
        rng.shuffle(idx)
        cut = sorted(rng.sample(range(1, len(idx)), 2))
        out.append(dict(p, fam="mgr", method="shuffle", axis=axis, indexer=[idx[:cut[0]], idx[cut[0]:cut[1]], idx[cut[1]:]]))
    return out


# ------------------------------------------------------------------------------------ family: mutate

MUT_DIMS = {"u": ("x", "y"), "u2": ("x", "y"), "v": ("x",), "w": ("y", "x"), "h": ("x",)}
XR_COPIES = ["copy_default", "copy_deep", "copy_shallow", "copy_copy", "copy_deepcopy", "deepcopy_in_container", "pickle",
             "deep_load", "shallow_load", "deep_persist", "deep_of_shallow", "deepcopy_data", "copycopy_data", "copymethod_data"]
MUT_COPIES = {
    "dataarray": XR_COPIES,
    "dataset": XR_COPIES,
    "variable": [k for k in XR_COPIES if k != "deep_persist"],
    "datatree": ["copy_default", "copy_deep", "copy_shallow", "copy_copy", "copy_deepcopy", "deepcopy_in_container", "pickle",
                 "deep_load", "deep_persist"],
    "array": ["copy_copy", "copy_deepcopy", "deepcopy_in_container", "pickle", "arr_copy_method"],
}
AUG = ["iadd", "isub", "imul", "itruediv", "ipow", "imod"]
VAR_HOWS = ["setitem_dict", "setitem_pos", "loc_dict", "var_setitem", "data_setitem", "data_mask", "data_out",
            "data_out_other", "data_assign", "values_assign"] + AUG
DS_HOWS = ["ds_setitem_dict", "ds_loc", "ds_assign_var", "ds_update", "ds_coord_assign", "ds_new_var", "ds_where_assign"]
MUT_HOWS = {
    "dataarray": VAR_HOWS,
    "dataset": VAR_HOWS + DS_HOWS,
    "variable": ["setitem_pos", "data_setitem", "data_mask", "data_out", "data_out_other", "data_assign", "values_assign"] + AUG,
    "datatree": [h for h in VAR_HOWS if h not in AUG] + ["ds_assign_var", "ds_where_assign"],
    "array": ["data_setitem", "data_mask", "data_out", "data_out_other"] + AUG,
}
MUT_READS = ["values", "values", "sum_x", "mean_all", "cumsum_x", "rolling_x", "plus_other"]
MUT_DERIVES = ["add1", "mul_self", "sum_y", "neg"]
MUT_OBJS = ["dataarray", "dataset", "variable", "datatree", "array"]


def _entry(rng, n, arrays=True):
    r = rng.random()
    if r < 0.35:
        return rng.randint(-n, n - 1)
    if r < 0.75 or not arrays:
        a = rng.randint(0, n - 1)
        b = rng.randint(a + 1, n)
        st = rng.choice([None, None, None, 2, -1])
        if st == -1:
            return {"s": [b - 1, (a - 1) if a > 0 else None, -1]}
        return {"s": [a if rng.random() < 0.8 else None, b if rng.random() < 0.8 else None, st]}
    if r < 0.9:
        return {"l": rng.sample(range(n), rng.randint(1, min(3, n)))}
    m = [rng.random() < 0.5 for _ in range(n)]
    m[rng.randrange(n)] = True
    return {"b": m}


def _label(d, e):
    """a positional entry turned into a label entry (x labels are 0..n-1, y labels 0,10,20..; label slices are inclusive)"""
    f = 10 if d == "y" else 1
    if isinstance(e, int):
        return abs(e) * f
    if "l" in e:
        return {"l": [i * f for i in e["l"]]}
    return e


def _has_array(e):
    return isinstance(e, dict) and ("l" in e or "b" in e)


def _no_int_next_to_array(entries, ns, labels=None):
    """xarray refuses (for every chunked backend) an assignment whose key has more than one non-slice entry unless all
    of them are ints: next to an array indexer, ints become unit slices"""
    if not any(_has_array(e) for e in entries):
        return entries
    out = []
    for e, n, f in zip(entries, ns, labels or [None] * len(ns)):
        if isinstance(e, int):
            i = (e // f) if f else e % n
            e = {"s": [i * f, i * f, None]} if f else {"s": [i, i + 1, None]}
        out.append(e)
    return out


def _mkey(rng, dims, sizes, form):
    """form: dict (by dim name, a random non-empty subset), pos (a tuple for a prefix of the dims), loc (labels)"""
    arrays_left = 1                                    # xarray refuses several array indexers on chunked data
    if form == "pos":
        k = rng.randint(1, len(dims))
        out = []
        for d in dims[:k]:
            e = _entry(rng, sizes[d], arrays_left > 0)
            if isinstance(e, dict) and ("l" in e or "b" in e):
                arrays_left -= 1
            out.append(e)
        if rng.random() < 0.15 and len(dims) > 1:
            return ["...", _entry(rng, sizes[dims[-1]], True)]
        return _no_int_next_to_array(out, [sizes[d] for d in dims[:k]])
    ds = rng.sample(list(dims), rng.randint(1, len(dims)))
    out = {}
    for d in ds:
        n = sizes[d]
        if form == "loc":
            r = rng.random()
            if r < 0.4:
                e = rng.randint(0, n - 1)
            elif r < 0.8 or arrays_left <= 0:
                a = rng.randint(0, n - 1)
                e = {"s": [a * (10 if d == "y" else 1), rng.randint(a, n - 1) * (10 if d == "y" else 1), None]}
                out[d] = e
                continue
            else:
                e = {"l": rng.sample(range(n), rng.randint(1, min(3, n)))}
                arrays_left -= 1
            out[d] = _label(d, e)
        else:
            e = _entry(rng, n, arrays_left > 0)
            if isinstance(e, dict) and ("l" in e or "b" in e):
                arrays_left -= 1
            out[d] = e
    ks = list(out)
    fixed = _no_int_next_to_array([out[d] for d in ks], [sizes[d] for d in ks],
                                  [(10 if d == "y" else 1) for d in ks] if form == "loc" else None)
    return dict(zip(ks, fixed))


def _mval(rng, scalar_only=False):
    r = rng.random()
    if scalar_only or r < 0.45:
        return {"kind": "scalar", "v": float(rng.choice([99, -77, 55, 0, 123]))}
    return {"kind": rng.choice(["array", "dataarray", "lazy"]), "seed": rng.randrange(10**6)}


def gen_mut(rng, case, on, how=None):
    obj, sizes = case["obj"], case["sizes"]
    how = how or rng.choice(MUT_HOWS[obj])
    st = {"do": "mut", "on": on, "how": how}
    if obj == "dataarray":
        var = "h" if rng.random() < 0.2 else None
        dims = MUT_DIMS["h"] if var else MUT_DIMS["u"]
    elif obj == "dataset":
        var = rng.choice(["u", "u", "v", "w", "h"] + (["u2"] if case.get("alias") else []))
        dims = MUT_DIMS[var]
    elif obj == "datatree":
        if rng.random() < 0.5:
            st["node"], var = "child", rng.choice(["w"] + (["u2"] if case.get("alias") else []))
        else:
            var = rng.choice(["u", "v"])
        dims = MUT_DIMS[var]
    else:
        var, dims = None, MUT_DIMS["u"]
    if how in DS_HOWS or (how in AUG and obj == "dataset" and rng.random() < 0.35):
        if how in ("ds_setitem_dict", "ds_loc"):
            d = "x"                                    # the one dim every variable has
            st["key"] = _mkey(rng, [d], sizes, "loc" if how == "ds_loc" else "dict")
            if any(isinstance(e, dict) and "b" in e for e in st["key"].values()):
                st["key"] = {d: 1}
            st["val"] = _mval(rng, scalar_only=True)
        elif how == "ds_coord_assign":
            st["seed"] = rng.randrange(10**6)
        elif how in AUG:
            st["k"] = float(rng.choice([2, 3]))
        else:
            st["var"] = var if var != "h" else "u"
            st["k"] = float(rng.choice([2, 3, -1]))
            if how == "ds_where_assign":
                st["thr"] = float(rng.randint(-2, 6))
        return st
    if var is not None:
        st["var"] = var
    if how in ("setitem_dict", "loc_dict"):
        st["key"] = _mkey(rng, dims, sizes, "loc" if how == "loc_dict" else "dict")
        st["val"] = _mval(rng)
    elif how in ("setitem_pos", "var_setitem", "data_setitem"):
        st["key"] = _mkey(rng, dims, sizes, "pos")
        st["val"] = _mval(rng)
        if how == "data_setitem" and st["val"]["kind"] == "dataarray":
            st["val"]["kind"] = "array"
    elif how == "data_mask":
        st["thr"] = float(rng.randint(-2, 6))
        st["val"] = _mval(rng, scalar_only=True)
    elif how in ("data_out", "data_assign"):
        st["k"] = float(rng.choice([1, 2, -3]))
    elif how in ("data_out_other", "values_assign"):
        st["seed"] = rng.randrange(10**6)
        st["lazy_other"] = rng.random() < 0.5
    elif how in AUG:
        st["k"] = float(rng.choice([2, 3]))
        if rng.random() < 0.4:
            st["other"], st["seed"], st["lazy_other"] = True, rng.randrange(10**6), rng.random() < 0.5
        if obj == "dataset" and rng.random() < 0.5:
            st["via_item"] = True
    return st


def gen_mutate(rng, obj, kind, how=None, peek=False):
    sizes = {"x": rng.randint(4, 7), "y": rng.randint(4, 8)}
    case = {"fam": "mutate", "obj": obj, "sizes": sizes, "chunks": {d: rchunk(rng, n, multi=True) for d, n in sizes.items()},
            "data_seed": rng.randrange(10**6), "read": rng.choice(MUT_READS)}
    if case["read"] == "rolling_x":
        # xarray's stock dask manager refuses a moving window wider than a chunk; keep the case judgeable by both
        case["chunks"]["x"] = rng.randint(2, max(2, sizes["x"] // 2))
    if obj in ("dataset", "datatree") and rng.random() < 0.45:
        case["alias"] = True
    steps = []
    if rng.random() < 0.25:
        steps.append(gen_mut(rng, case, "o"))                 # the original already carries an assignment when copied
    if rng.random() < 0.25:
        steps.append({"do": "derive", "src": "o", "dst": "d", "how": rng.choice(MUT_DERIVES)})
    steps.append({"do": "copy", "src": "o", "dst": "c", "kind": kind})
    if rng.random() < 0.15:
        steps.append({"do": "derive", "src": "c", "dst": "dc", "how": rng.choice(MUT_DERIVES)})
    target = "c" if rng.random() < 0.65 else "o"
    if peek or rng.random() < 0.25:
        # computed once BEFORE it (or its twin) is changed
        steps.append({"do": "peek", "on": target if peek else rng.choice(["o", "c"])})
    steps.append(gen_mut(rng, case, target, how))
    r = rng.random()
    if r < 0.3:
        steps.append(gen_mut(rng, case, "o" if target == "c" else "c"))
    elif r < 0.5:
        src = rng.choice(["o", "c"])
        steps.append({"do": "copy", "src": src, "dst": "c2", "kind": rng.choice(MUT_COPIES[obj])})
        steps.append(gen_mut(rng, case, rng.choice(["c2", src])))
    case["steps"] = steps
    return case


def gen_mutate_cases(rng, tier):
    """every copy kind of every object kind in every run (each with a random in-place operation), and every in-place
    operation of every object kind (each after a random copy kind), once plainly and once on an object that has
    already been computed"""
    out = []
    reps = 3 if tier == "thorough" else 1
    for _ in range(reps):
        for obj in MUT_OBJS:
            for kind in MUT_COPIES[obj]:
                out.append(gen_mutate(rng, obj, kind))
            for how in MUT_HOWS[obj]:
                out.append(gen_mutate(rng, obj, rng.choice(MUT_COPIES[obj]), how))
                out.append(gen_mutate(rng, obj, rng.choice(MUT_COPIES[obj]), how, peek=True))   # compute, change, compute
    return out


def mutate_main(case):
    """(copy kind, how, target) of the first mutation that follows the first copy"""
    kind = next(st["kind"] for st in case["steps"] if st["do"] == "copy")
    seen = False
    for st in case["steps"]:
        seen = seen or st["do"] == "copy"
        if seen and st["do"] == "mut":
            return kind, st["how"], "on-copy" if st["on"] != "o" else "on-original"
    return kind, "none", "none"


# ------------------------------------------------------------------------------------ family: grid
#
# operation × chunk-count class of the dimension "t" (1, 2, 4, 7 chunks) × NaN placement relative to the chunk
# boundaries × the operation's keyword arguments.  Stratified: EVERY operation of the child's GRID table is run with
# EVERY chunk-count class in every run; NaN placements and keyword-argument variants rotate through shuffled cycles
# (per operation, for the scan-backed fills per (operation, class)), so siblings are covered evenly rather than by luck.

GRID_KS = [1, 2, 4, 7]
NANPATS = ["chunk_start", "late_starts", "dense", "whole_chunk", "chunk_end", "lead_trail", "sparse", "none"]
SCAN_PATS = NANPATS[:-1]
# cases per chunk-count class (default 1)
GRID_REPS = {"ffill": 4, "bfill": 4, "ffill_ds": 2, "bfill_ds": 2, "ffill_transposed": 2, "pad": 6, "rolling_red": 2, "reduce": 3,
             "evaluate": 3, "reindex": 2, "sel_method": 2, "mgr_scan": 4, "mgr_reduction_first_last": 2}
SCAN_OPS = {"ffill", "bfill", "ffill_ds", "bfill_ds", "ffill_transposed", "bfill_perm", "ffill_bfill", "ffill_of_sum", "ffill_of_concat",
            "ffill_of_rechunk", "interpolate_na", "resample_up", "mgr_scan", "mgr_reduction_first_last", "groupby_first_last",
            "resample_first_last"}
# ("median" is refused by the registered and the stock manager alike: not rotated)
PAD_MODES = ["constant", "edge", "reflect", "symmetric", "wrap", "linear_ramp", "maximum", "minimum", "mean", "reflect:odd", "symmetric:odd"]
ROLL_REDS = ["mean", "sum", "max", "min", "std", "var", "median", "count", "prod"]
COARSEN_REDS = ["mean", "sum", "max", "min", "median", "std"]
REDUCE_REDS = ["sum", "mean", "std", "var", "min", "max", "prod", "count", "any", "all", "median"]
EVALS = ["to_numpy", "values", "np_asarray", "load", "compute", "persist", "persist_ffill", "ds_compute", "ds_persist_scan", "to_pandas",
         "scalar"]


class Cycler:
    """options handed out in shuffled cycles: every option once before any repeats"""

    def __init__(self, rng):
        self.rng, self.state = rng, {}

    def __call__(self, name, options):
        st = self.state.get(name)
        if not st:
            st = list(options)
            self.rng.shuffle(st)
            self.state[name] = st
        return st.pop()


def compose(rng, n, k, even_p=0.4):
    """n split into k positive chunk sizes"""
    if k == 1:
        return [n]
    if n % k == 0 and rng.random() < even_p:
        return [n // k] * k
    cuts = sorted(rng.sample(range(1, n), k - 1))
    return [b - a for a, b in zip([0] + cuts, cuts + [n])]


def grid_geom(rng, k):
    lo, hi = {1: (4, 8), 2: (4, 10), 4: (8, 13), 7: (8, 15)}[k]
    nt = rng.randint(lo, hi)
    if k == 4 and rng.random() < 0.25:
        nt = rng.choice([8, 12])
    ny = rng.randint(2, 4)
    g = {"nt": nt, "tchunks": compose(rng, nt, k), "ny": ny, "ychunks": rng.choice([ny, ny, 1, [1, ny - 1]]),
         "bychunks": rng.choice([ny, 1]), "k": k}
    kb = rng.choice([x for x in GRID_KS if x <= nt])
    g["btchunks"] = g["tchunks"] if rng.random() < 0.35 else compose(rng, nt, kb)
    if rng.random() < 0.3:
        g["tgaps"] = [rng.randint(1, 3) for _ in range(nt)]
    g["vals"] = "perm" if rng.random() < 0.6 else "small"
    return g


def _limit(cyc, key, g):
    tch, nt = g["tchunks"], g["nt"]
    kind = cyc(("limit",) + key, ["none", "none", "gt_chunk", "one", "two", "ge_len", "min_chunk", "gt_min_chunk"])
    return {"none": None, "one": 1, "two": 2, "gt_chunk": max(tch) + 1, "ge_len": nt, "min_chunk": min(tch),
            "gt_min_chunk": min(tch) + 1}[kind]


def _window(rng, cyc, op, g):
    tch = g["tchunks"]
    kind = cyc(("window", op), ["two", "three", "gt_min_chunk", "gt_chunk"])
    w = {"two": 2, "three": 3, "gt_min_chunk": min(tch) + 1, "gt_chunk": max(tch) + 1}[kind]
    return max(2, min(w, g["nt"]))


def grid_params(rng, cyc, op, g):
    nt, tch = g["nt"], g["tchunks"]
    tlab = [float(x) for x in _cum(g["tgaps"])] if g.get("tgaps") else list(range(nt))
    p = {}
    if op in ("ffill", "bfill", "ffill_ds", "bfill_ds", "ffill_transposed", "bfill_perm", "ffill_of_sum"):
        p["limit"] = _limit(cyc, (op, g["k"]) if op in ("ffill", "bfill") else (op,), g)
    elif op in ("ffill_of_where", "where_cond_perm", "where_other", "xr_where", "where_drop"):
        p["thr"] = float(rng.randint(-3, 5))
        if op == "where_other":
            p["other"] = cyc("where_other", ["v", "scalar"])
    elif op in ("bfill_of_shift", "shift", "shift_ds", "roll", "roll_ds"):
        p["shift"] = cyc(("shift", op), [1, -1, max(tch) + 1, -(min(tch) + 1), nt - 1, 2])
        if op == "shift" and rng.random() < 0.5:
            p["fill_value"] = -5.0
        if op in ("roll", "roll_ds"):
            p["roll_coords"] = rng.random() < 0.4
        if op == "bfill_of_shift":
            p["shift"] = -abs(p["shift"]) if abs(p["shift"]) < nt else -1
    elif op in ("ffill_of_rechunk", "chunk_dict", "chunk_ds"):
        kind = cyc(("chunk", op), ["int", "tuple", "auto", "one", "single"])
        p["chunk"] = {"int": rng.randint(2, max(2, nt // 2)), "tuple": compose(rng, nt, rng.choice([x for x in (2, 4, 7) if x <= nt])),
                      "auto": "auto", "one": 1, "single": -1}[kind]
    elif op == "interpolate_na":
        p["use_coordinate"] = rng.random() < 0.5
        kind = cyc("interp_limit", ["none", "limit", "none", "max_gap"])
        if kind == "limit":
            p["limit"] = rng.randint(1, 3)
        elif kind == "max_gap":
            p["max_gap"] = rng.randint(2, 4)
    elif op == "mgr_scan":
        p["merge"], p["method"] = cyc(("mgr_scan", g["k"]), [("last", "blelloch"), ("first", "blelloch"), ("last", "sequential"), ("first", "sequential")])
        p["axis"] = cyc("mgr_scan_axis", [0, 1])
    elif op == "mgr_reduction_first_last":
        p["which"] = cyc(("mgr_red", g["k"]), ["first", "last"])
        p["axis"] = cyc("mgr_red_axis", [0, 1])
        p["combine"] = rng.random() < 0.5
    elif op == "groupby_first_last":
        ng = rng.randint(2, 3)
        p["labels"] = [rng.randrange(ng) for _ in range(nt)]
        if rng.random() < 0.4:
            p["skipna"] = False
    elif op == "resample_first_last":
        p["freq"] = cyc("resample_freq", ["2D", "3D", "%dD" % (max(tch) + 1), "4D"])
        p["how"] = cyc("resample_fl", ["first", "last", "first", "last", "mean", "max"])
    elif op == "resample_up":
        p["how"] = cyc("resample_how", ["ffill", "bfill", "nearest", "asfreq"])
    elif op in ("cumsum", "cumprod"):
        if rng.random() < 0.6:
            p["skipna"] = cyc(("skipna", op), [True, False])
    elif op == "cumulative":
        p["red"] = cyc("cumulative_red", ["sum", "max", "mean", "min"])
        p["min_periods"] = cyc("cumulative_mp", [1, 2])
    elif op in ("rolling_red", "rolling_ds", "rolling_2d", "rolling_construct", "rolling_reduce"):
        p["window"] = _window(rng, cyc, op, g)
        if op in ("rolling_red", "rolling_ds"):
            p["red"] = cyc(("roll_red", op), ROLL_REDS)
            mp = cyc(("roll_mp", op), ["none", "one", "none", "window-1"])
            if mp != "none":
                p["min_periods"] = 1 if mp == "one" else max(1, p["window"] - 1)
        if op != "rolling_2d" and rng.random() < 0.4:
            p["center"] = True
        if op == "rolling_construct":
            p["stride"] = cyc("construct_stride", [1, 2, 1, 3])
            if rng.random() < 0.4:
                p["fill_value"] = -1.0
    elif op in ("coarsen_red", "coarsen_ds", "coarsen_construct"):
        p["window"] = cyc(("coarsen_w", op), [2, 3, max(2, min(tch) + 1), 2])
        if op != "coarsen_construct":
            p["red"] = cyc(("coarsen_red", op), COARSEN_REDS)
            p["boundary"] = cyc(("coarsen_b", op), ["trim", "pad"])
            p["side"] = cyc(("coarsen_s", op), ["left", "right"])
    elif op in ("idxmax", "idxmin"):
        kind = cyc(("idx", op), ["plain", "skipna_false", "fill", "plain"])
        if kind == "skipna_false":
            p["skipna"] = False
        elif kind == "fill":
            p["fill_value"] = -1.0
    elif op in ("argmax_dim", "argmin_dict", "argmax_dict"):
        if op != "argmax_dim":
            p["dims"] = cyc(("argdims", op), [["t"], ["t", "y"], ["y"], ["y", "t"]])
        if rng.random() < 0.3:
            p["skipna"] = True
    elif op == "clip":
        kind = cyc("clip", ["both", "lo", "hi"])
        if kind != "hi":
            p["lo"] = float(rng.randint(-4, 0))
        if kind != "lo":
            p["hi"] = float(rng.randint(1, 6))
    elif op == "combine_first_shifted":
        p["cut"] = rng.randint(1, max(1, min(3, nt - 2)))
    elif op == "diff":
        p["n"] = cyc("diff_n", [1, 2, 1, 3])
        p["label"] = cyc("diff_label", ["upper", "lower"])
    elif op == "pad":
        mode, _, rtype = cyc("pad_mode", PAD_MODES).partition(":")
        wk = cyc("pad_width", ["small", "left_only", "right_only", "gt_chunk", "small", "gt_chunk_right", "small"])
        lim = nt - 1 if mode in ("reflect", "symmetric", "wrap") else nt + 2      # one reflection only: the portable range
        big = min(max(tch) + 1, lim)
        l, r = {"small": (rng.randint(1, 2), rng.randint(1, 2)), "left_only": (rng.randint(1, min(3, lim)), 0),
                "right_only": (0, rng.randint(1, min(3, lim))), "gt_chunk": (big, rng.randint(1, 2)),
                "gt_chunk_right": (rng.randint(1, 2), big)}[wk]
        p.update(mode=mode, width=[l, r], kw={}, src="a0" if mode in ("maximum", "minimum", "mean", "median", "linear_ramp") else cyc("pad_src", ["a", "a0"]))
        if mode == "constant" and rng.random() < 0.7:
            p["kw"]["constant_values"] = cyc("pad_cv", [-9.0, [-1.0, -2.0]])
        if mode == "linear_ramp":
            p["kw"]["end_values"] = cyc("pad_ev", [3.0, [-2.0, 5.0]])
        if mode in ("maximum", "minimum", "mean", "median") and rng.random() < 0.6:
            sl = cyc("pad_sl", ["two", "pair", "gt_chunk", "two", "pair", "gt_chunk", "gt_axis"])
            p["kw"]["stat_length"] = {"two": 2, "pair": [1, 3], "gt_chunk": min(max(tch) + 1, nt), "gt_axis": nt + 1}[sl]
        if rtype:
            p["kw"]["reflect_type"] = rtype
    elif op == "reindex":
        m = cyc("reindex_method", [None, "nearest", "ffill", "bfill", None])
        off = 0.0 if m is None else rng.choice([0.0, 0.25, -0.25])
        lab = [tlab[i] + off for i in rng.sample(range(nt), rng.randint(2, min(nt, 6)))]
        lab += [tlab[0] - 2.0, tlab[-1] + 2.0][:rng.randint(0, 2)]
        p["labels"] = sorted(lab) if rng.random() < 0.5 else lab
        if m:
            p["method"] = m
            if rng.random() < 0.4:
                p["tolerance"] = 0.5
        if rng.random() < 0.4:
            p["fill_value"] = -5.0
    elif op == "reindex_like":
        p["keep"] = cyc("reindex_like", [[1, None, 2], [None, None, -1], [2, None, None], [None, -1, 3]])
    elif op == "sel_method":
        m = cyc("sel_method", ["nearest", "ffill", "bfill", None])
        off = 0.0 if m is None else rng.choice([0.25, -0.25, 0.0])
        idx = [rng.randrange(nt) for _ in range(rng.randint(1, 6))]
        if m in ("ffill", None) or off >= 0:
            pass
        p["labels"] = [min(max(tlab[i] + off, tlab[0]), tlab[-1]) for i in idx]
        if m:
            p["method"] = m
    elif op == "sel_slice":
        i, j = sorted(rng.sample(range(nt), 2))
        p["lo"], p["hi"] = tlab[i], tlab[j]
    elif op == "isel_list":
        p["idx"] = [rng.randrange(-nt, nt) for _ in range(rng.randint(1, nt + 2))]
    elif op == "isel_vectorized":
        n = rng.randint(1, 6)
        p["idx"] = [rng.randrange(nt) for _ in range(n)]
        p["idy"] = [rng.randrange(g["ny"]) for _ in range(n)]
    elif op == "isel_negstep":
        p["step"] = cyc("negstep", [1, 2, 3])
    elif op == "head_tail_thin":
        p["n"] = cyc("htt", [1, 2, 3, max(tch) + 1])
    elif op == "evaluate":
        p["how"] = cyc("evaluate", EVALS)
    elif op == "reduce":
        p["red"] = cyc("reduce", REDUCE_REDS)
        p["src"] = cyc("reduce_src", ["a", "a", "a0"])
        if p["red"] in ("sum", "mean", "std", "var", "min", "max", "prod", "median") and rng.random() < 0.5:
            p["skipna"] = cyc("reduce_skipna", [True, False])
        if p["red"] in ("std", "var") and rng.random() < 0.5:
            p["ddof"] = 1
        if p["red"] in ("sum", "prod") and p.get("skipna") is not False and rng.random() < 0.5:
            p["min_count"] = rng.randint(1, max(tch) + 1)
        if p["red"] in ("any", "all"):
            p["thr"] = float(rng.randint(-4, 6))
    elif op == "reduce_all_dims":
        p["red"] = cyc("reduce_all", ["sum", "mean", "max", "min", "count", "std"])
    elif op == "differentiate":
        p["edge_order"] = cyc("edge_order", [1, 2])
    return p


def _cum(xs):
    out, s = [], 0
    for x in xs:
        s += x
        out.append(s)
    return out


def gen_grid_cases(rng, tier):
    ops = _table_names("GRID")
    cyc = Cycler(rng)
    out = []
    for _ in range(3 if tier == "thorough" else 1):
        for op in ops:
            for k in GRID_KS:
                for _ in range(GRID_REPS.get(op, 1)):
                    g = grid_geom(rng, k)
                    case = dict(g, fam="grid", op=op, data_seed=rng.randrange(10**6))
                    if op in SCAN_OPS:
                        case["nanpat"] = cyc(("nan", op, k) if op in ("ffill", "bfill", "mgr_scan") else ("nan", op), SCAN_PATS)
                    else:
                        case["nanpat"] = cyc(("nan", op), NANPATS)
                    case["p"] = grid_params(rng, cyc, op, g)
                    out.append(case)
    return out


def grid_shrink(case):
    """smaller / plainer variants of a grid case that keep the cut of "t" and the NaN placement class"""
    out = []

    def variant(**kw):
        c = copy.deepcopy(case)
        c.update(kw)
        if c != case:
            out.append(c)

    variant(ny=1, ychunks=1, bychunks=1)
    variant(ychunks=case["ny"], bychunks=case["ny"])
    variant(btchunks=case["tchunks"])
    if case.get("tgaps"):
        c = copy.deepcopy(case)
        c.pop("tgaps")
        if not any(k in c["p"] for k in ("labels", "lo", "hi")):
            out.append(c)
    variant(vals="perm")
    if case["p"].get("limit") is not None:
        variant(p=dict(case["p"], limit=None))
    return out


def gen_cases(rng, tier):
    thorough = tier == "thorough"
    cases = []
    for m in DSLOAD_METHODS:
        for _ in range(8 if thorough else 3):
            cases.append(gen_dsload(rng, m))
    for f in MBFUNCS:
        for _ in range(12 if thorough else 4):
            cases.append(gen_mapblocks(rng, f))
    for _ in range(3 if thorough else 1):
        for v in _table_names("UFUNCS"):
            cases.append(dict(env_params(rng), fam="ufunc", variant=v))
        for o in _table_names("ROUTES"):
            cases.append(dict(env_params(rng), fam="route", op=o))
        cases += gen_mgr(rng)
    cases += gen_mutate_cases(rng, tier)
    cases += gen_grid_cases(rng, tier)
    return cases


def key_of(case):
    if case["fam"] == "mutate":
        return mutate_main(case)[0]
    return case.get("method") or case.get("func") or case.get("variant") or case.get("op")


def class_of(case):
    if case["fam"] == "dsload":
        return ("xr", "dsload") + dsload_class(case)
    if case["fam"] == "mapblocks":
        return ("xr", "mapblocks") + mapblocks_class(case)
    if case["fam"] == "mutate":
        return ("xr", "mutate", case["obj"]) + mutate_main(case) + (case["read"], len(case["steps"]) > 2)
    if case["fam"] == "grid":
        return ("xr", "grid", case["op"], "t-chunks=%d" % case["k"], case["nanpat"])
    nb = tuple(min(nblocks(case["chunks"][d], n), 3) for d, n in case["sizes"].items())
    return ("xr", case["fam"], key_of(case), nb, case["chunks"] == case.get("chunks_b"))


# ------------------------------------------------------------------------------------ running

def run_child(mode, cases, env, timeout=900):
    p = subprocess.run([PY, str(CHILD), mode], input=json.dumps(cases), capture_output=True, text=True,
                       cwd=tempfile.gettempdir(), env=env, timeout=timeout)
    for line in p.stdout.splitlines():
        if line.startswith("RESULT "):
            r = json.loads(line[7:])
            if mode == "registered" and str(core.REPO) != "/repo" and not str(r["dask_array_file"]).startswith(str(core.REPO)):
                raise RuntimeError(f"child imported {r['dask_array_file']} instead of the copy under {core.REPO}")
            return r["results"]
    raise RuntimeError(f"C26 xarray child ({mode}) crashed: " + (p.stderr or p.stdout)[-800:])


class Stream:
    """Starts the children in the background (so the import-order interpreters run concurrently) and judges later."""

    def __init__(self, ctx, env, workers=6):
        self.ctx, self.env = ctx, env
        self.cases = gen_cases(ctx.rng, ctx.tier)
        self.workers = workers
        self.pool = ThreadPoolExecutor(2 * workers)
        parts = [self.cases[k::workers] for k in range(workers)]
        self.parts = parts
        self.fut = {mode: [self.pool.submit(run_child, mode, part, env) for part in parts] for mode in ("registered", "stock")}

    def results(self, mode):
        out = [None] * len(self.cases)
        for k, f in enumerate(self.fut[mode]):
            for j, r in enumerate(f.result()):
                out[k + j * self.workers] = r
        return out

    def finish(self):
        ctx = self.ctx
        reg, stock = self.results("registered"), self.results("stock")
        self.pool.shutdown()
        hist, entered, artefacts, refusals, shared = {}, set(), {}, {}, {}
        suspects = []
        for case, r, s in zip(self.cases, reg, stock):
            ctx.count(class_of(case))
            kind = r["verdict"].split(" ")[0]
            hist[f"{case['fam']}:{kind}"] = hist.get(f"{case['fam']}:{kind}", 0) + 1
            entered.update(r["calls"])
            if kind == "numpy-raises":
                artefacts[f"{case['fam']}:{key_of(case)}"] = r["verdict"][:160]
            elif kind in ("mismatch", "compare-error"):
                if excused(case, r, s):
                    shared[f"{case['fam']}:{key_of(case)}:{mutate_main(case)[1]}"] = r["verdict"][:100]
                else:
                    suspects.append((case, r, s))
            elif kind == "raises":
                if documented_refusal(case, r["verdict"]):
                    refusals[f"{case['fam']}:{key_of(case)}"] = r["verdict"][:120] + " | documented refusal; stock: " + s["verdict"][:60]
                elif s["verdict"] == "ok":
                    suspects.append((case, r, s))
                else:
                    refusals[f"{case['fam']}:{key_of(case)}"] = r["verdict"][:120] + " | stock: " + s["verdict"][:60]
        # one report per signature (wrong values before refusals), confirmed on its own in a fresh interpreter;
        # the first few are shrunk; all of it in parallel, recorded in a deterministic order
        suspects.sort(key=lambda t: t[1]["verdict"].startswith("raises"))
        todo, seen = [], set()
        for case, r, s in suspects:
            sig = signature(case, r["verdict"])
            if sig not in seen and len(todo) < 10:
                seen.add(sig)
                todo.append((case, r["verdict"], len(todo) < 4))
        if todo:
            with ThreadPoolExecutor(len(todo)) as ex:
                for sig, case, what in ex.map(lambda t: report(self.env, *t), todo):
                    ctx.fail(sig, case, what)
        meths = manager_methods()
        # the grid family's own cost: CPU seconds inside the children, and the share of the slowest worker (≈ the
        # wall seconds it adds when the workers run in parallel)
        gsecs = {}
        for mode, rs in (("registered", reg), ("stock", stock)):
            per = [0.0] * self.workers
            for i, (case, r) in enumerate(zip(self.cases, rs)):
                if case["fam"] == "grid":
                    per[i % self.workers] += r.get("secs", 0.0)
            gsecs[mode] = {"cpu": round(sum(per), 1), "slowest_worker": round(max(per), 1)}
        gsecs["cases"] = sum(c["fam"] == "grid" for c in self.cases)
        ctx.notes["xr_grid_seconds"] = gsecs
        ctx.notes["xr_cases"] = hist
        ctx.notes["manager_methods_in_source"] = len(meths)
        ctx.notes["manager_methods_never_entered"] = sorted(m for m in meths if m not in entered)
        if artefacts:
            ctx.extra["xr_oracle_raises (harness artefacts, not counted)"] = artefacts
        if refusals:
            ctx.extra["xr_refusals_shared_with_stock_manager (not counted)"] = refusals
        if shared:
            # NumPy view / shared-memory semantics no chunked array has (shallow copies, in-place operators): the stock
            # dask manager produces exactly the same values as the registered one
            ctx.extra["xr_mutate_numpy_aliasing_shared_with_stock_manager (not counted)"] = dict(sorted(shared.items())[:40])
            ctx.notes["xr_mutate_excused_same_as_stock"] = len(shared)
        mid = len(self.cases) // 3
        ctx.sample({"xr_case": self.cases[mid], "verdict": reg[mid]["verdict"], "manager_methods_entered": reg[mid]["calls"]})


SHALLOW_KINDS = {"copy_shallow", "shallow_load", "copy_copy", "copy_default"}


def aliasing_hazard(case):
    """does the NumPy-backed run of a mutate script share memory between two of its objects (which no chunked run does)"""
    if case.get("alias"):
        return True
    for st in case["steps"]:
        if st["do"] == "derive" and case["obj"] in ("dataarray", "dataset", "datatree"):
            return True                                    # the result of arithmetic shares its coordinates' memory
        if st["do"] == "copy" and st["kind"] in SHALLOW_KINDS:
            if case["obj"] == "array" or (st["kind"] == "copy_default" and case["obj"] in ("dataarray", "variable")):
                continue                                   # real copies
            return True
    return False


def excused(case, r, s):
    """mutate family only: a difference from the NumPy-backed run is excused when xarray's stock dask manager yields
    the very same values (NumPy's shared-memory semantics of shallow copies / in-place operators, which no chunked
    array has), or when the stock manager refuses the script and the script does share memory in its NumPy-backed
    run (nothing to judge it by) -- never when the stock run agrees with NumPy or yields anything else"""
    if case["fam"] != "mutate" or not r["verdict"].startswith("mismatch"):
        return False
    if s["verdict"].startswith("mismatch"):
        return r.get("digest") is not None and r.get("digest") == s.get("digest")
    return s["verdict"].startswith("raises") and aliasing_hazard(case)


def signature(case, verdict):
    kind = "xr-raises" if verdict.startswith("raises") else "xr"
    sub = ""
    if case["fam"] == "grid" and case["op"] == "pad":
        # one class per pad mode; an explicit reflect_type and a stat_length longer than the axis are classes of their own
        rt, sl = case["p"]["kw"].get("reflect_type"), case["p"]["kw"].get("stat_length")
        sub = ":reflect_type-" + rt if rt else ":" + case["p"]["mode"]
        if sl is not None and max(sl if isinstance(sl, list) else [sl]) > case["nt"]:
            sub = ":stat_length-exceeds-axis"
    return f"C26:{kind}:{case['fam']}:{key_of(case)}{sub}"


def documented_refusal(case, verdict):
    """dask_array.pad refuses reflect_type='odd' with NotImplementedError (reached since /repo f2b338a); the stock manager has
    the keyword typo and silently returns the EVEN reflection, which coincides with NumPy only when the padded cells are NaN"""
    return ("NotImplementedError" in verdict and case.get("op") == "pad"
            and ((case.get("p") or {}).get("kw") or {}).get("reflect_type") == "odd")


def judge_single(env, case):
    """→ verdict of the registered run if it is a failure of the property, else None (one fresh interpreter per mode)."""
    r = run_child("registered", [case], env)[0]
    v = r["verdict"]
    if v.startswith("mismatch") and case["fam"] == "mutate":
        s = run_child("stock", [case], env)[0]
        if excused(case, r, s):
            return None
        return v + (" (the stock dask manager agrees with NumPy)" if s["verdict"] == "ok" else " (stock: " + s["verdict"][:60] + ")")
    if v.startswith("mismatch") or v.startswith("compare-error"):
        return v
    if v.startswith("raises"):
        if documented_refusal(case, v):
            return None
        s = run_child("stock", [case], env)[0]
        if s["verdict"] == "ok":
            return v + " (the stock dask manager computes it)"
    return None


def shrink_candidates(case):
    """smaller variants of a dsload / mapblocks case: one variable dropped (references kept valid), no selection"""
    out = []
    if case["fam"] == "grid":
        return grid_shrink(case)
    if case["fam"] == "mutate":
        steps = case["steps"]
        for i in range(len(steps) - 1, -1, -1):
            gone = {steps[i]["dst"]} if steps[i]["do"] in ("copy", "derive") else set()
            if "c" in gone and steps[i]["do"] == "copy" and steps[i]["dst"] == "c":
                continue                                   # the first copy is what the case is about
            keep = [st for j, st in enumerate(steps) if j != i and st.get("src") not in gone and st.get("on") not in gone]
            while keep and keep[-1]["do"] == "peek":
                keep.pop()
            if any(st["do"] == "mut" for st in keep):
                out.append(dict(copy.deepcopy(case), steps=copy.deepcopy(keep)))
        if case.get("read") != "values":
            out.append(dict(copy.deepcopy(case), read="values"))
        if case.get("alias") and not any(st.get("var") == "u2" for st in steps):
            c = copy.deepcopy(case)
            c.pop("alias")
            out.append(c)
        return out
    if "vars" not in case:
        return out
    if case.get("select"):
        c = copy.deepcopy(case)
        c.pop("select")
        out.append(c)
    vs = case["vars"]
    for i in range(len(vs) - 1, -1, -1):
        n = vs[i]["name"]
        if any(v.get("of") == n or v.get("other") == n for v in vs) or case.get("da_var") == n or len(vs) <= 1:
            continue
        c = copy.deepcopy(case)
        del c["vars"][i]
        if c.get("select"):
            c["select"] = [s for s in c["select"] if s != n]
            if not c["select"]:
                continue
        if not any(not v.get("coord") for v in c["vars"]):
            continue
        out.append(c)
    for d in list(case["sizes"]):
        if d == "z" and not any("z" in v.get("dims", []) for v in vs) and "z" not in (case.get("other_dims") or []) and case.get("rdim") != "z":
            c = copy.deepcopy(case)
            c["sizes"].pop("z")
            c["chunks"].pop("z", None)
            out.append(c)
    return out


def report(env, case, verdict, minimise=False):
    """confirm a suspect in a fresh interpreter on its own, shrink it → (signature, case dict, what)"""
    sig = signature(case, verdict)
    v = judge_single(env, case)
    if v is None:
        # not reproducible on its own: depends on what ran before it in the same interpreter -- report as such
        return sig + ":batch-only", {"xr_case": case, "note": "seen only after other cases in the same interpreter"}, verdict
    if minimise and case["fam"] == "grid":
        # one round: every single simplification in one fresh interpreter, then all that kept the failure together
        cands = grid_shrink(case)
        rs = run_child("registered", cands, env) if cands else []
        good = [c for c, r in zip(cands, rs) if r["verdict"].split(" ")[0] == v.split(" ")[0]]
        if good:
            combo = copy.deepcopy(case)
            for c in reversed(good):
                for k2 in set(c) | set(case):
                    if c.get(k2) != case.get(k2):
                        if k2 in c:
                            combo[k2] = copy.deepcopy(c[k2])
                        else:
                            combo.pop(k2, None)
            for small in ([combo] if len(good) > 1 else []) + [good[0]]:
                vv = judge_single(env, small)
                if vv is not None and vv.split(" ")[0] == v.split(" ")[0]:
                    case, v = small, vv
                    break
    elif minimise:
        small = case
        for _ in range(4):
            cands = shrink_candidates(small)
            if not cands:
                break
            rs = run_child("registered", cands, env)      # one fresh interpreter evaluates all candidates
            nxt = [c for c, r in zip(cands, rs) if r["verdict"].split(" ")[0] == v.split(" ")[0]]
            if nxt and case["fam"] == "mutate":          # keep only candidates the stock manager does not share
                ss = run_child("stock", nxt, env)
                byid = {id(c): r for c, r in zip(cands, rs)}
                nxt = [c for c, s2 in zip(nxt, ss) if not excused(c, byid[id(c)], s2)]
            if not nxt:
                break
            small = nxt[0]
        if small is not case:
            vv = judge_single(env, small)
            if vv is not None and vv.split(" ")[0] == v.split(" ")[0]:
                case, v = small, vv
    return sig, {"xr_case": case}, v


def replay(ctx, env, case):
    v = judge_single(env, case)
    if v is not None:
        ctx.fail(signature(case, v), {"xr_case": case}, v)
    ctx.count(("replay-xr",))
