"""C26 values clause — xarray-level differential stream after register().

One case = one xarray program, fully described by a plain dict (sizes, chunk sizes, variable layout, operation,
data seed), run in a child interpreter (c26_xr_child.py) on NumPy-backed objects (oracle) and on chunked objects:
`registered` (dask_array-backed, after dask_array.xarray.register()) and `stock` (xarray's own dask manager, the
refusal baseline: a raise of the registered run is a failure only where the stock manager computes the program).

Families
  dsload    Dataset / DataArray / DataTree compute, load, load_async, persist, dask.compute, dask.persist on
            Datasets whose variables are fresh chunked arrays, NumPy arrays, ALIASES of an earlier variable (same
            lazy array under two names), the same expression built twice, derived expressions, chunked non-index
            coordinates, in permuted variable order, with per-variable chunking.
  mapblocks xr.map_blocks / .map_blocks over Datasets and DataArrays whose variables have permuted / subset dims,
            several (uneven) blocks per dim, unchunked variables, chunked coordinates; functions with several outputs,
            transposed outputs, new / reduced dims, extra xarray args; explicit and inferred templates.
  ufunc     apply_ufunc dask="allowed"/"parallelized": core dims, new core dims, several outputs, vectorize,
            exclude_dims, Datasets, operands with permuted dims.
  route     a catalogue of xarray operations over several objects with differently ordered dims and different
            chunking (binary ops, concat/merge/align/stack, reductions, ffill/bfill, groupby/resample/rolling/coarsen,
            indexing, creation, dt accessors, CF decoding, ArrayWriter store …).
  mutate    copies × in-place operations: a script over named objects (DataArray / Dataset / Variable / DataTree / the raw
            chunked array): copy kinds (copy() default / deep / shallow, copy.copy, copy.deepcopy alone and inside a
            container, pickle round trip, load / persist of a copy, deep copy of a shallow copy, the array-level copy
            protocol under copy(data=…)) × in-place operations on the copy or the original (item assignment through [],
            .loc, dict keys, the Variable, the wrapped array; boolean-mask assignment; ufunc out=; augmented assignments
            on the object / a Dataset item; replacing .data / .values; Dataset-level assignment, update, where-assign,
            coordinate assignment) × expressions captured before the mutation × a read of EVERY object (values,
            reductions, cumsum, rolling).  NumPy's shared-memory semantics of shallow copies, which no chunked array
            has, are told apart by the stock run: a difference from NumPy is excused only when xarray's stock dask
            manager yields exactly the same values.
  mgr       the registered manager's methods called directly (compute/persist with duplicated arguments, blockwise,
            map_blocks, reduction, scan, apply_gufunc, unify_chunks, rechunk, from_array, normalize_chunks, store,
            shuffle, array_api …).
The manager's method list is read from the source (REPO/dask_array/_xarray.py); methods never entered during a run
are reported in the notes.
"""
from __future__ import annotations

import ast
import copy
import json
import re
import subprocess
import tempfile
from concurrent.futures import ThreadPoolExecutor
from pathlib import Path

from harness import core

PY = "/venv/bin/python"
CHILD = Path(__file__).with_name("c26_xr_child.py")

DSLOAD_METHODS = [
    "compute", "compute_sync", "load", "load_async", "persist", "persist_compute", "persist_twice", "dask_compute", "dask_compute_two",
    "dask_persist", "values", "dataarray_compute", "dataarray_load", "dataarray_persist", "datatree_compute",
    "datatree_load", "datatree_persist",
]
UNARY = ["mul2", "neg_add1", "T", "cumsum", "mean0", "isel"]
BINARY = ["lin", "sum_keep"]
MBFUNCS = ["affine", "identity", "first_da", "pairs", "transposed", "coord_mul", "reduce", "newdim", "with_args", "subset"]
MGR_SIMPLE = ["blockwise_perm", "blockwise_outer", "map_blocks", "map_blocks_two", "map_blocks_drop_axis", "map_blocks_new_axis",
              "apply_gufunc", "apply_gufunc_two", "apply_gufunc_axes", "apply_gufunc_multi", "unify_chunks", "store",
              "store_regions", "array_api", "chunks_is_chunked"]


def _table_names(table):
    src = CHILD.read_text()
    m = re.search(r"^%s = \{(.*?)^\}" % table, src, re.S | re.M)
    return re.findall(r'^    "(\w+)":', m.group(1), re.M)


def manager_methods():
    """Methods of DaskArrayExprManager, read from the tree under test."""
    f = Path(core.REPO) / "dask_array" / "_xarray.py"
    out = []
    for node in ast.parse(f.read_text()).body:
        if isinstance(node, ast.ClassDef) and node.name == "DaskArrayExprManager":
            for b in node.body:
                if isinstance(b, ast.FunctionDef) and not b.name.startswith("__"):
                    out.append(b.name)
    return out


# ------------------------------------------------------------------------------------ generators

def rchunk(rng, n, multi=False):
    """a chunk spec for a dim of length n: int, or an explicit (uneven) list"""
    r = rng.random()
    if n < 2 or (r < 0.12 and not multi):
        return n
    if r < 0.6:
        return rng.randint(1, max(1, n // 2))
    k = rng.randint(2, min(3, n))
    cuts = sorted(rng.sample(range(1, n), k - 1))
    return [b - a for a, b in zip([0] + cuts, cuts + [n])]


def nblocks(c, n):
    return len(c) if isinstance(c, list) else -(-n // c)


def rsizes(rng, z=0.3):
    s = {"x": rng.randint(4, 8), "y": rng.randint(4, 9)}
    if rng.random() < z:
        s["z"] = rng.randint(2, 4)
    return s


def rdims(rng, sizes, full=0.6):
    ds = list(sizes)
    k = len(ds) if rng.random() < full else rng.randint(1, len(ds))
    return rng.sample(ds, k)


def gen_dsload(rng, method):
    sizes = rsizes(rng)
    chunks = {d: rchunk(rng, n) for d, n in sizes.items()}
    vars_ = []
    names = []

    def add(spec):
        spec["name"] = f"v{len(vars_)}"
        vars_.append(spec)
        names.append(spec["name"])
        return spec["name"]

    def base(kind="base"):
        s = {"kind": kind, "dims": rdims(rng, sizes)}
        if kind == "base" and rng.random() < 0.2:
            s["chunks"] = {d: rchunk(rng, sizes[d]) for d in sizes}
        return add(s)

    def expr(of=None):
        of = of or rng.choice(names)
        if rng.random() < 0.5 and len(names) > 1:
            return add({"kind": "expr", "op": rng.choice(BINARY), "of": of, "other": rng.choice(names)})
        return add({"kind": "expr", "op": rng.choice(UNARY), "of": of})

    first = base()
    forced = rng.random() < 0.55
    if forced:
        # the same lazy array twice, FOLLOWED by other chunked variables
        r = rng.random()
        if r < 0.45:
            add({"kind": "alias", "of": first})
        elif r < 0.6:
            add({"kind": "alias_var", "of": first})
        else:
            e = expr(first)
            add({"kind": "same_expr", "of": e})
        base() if rng.random() < 0.6 else expr()
    for _ in range(rng.randint(0 if forced else 1, 3)):
        r = rng.random()
        exprs = [v["name"] for v in vars_ if v["kind"] == "expr"]
        if r < 0.3:
            base()
        elif r < 0.4:
            base("np")
        elif r < 0.6:
            add({"kind": "alias", "of": rng.choice(names)})
        elif r < 0.65:
            add({"kind": "alias_var", "of": rng.choice(names)})
        elif r < 0.8 and exprs:
            add({"kind": "same_expr", "of": rng.choice(exprs)})
        else:
            expr()
    for v in vars_[1:]:
        if rng.random() < 0.12:
            v["coord"] = True
    data = [v["name"] for v in vars_ if not v.get("coord")]
    case = {"fam": "dsload", "method": method, "sizes": sizes, "chunks": chunks, "vars": vars_, "data_seed": rng.randrange(10**6)}
    if rng.random() < 0.5:
        sel = list(data)
        rng.shuffle(sel)
        if rng.random() < 0.3 and len(sel) > 2:
            sel = sel[:-1]
        case["select"] = sel
    if method.startswith("dataarray_"):
        case["da_var"] = rng.choice(case.get("select") or data)
    if method.startswith("datatree_"):
        case["tree_cut"] = rng.randint(1, max(1, len(case.get("select") or data) - 1))
    return case


def dsload_class(case):
    """coverage key: does the same array occur twice, and is the repeat followed by another chunked variable"""
    kinds = [v["kind"] for v in case["vars"]]
    rep = [i for i, k in enumerate(kinds) if k in ("alias", "alias_var", "same_expr")]
    followed = bool(rep) and any(k in ("base", "expr") for k in kinds[rep[0] + 1:])
    return (case["method"], "repeat-followed" if followed else ("repeat-last" if rep else "distinct"),
            "np" in kinds, bool(case.get("select")), any(v.get("coord") for v in case["vars"]))


def gen_mapblocks(rng, func):
    sizes = rsizes(rng, z=0.35)
    chunks = {d: rchunk(rng, n, multi=rng.random() < 0.7) for d, n in sizes.items()}
    if rng.random() < 0.3:
        # a square grid of equal blocks: reading a transposed / wrong block goes unnoticed by shape checks
        sizes["y"] = sizes["x"]
        chunks["x"] = chunks["y"] = rng.randint(1, sizes["x"] // 2)
    order = list(sizes)
    vars_ = []

    def add(spec):
        spec["name"] = f"v{len(vars_)}"
        vars_.append(spec)

    add({"kind": "base", "dims": list(order)})
    perm = rng.random() < 0.6
    if perm:
        p = list(order)
        while p == order:
            rng.shuffle(p)
        add({"kind": "base", "dims": p})
    for _ in range(rng.randint(0 if perm else 1, 2)):
        r = rng.random()
        if r < 0.15:
            add({"kind": "np", "dims": rdims(rng, sizes)})
        elif r < 0.25:
            add({"kind": "alias", "of": rng.choice([v["name"] for v in vars_])})
        else:
            add({"kind": "base", "dims": rdims(rng, sizes, full=0.5)})
    if rng.random() < 0.3:
        add({"kind": "base" if rng.random() < 0.7 else "np", "dims": rdims(rng, sizes, full=0.7), "coord": True})
    case = {"fam": "mapblocks", "func": func, "sizes": sizes, "chunks": chunks, "vars": vars_,
            "template": rng.choice(["explicit", "none"]), "via": rng.choice(["function", "function", "method"]),
            "obj": "dataarray" if rng.random() < 0.25 else "dataset", "data_seed": rng.randrange(10**6)}
    if rng.random() < 0.3:
        sel = [v["name"] for v in vars_ if not v.get("coord")]
        rng.shuffle(sel)
        case["select"] = sel
    if case["obj"] == "dataarray":
        case["da_var"] = rng.choice([v["name"] for v in vars_ if not v.get("coord") and len(v.get("dims", order)) == len(order)])
    if func == "reduce":
        case["rdim"] = rng.choice(order)
        chunks[case["rdim"]] = sizes[case["rdim"]]       # dropping a multi-chunk dim is a documented refusal
    if func == "with_args":
        case["other_dims"] = rdims(rng, sizes, full=0.3)
        # xarray refuses an unchunked extra argument along a dim the object splits into several blocks
        case["other_chunked"] = rng.random() < 0.5 or any(nblocks(chunks[d], sizes[d]) > 1 for d in case["other_dims"])
    return case


def mapblocks_class(case):
    order = list(case["sizes"])
    perm = any(v.get("dims") and len(v["dims"]) == len(order) and v["dims"] != order and v["kind"] == "base" for v in case["vars"])
    multi = sum(nblocks(case["chunks"][d], n) > 1 for d, n in case["sizes"].items())
    return (case["func"], "perm" if perm else "ordered", min(multi, 2), case["template"], case["obj"], len(order))


def env_params(rng):
    sizes = {"x": rng.randint(4, 8), "y": rng.randint(5, 9)}
    return {"sizes": sizes, "chunks": {d: rchunk(rng, n, multi=True) for d, n in sizes.items()},
            "chunks_b": {d: rchunk(rng, n) for d, n in sizes.items()}, "nan": rng.randint(0, 2), "data_seed": rng.randrange(10**6)}


def gen_mgr(rng):
    out = []
    for m in MGR_SIMPLE:
        out.append(dict(env_params(rng), fam="mgr", method=m))
    for m in ("reduction", "reduction_keepdims", "scan", "scan_prod"):
        out.append(dict(env_params(rng), fam="mgr", method=m, axis=rng.randint(0, 1)))
    pool = ["A", "B", "V", "A2", "N"]
    for m in ("compute_dups", "compute_dups", "compute_dups", "persist_dups", "persist_dups"):
        pat = [rng.choice(pool) for _ in range(rng.randint(1, 4))]
        dup = rng.choice([p for p in pat if p != "N"] or ["A"])
        pat.insert(rng.randint(0, len(pat)), dup)
        if dup not in pat[:-1] or rng.random() < 0.7:
            pat.append(rng.choice(["B", "V", "A2"]))        # something else AFTER the repeat
        out.append(dict(env_params(rng), fam="mgr", method=m, pattern=pat))
    p = env_params(rng)
    out.append(dict(p, fam="mgr", method="rechunk", new_chunks=[rchunk(rng, p["sizes"]["x"]), rchunk(rng, p["sizes"]["y"])]))
    p = env_params(rng)
    out.append(dict(p, fam="mgr", method="from_array", new_chunks=[rchunk(rng, p["sizes"]["y"]), rchunk(rng, p["sizes"]["x"])]))
    for spec in ([rng.randint(1, 4), -1], "auto", [[1, 2, 3], rng.randint(1, 5)], rng.randint(1, 4)):
        out.append(dict(env_params(rng), fam="mgr", method="normalize_chunks", spec=spec, shape=[6, rng.randint(3, 9)]))
    for axis in (0, 1):
        p = env_params(rng)
        n = p["sizes"]["xy"[axis]]
        idx = list(range(n)) + [rng.randrange(n)]
        rng.shuffle(idx)
        cut = sorted(rng.sample(range(1, len(idx)), 2))
        out.append(dict(p, fam="mgr", method="shuffle", axis=axis, indexer=[idx[:cut[0]], idx[cut[0]:cut[1]], idx[cut[1]:]]))
    return out


# ------------------------------------------------------------------------------------ family: mutate

MUT_DIMS = {"u": ("x", "y"), "u2": ("x", "y"), "v": ("x",), "w": ("y", "x"), "h": ("x",)}
XR_COPIES = ["copy_default", "copy_deep", "copy_shallow", "copy_copy", "copy_deepcopy", "deepcopy_in_container", "pickle",
             "deep_load", "shallow_load", "deep_persist", "deep_of_shallow", "deepcopy_data", "copycopy_data", "copymethod_data"]
MUT_COPIES = {
    "dataarray": XR_COPIES,
    "dataset": XR_COPIES,
    "variable": [k for k in XR_COPIES if k != "deep_persist"],
    "datatree": ["copy_default", "copy_deep", "copy_shallow", "copy_copy", "copy_deepcopy", "deepcopy_in_container", "pickle",
                 "deep_load", "deep_persist"],
    "array": ["copy_copy", "copy_deepcopy", "deepcopy_in_container", "pickle", "arr_copy_method"],
}
AUG = ["iadd", "isub", "imul", "itruediv", "ipow", "imod"]
VAR_HOWS = ["setitem_dict", "setitem_pos", "loc_dict", "var_setitem", "data_setitem", "data_mask", "data_out",
            "data_out_other", "data_assign", "values_assign"] + AUG
DS_HOWS = ["ds_setitem_dict", "ds_loc", "ds_assign_var", "ds_update", "ds_coord_assign", "ds_new_var", "ds_where_assign"]
MUT_HOWS = {
    "dataarray": VAR_HOWS,
    "dataset": VAR_HOWS + DS_HOWS,
    "variable": ["setitem_pos", "data_setitem", "data_mask", "data_out", "data_out_other", "data_assign", "values_assign"] + AUG,
    "datatree": [h for h in VAR_HOWS if h not in AUG] + ["ds_assign_var", "ds_where_assign"],
    "array": ["data_setitem", "data_mask", "data_out", "data_out_other"] + AUG,
}
MUT_READS = ["values", "values", "sum_x", "mean_all", "cumsum_x", "rolling_x", "plus_other"]
MUT_DERIVES = ["add1", "mul_self", "sum_y", "neg"]
MUT_OBJS = ["dataarray", "dataset", "variable", "datatree", "array"]


def _entry(rng, n, arrays=True):
    r = rng.random()
    if r < 0.35:
        return rng.randint(-n, n - 1)
    if r < 0.75 or not arrays:
        a = rng.randint(0, n - 1)
        b = rng.randint(a + 1, n)
        st = rng.choice([None, None, None, 2, -1])
        if st == -1:
            return {"s": [b - 1, (a - 1) if a > 0 else None, -1]}
        return {"s": [a if rng.random() < 0.8 else None, b if rng.random() < 0.8 else None, st]}
    if r < 0.9:
        return {"l": rng.sample(range(n), rng.randint(1, min(3, n)))}
    m = [rng.random() < 0.5 for _ in range(n)]
    m[rng.randrange(n)] = True
    return {"b": m}


def _label(d, e):
    """a positional entry turned into a label entry (x labels are 0..n-1, y labels 0,10,20..; label slices are inclusive)"""
    f = 10 if d == "y" else 1
    if isinstance(e, int):
        return abs(e) * f
    if "l" in e:
        return {"l": [i * f for i in e["l"]]}
    return e


def _has_array(e):
    return isinstance(e, dict) and ("l" in e or "b" in e)


def _no_int_next_to_array(entries, ns, labels=None):
    """xarray refuses (for every chunked backend) an assignment whose key has more than one non-slice entry unless all
    of them are ints: next to an array indexer, ints become unit slices"""
    if not any(_has_array(e) for e in entries):
        return entries
    out = []
    for e, n, f in zip(entries, ns, labels or [None] * len(ns)):
        if isinstance(e, int):
            i = (e // f) if f else e % n
            e = {"s": [i * f, i * f, None]} if f else {"s": [i, i + 1, None]}
        out.append(e)
    return out


def _mkey(rng, dims, sizes, form):
    """form: dict (by dim name, a random non-empty subset), pos (a tuple for a prefix of the dims), loc (labels)"""
    arrays_left = 1                                    # xarray refuses several array indexers on chunked data
    if form == "pos":
        k = rng.randint(1, len(dims))
        out = []
        for d in dims[:k]:
            e = _entry(rng, sizes[d], arrays_left > 0)
            if isinstance(e, dict) and ("l" in e or "b" in e):
                arrays_left -= 1
            out.append(e)
        if rng.random() < 0.15 and len(dims) > 1:
            return ["...", _entry(rng, sizes[dims[-1]], True)]
        return _no_int_next_to_array(out, [sizes[d] for d in dims[:k]])
    ds = rng.sample(list(dims), rng.randint(1, len(dims)))
    out = {}
    for d in ds:
        n = sizes[d]
        if form == "loc":
            r = rng.random()
            if r < 0.4:
                e = rng.randint(0, n - 1)
            elif r < 0.8 or arrays_left <= 0:
                a = rng.randint(0, n - 1)
                e = {"s": [a * (10 if d == "y" else 1), rng.randint(a, n - 1) * (10 if d == "y" else 1), None]}
                out[d] = e
                continue
            else:
                e = {"l": rng.sample(range(n), rng.randint(1, min(3, n)))}
                arrays_left -= 1
            out[d] = _label(d, e)
        else:
            e = _entry(rng, n, arrays_left > 0)
            if isinstance(e, dict) and ("l" in e or "b" in e):
                arrays_left -= 1
            out[d] = e
    ks = list(out)
    fixed = _no_int_next_to_array([out[d] for d in ks], [sizes[d] for d in ks],
                                  [(10 if d == "y" else 1) for d in ks] if form == "loc" else None)
    return dict(zip(ks, fixed))


def _mval(rng, scalar_only=False):
    r = rng.random()
    if scalar_only or r < 0.45:
        return {"kind": "scalar", "v": float(rng.choice([99, -77, 55, 0, 123]))}
    return {"kind": rng.choice(["array", "dataarray", "lazy"]), "seed": rng.randrange(10**6)}


def gen_mut(rng, case, on, how=None):
    obj, sizes = case["obj"], case["sizes"]
    how = how or rng.choice(MUT_HOWS[obj])
    st = {"do": "mut", "on": on, "how": how}
    if obj == "dataarray":
        var = "h" if rng.random() < 0.2 else None
        dims = MUT_DIMS["h"] if var else MUT_DIMS["u"]
    elif obj == "dataset":
        var = rng.choice(["u", "u", "v", "w", "h"] + (["u2"] if case.get("alias") else []))
        dims = MUT_DIMS[var]
    elif obj == "datatree":
        if rng.random() < 0.5:
            st["node"], var = "child", rng.choice(["w"] + (["u2"] if case.get("alias") else []))
        else:
            var = rng.choice(["u", "v"])
        dims = MUT_DIMS[var]
    else:
        var, dims = None, MUT_DIMS["u"]
    if how in DS_HOWS or (how in AUG and obj == "dataset" and rng.random() < 0.35):
        if how in ("ds_setitem_dict", "ds_loc"):
            d = "x"                                    # the one dim every variable has
            st["key"] = _mkey(rng, [d], sizes, "loc" if how == "ds_loc" else "dict")
            if any(isinstance(e, dict) and "b" in e for e in st["key"].values()):
                st["key"] = {d: 1}
            st["val"] = _mval(rng, scalar_only=True)
        elif how == "ds_coord_assign":
            st["seed"] = rng.randrange(10**6)
        elif how in AUG:
            st["k"] = float(rng.choice([2, 3]))
        else:
            st["var"] = var if var != "h" else "u"
            st["k"] = float(rng.choice([2, 3, -1]))
            if how == "ds_where_assign":
                st["thr"] = float(rng.randint(-2, 6))
        return st
    if var is not None:
        st["var"] = var
    if how in ("setitem_dict", "loc_dict"):
        st["key"] = _mkey(rng, dims, sizes, "loc" if how == "loc_dict" else "dict")
        st["val"] = _mval(rng)
    elif how in ("setitem_pos", "var_setitem", "data_setitem"):
        st["key"] = _mkey(rng, dims, sizes, "pos")
        st["val"] = _mval(rng)
        if how == "data_setitem" and st["val"]["kind"] == "dataarray":
            st["val"]["kind"] = "array"
    elif how == "data_mask":
        st["thr"] = float(rng.randint(-2, 6))
        st["val"] = _mval(rng, scalar_only=True)
    elif how in ("data_out", "data_assign"):
        st["k"] = float(rng.choice([1, 2, -3]))
    elif how in ("data_out_other", "values_assign"):
        st["seed"] = rng.randrange(10**6)
        st["lazy_other"] = rng.random() < 0.5
    elif how in AUG:
        st["k"] = float(rng.choice([2, 3]))
        if rng.random() < 0.4:
            st["other"], st["seed"], st["lazy_other"] = True, rng.randrange(10**6), rng.random() < 0.5
        if obj == "dataset" and rng.random() < 0.5:
            st["via_item"] = True
    return st


def gen_mutate(rng, obj, kind, how=None, peek=False):
    sizes = {"x": rng.randint(4, 7), "y": rng.randint(4, 8)}
    case = {"fam": "mutate", "obj": obj, "sizes": sizes, "chunks": {d: rchunk(rng, n, multi=True) for d, n in sizes.items()},
            "data_seed": rng.randrange(10**6), "read": rng.choice(MUT_READS)}
    if case["read"] == "rolling_x":
        # xarray's stock dask manager refuses a moving window wider than a chunk; keep the case judgeable by both
        case["chunks"]["x"] = rng.randint(2, max(2, sizes["x"] // 2))
    if obj in ("dataset", "datatree") and rng.random() < 0.45:
        case["alias"] = True
    steps = []
    if rng.random() < 0.25:
        steps.append(gen_mut(rng, case, "o"))                 # the original already carries an assignment when copied
    if rng.random() < 0.25:
        steps.append({"do": "derive", "src": "o", "dst": "d", "how": rng.choice(MUT_DERIVES)})
    steps.append({"do": "copy", "src": "o", "dst": "c", "kind": kind})
    if rng.random() < 0.15:
        steps.append({"do": "derive", "src": "c", "dst": "dc", "how": rng.choice(MUT_DERIVES)})
    target = "c" if rng.random() < 0.65 else "o"
    if peek or rng.random() < 0.25:
        # computed once BEFORE it (or its twin) is changed
        steps.append({"do": "peek", "on": target if peek else rng.choice(["o", "c"])})
    steps.append(gen_mut(rng, case, target, how))
    r = rng.random()
    if r < 0.3:
        steps.append(gen_mut(rng, case, "o" if target == "c" else "c"))
    elif r < 0.5:
        src = rng.choice(["o", "c"])
        steps.append({"do": "copy", "src": src, "dst": "c2", "kind": rng.choice(MUT_COPIES[obj])})
        steps.append(gen_mut(rng, case, rng.choice(["c2", src])))
    case["steps"] = steps
    return case


def gen_mutate_cases(rng, tier):
    """every copy kind of every object kind in every run (each with a random in-place operation), and every in-place
    operation of every object kind (each after a random copy kind), once plainly and once on an object that has
    already been computed"""
    out = []
    reps = 3 if tier == "thorough" else 1
    for _ in range(reps):
        for obj in MUT_OBJS:
            for kind in MUT_COPIES[obj]:
                out.append(gen_mutate(rng, obj, kind))
            for how in MUT_HOWS[obj]:
                out.append(gen_mutate(rng, obj, rng.choice(MUT_COPIES[obj]), how))
                out.append(gen_mutate(rng, obj, rng.choice(MUT_COPIES[obj]), how, peek=True))   # compute, change, compute
    return out


def mutate_main(case):
    """(copy kind, how, target) of the first mutation that follows the first copy"""
    kind = next(st["kind"] for st in case["steps"] if st["do"] == "copy")
    seen = False
    for st in case["steps"]:
        seen = seen or st["do"] == "copy"
        if seen and st["do"] == "mut":
            return kind, st["how"], "on-copy" if st["on"] != "o" else "on-original"
    return kind, "none", "none"


def gen_cases(rng, tier):
    thorough = tier == "thorough"
    cases = []
    for m in DSLOAD_METHODS:
        for _ in range(8 if thorough else 3):
            cases.append(gen_dsload(rng, m))
    for f in MBFUNCS:
        for _ in range(12 if thorough else 4):
            cases.append(gen_mapblocks(rng, f))
    for _ in range(3 if thorough else 1):
        for v in _table_names("UFUNCS"):
            cases.append(dict(env_params(rng), fam="ufunc", variant=v))
        for o in _table_names("ROUTES"):
            cases.append(dict(env_params(rng), fam="route", op=o))
        cases += gen_mgr(rng)
    cases += gen_mutate_cases(rng, tier)
    return cases


def key_of(case):
    if case["fam"] == "mutate":
        return mutate_main(case)[0]
    return case.get("method") or case.get("func") or case.get("variant") or case.get("op")


def class_of(case):
    if case["fam"] == "dsload":
        return ("xr", "dsload") + dsload_class(case)
    if case["fam"] == "mapblocks":
        return ("xr", "mapblocks") + mapblocks_class(case)
    if case["fam"] == "mutate":
        return ("xr", "mutate", case["obj"]) + mutate_main(case) + (case["read"], len(case["steps"]) > 2)
    nb = tuple(min(nblocks(case["chunks"][d], n), 3) for d, n in case["sizes"].items())
    return ("xr", case["fam"], key_of(case), nb, case["chunks"] == case.get("chunks_b"))


# ------------------------------------------------------------------------------------ running

def run_child(mode, cases, env, timeout=900):
    p = subprocess.run([PY, str(CHILD), mode], input=json.dumps(cases), capture_output=True, text=True,
                       cwd=tempfile.gettempdir(), env=env, timeout=timeout)
    for line in p.stdout.splitlines():
        if line.startswith("RESULT "):
            r = json.loads(line[7:])
            if mode == "registered" and str(core.REPO) != "/repo" and not str(r["dask_array_file"]).startswith(str(core.REPO)):
                raise RuntimeError(f"child imported {r['dask_array_file']} instead of the copy under {core.REPO}")
            return r["results"]
    raise RuntimeError(f"C26 xarray child ({mode}) crashed: " + (p.stderr or p.stdout)[-800:])


class Stream:
    """Starts the children in the background (so the import-order interpreters run concurrently) and judges later."""

    def __init__(self, ctx, env, workers=6):
        self.ctx, self.env = ctx, env
        self.cases = gen_cases(ctx.rng, ctx.tier)
        self.workers = workers
        self.pool = ThreadPoolExecutor(2 * workers)
        parts = [self.cases[k::workers] for k in range(workers)]
        self.parts = parts
        self.fut = {mode: [self.pool.submit(run_child, mode, part, env) for part in parts] for mode in ("registered", "stock")}

    def results(self, mode):
        out = [None] * len(self.cases)
        for k, f in enumerate(self.fut[mode]):
            for j, r in enumerate(f.result()):
                out[k + j * self.workers] = r
        return out

    def finish(self):
        ctx = self.ctx
        reg, stock = self.results("registered"), self.results("stock")
        self.pool.shutdown()
        hist, entered, artefacts, refusals, shared = {}, set(), {}, {}, {}
        suspects = []
        for case, r, s in zip(self.cases, reg, stock):
            ctx.count(class_of(case))
            kind = r["verdict"].split(" ")[0]
            hist[f"{case['fam']}:{kind}"] = hist.get(f"{case['fam']}:{kind}", 0) + 1
            entered.update(r["calls"])
            if kind == "numpy-raises":
                artefacts[f"{case['fam']}:{key_of(case)}"] = r["verdict"][:160]
            elif kind in ("mismatch", "compare-error"):
                if excused(case, r, s):
                    shared[f"{case['fam']}:{key_of(case)}:{mutate_main(case)[1]}"] = r["verdict"][:100]
                else:
                    suspects.append((case, r, s))
            elif kind == "raises":
                if s["verdict"] == "ok":
                    suspects.append((case, r, s))
                else:
                    refusals[f"{case['fam']}:{key_of(case)}"] = r["verdict"][:120] + " | stock: " + s["verdict"][:60]
        # one report per signature (wrong values before refusals), confirmed on its own in a fresh interpreter;
        # the first few are shrunk; all of it in parallel, recorded in a deterministic order
        suspects.sort(key=lambda t: t[1]["verdict"].startswith("raises"))
        todo, seen = [], set()
        for case, r, s in suspects:
            sig = signature(case, r["verdict"])
            if sig not in seen and len(todo) < 10:
                seen.add(sig)
                todo.append((case, r["verdict"], len(todo) < 4))
        if todo:
            with ThreadPoolExecutor(len(todo)) as ex:
                for sig, case, what in ex.map(lambda t: report(self.env, *t), todo):
                    ctx.fail(sig, case, what)
        meths = manager_methods()
        ctx.notes["xr_cases"] = hist
        ctx.notes["manager_methods_in_source"] = len(meths)
        ctx.notes["manager_methods_never_entered"] = sorted(m for m in meths if m not in entered)
        if artefacts:
            ctx.extra["xr_oracle_raises (harness artefacts, not counted)"] = artefacts
        if refusals:
            ctx.extra["xr_refusals_shared_with_stock_manager (not counted)"] = refusals
        if shared:
            # NumPy view / shared-memory semantics no chunked array has (shallow copies, in-place operators): the stock
            # dask manager produces exactly the same values as the registered one
            ctx.extra["xr_mutate_numpy_aliasing_shared_with_stock_manager (not counted)"] = dict(sorted(shared.items())[:40])
            ctx.notes["xr_mutate_excused_same_as_stock"] = len(shared)
        mid = len(self.cases) // 3
        ctx.sample({"xr_case": self.cases[mid], "verdict": reg[mid]["verdict"], "manager_methods_entered": reg[mid]["calls"]})


SHALLOW_KINDS = {"copy_shallow", "shallow_load", "copy_copy", "copy_default"}


def aliasing_hazard(case):
    """does the NumPy-backed run of a mutate script share memory between two of its objects (which no chunked run does)"""
    if case.get("alias"):
        return True
    for st in case["steps"]:
        if st["do"] == "derive" and case["obj"] in ("dataarray", "dataset", "datatree"):
            return True                                    # the result of arithmetic shares its coordinates' memory
        if st["do"] == "copy" and st["kind"] in SHALLOW_KINDS:
            if case["obj"] == "array" or (st["kind"] == "copy_default" and case["obj"] in ("dataarray", "variable")):
                continue                                   # real copies
            return True
    return False


def excused(case, r, s):
    """mutate family only: a difference from the NumPy-backed run is excused when xarray's stock dask manager yields
    the very same values (NumPy's shared-memory semantics of shallow copies / in-place operators, which no chunked
    array has), or when the stock manager refuses the script and the script does share memory in its NumPy-backed
    run (nothing to judge it by) -- never when the stock run agrees with NumPy or yields anything else"""
    if case["fam"] != "mutate" or not r["verdict"].startswith("mismatch"):
        return False
    if s["verdict"].startswith("mismatch"):
        return r.get("digest") is not None and r.get("digest") == s.get("digest")
    return s["verdict"].startswith("raises") and aliasing_hazard(case)


def signature(case, verdict):
    kind = "xr-raises" if verdict.startswith("raises") else "xr"
    return f"C26:{kind}:{case['fam']}:{key_of(case)}"


def judge_single(env, case):
    """→ verdict of the registered run if it is a failure of the property, else None (one fresh interpreter per mode)."""
    r = run_child("registered", [case], env)[0]
    v = r["verdict"]
    if v.startswith("mismatch") and case["fam"] == "mutate":
        s = run_child("stock", [case], env)[0]
        if excused(case, r, s):
            return None
        return v + (" (the stock dask manager agrees with NumPy)" if s["verdict"] == "ok" else " (stock: " + s["verdict"][:60] + ")")
    if v.startswith("mismatch") or v.startswith("compare-error"):
        return v
    if v.startswith("raises"):
        s = run_child("stock", [case], env)[0]
        if s["verdict"] == "ok":
            return v + " (the stock dask manager computes it)"
    return None


def shrink_candidates(case):
    """smaller variants of a dsload / mapblocks case: one variable dropped (references kept valid), no selection"""
    out = []
    if case["fam"] == "mutate":
        steps = case["steps"]
        for i in range(len(steps) - 1, -1, -1):
            gone = {steps[i]["dst"]} if steps[i]["do"] in ("copy", "derive") else set()
            if "c" in gone and steps[i]["do"] == "copy" and steps[i]["dst"] == "c":
                continue                                   # the first copy is what the case is about
            keep = [st for j, st in enumerate(steps) if j != i and st.get("src") not in gone and st.get("on") not in gone]
            while keep and keep[-1]["do"] == "peek":
                keep.pop()
            if any(st["do"] == "mut" for st in keep):
                out.append(dict(copy.deepcopy(case), steps=copy.deepcopy(keep)))
        if case.get("read") != "values":
            out.append(dict(copy.deepcopy(case), read="values"))
        if case.get("alias") and not any(st.get("var") == "u2" for st in steps):
            c = copy.deepcopy(case)
            c.pop("alias")
            out.append(c)
        return out
    if "vars" not in case:
        return out
    if case.get("select"):
        c = copy.deepcopy(case)
        c.pop("select")
        out.append(c)
    vs = case["vars"]
    for i in range(len(vs) - 1, -1, -1):
        n = vs[i]["name"]
        if any(v.get("of") == n or v.get("other") == n for v in vs) or case.get("da_var") == n or len(vs) <= 1:
            continue
        c = copy.deepcopy(case)
        del c["vars"][i]
        if c.get("select"):
            c["select"] = [s for s in c["select"] if s != n]
            if not c["select"]:
                continue
        if not any(not v.get("coord") for v in c["vars"]):
            continue
        out.append(c)
    for d in list(case["sizes"]):
        if d == "z" and not any("z" in v.get("dims", []) for v in vs) and "z" not in (case.get("other_dims") or []) and case.get("rdim") != "z":
            c = copy.deepcopy(case)
            c["sizes"].pop("z")
            c["chunks"].pop("z", None)
            out.append(c)
    return out


def report(env, case, verdict, minimise=False):
    """confirm a suspect in a fresh interpreter on its own, shrink it → (signature, case dict, what)"""
    sig = signature(case, verdict)
    v = judge_single(env, case)
    if v is None:
        # not reproducible on its own: depends on what ran before it in the same interpreter -- report as such
        return sig + ":batch-only", {"xr_case": case, "note": "seen only after other cases in the same interpreter"}, verdict
    if minimise:
        small = case
        for _ in range(4):
            cands = shrink_candidates(small)
            if not cands:
                break
            rs = run_child("registered", cands, env)      # one fresh interpreter evaluates all candidates
            nxt = [c for c, r in zip(cands, rs) if r["verdict"].split(" ")[0] == v.split(" ")[0]]
            if nxt and case["fam"] == "mutate":          # keep only candidates the stock manager does not share
                ss = run_child("stock", nxt, env)
                byid = {id(c): r for c, r in zip(cands, rs)}
                nxt = [c for c, s2 in zip(nxt, ss) if not excused(c, byid[id(c)], s2)]
            if not nxt:
                break
            small = nxt[0]
        if small is not case:
            vv = judge_single(env, small)
            if vv is not None and vv.split(" ")[0] == v.split(" ")[0]:
                case, v = small, vv
    return sig, {"xr_case": case}, v


def replay(ctx, env, case):
    v = judge_single(env, case)
    if v is not None:
        ctx.fail(signature(case, v), {"xr_case": case}, v)
    ctx.count(("replay-xr",))
