"""Streams shared by C21 and C22 (third round): the FUSED-layer program space and SAME-NAME histories.

(a) FUSED cases — expressions that lower to one FusedBlockwise node whose pure-Python records layer
    (dask_array/_frisky/fused_blockwise.py) derives every block's record from ONE block's fused subgraph
    (analytical / uniform / site-based / seeded fast paths) or falls back to per-block records:
      * map_blocks / Array.map_blocks / blockwise with user functions taking block_id= / block_info= / positional
        ArrayChunkShapeDep / ArrayBlockIdDep arguments — one or several at once — WITH extra positional literals,
        keyword literals (the function has defaults for them) and dask objects in keyword arguments, on ragged
        chunks (so the per-block literals differ in every block), below / above elementwise neighbours that fuse;
      * one source read at SEVERAL sites of one fused expression with equal and with transposed / permuted /
        broadcast block maps (x*x + x.T, (x - x.T)*x, x @ x.T next to elementwise ops, v[:, None]*v[None, :],
        t + t.transpose(2, 1, 0)), square and non-square grids, every off-diagonal block compared;
      * creation ops with ragged chunks and map_overlap (block-position literals of the library's own).
    Oracle: records complete, flat, executed with declared dependencies only == executed __dask_graph__ == a per-block
    NumPy evaluation (C21); per record key the dependencies of the node's `_layer()` task (C22, layer_fidelity).
(b) SAME-NAME cases — several arrays created in ONE process under the same user-supplied name= (from_array / creation
    functions / map_blocks / from_delayed) with different block grids and/or different data, in both orders (coarser
    grid first, finer grid first), each consumed through layers that go through the generic records adapter with legacy
    (func, *args) tasks (cumsum, arg-reductions, map_overlap, …) and through the other layer kinds.  Same oracle per
    (array, consumer).  During the search every case uses a name of its own (process-wide state of earlier cases
    cannot reach it, so a failure replays in a fresh interpreter from the case dict alone).

All cases are plain JSON dicts.
"""
from __future__ import annotations

import gc
import itertools
import random

import numpy as np

from harness import graphs
from harness.props_ext import c21_nested as CN

M = CN.M


# ------------------------------------------------------------------------------------------ block functions

def _info_digest(bi):
    """position-sensitive digest of a block_info dict (integer keys = positional array arguments, None = the output)"""
    items = []
    for k in sorted(bi, key=lambda k: -1 if k is None else int(k)):
        d = bi[k]
        it = [-1 if k is None else int(k), [int(v) for v in d["shape"]], [int(v) for v in d["num-chunks"]],
              [[int(a), int(b)] for a, b in d["array-location"]], [int(v) for v in d["chunk-location"]]]
        if k is None:
            it.append([int(v) for v in d["chunk-shape"]])
        items.append(it)
    return CN.fold(items)


def _core(b, extra, block_id, block_info, gain, offset, w):
    out = b * gain + offset
    rest = []
    for i, a in enumerate(extra):
        if isinstance(a, np.ndarray) and a.ndim == b.ndim and a.ndim > 0:
            out = out + (i + 2) * a  # another array operand's block
        else:
            rest.append([i, a])
    d = CN.fold(rest) * 7
    if block_id is not None:
        d += 13 * CN.fold(tuple(int(v) for v in block_id))
    if block_info is not None:
        d += 29 * _info_digest(block_info)
    if w is not None:
        d += 3 * CN.fold(w)
    return out + d % M


def fb_plain(b, *a, gain=1, offset=0, w=None):
    return _core(b, a, None, None, gain, offset, w)


def fb_bid(b, *a, block_id=None, gain=1, offset=0, w=None):
    return _core(b, a, block_id, None, gain, offset, w)


def fb_info(b, *a, block_info=None, gain=1, offset=0, w=None):
    return _core(b, a, None, block_info, gain, offset, w)


def fb_both(b, *a, block_id=None, block_info=None, gain=1, offset=0, w=None):
    return _core(b, a, block_id, block_info, gain, offset, w)


def _fn(spec):
    return {(False, False): fb_plain, (True, False): fb_bid, (False, True): fb_info, (True, True): fb_both}[(bool(spec.get("bid")), bool(spec.get("binfo")))]


def ov_inc(b):
    return b + 1


def ov_twice(b):
    return b * 2


# ------------------------------------------------------------------------------------------ expressions
# expr := ["src", i] | ["T", e] | ["perm", e, axes] | ["bin", op, e, e] | ["sc", op, e, c] | ["mm", e, e]
#       | ["mb", spec, [e, …]] | ["ov", e, depth, boundary] | ["ones", i] | ["full", i, v] | ["exp", e, axis]
#       | ["bar", e]  (a rechunk to the same chunks through one block: a non-fusing barrier)
# spec := {api: "da" | "method" | "blockwise", bid, binfo, deps: ["shape" | "bid", …], pos: [literal, …],
#          kw: {gain / offset: int}, dkw: None | argument tree of c21_nested for w=, name: None | str}

BINOPS = ("add", "sub", "mul", "maximum", "minimum")


def _slices(chunks, bid):
    out = []
    for ch, i in zip(chunks, bid):
        s = int(sum(ch[:i]))
        out.append(slice(s, s + int(ch[i])))
    return tuple(out)


def _np_map_blocks(spec, arrs, chunks, w):
    """per-block NumPy evaluation: arrs ndarrays, chunks their block structures (same numblocks each)"""
    f = _fn(spec)
    oc = chunks[0]
    nb = tuple(len(c) for c in oc)
    out = np.empty(arrs[0].shape, dtype=np.int64)
    for bid in itertools.product(*(range(n) for n in nb)):
        blocks = [a[_slices(ch, bid)] for a, ch in zip(arrs, chunks)]
        extra = []
        for dkind in spec.get("deps", []):
            extra.append(tuple(int(oc[d][bid[d]]) for d in range(len(nb))) if dkind == "shape" else tuple(int(v) for v in bid))
        extra += [_lit(p) for p in spec.get("pos", [])]
        kw = dict(spec.get("kw", {}))
        if w is not None:
            kw["w"] = w
        if spec.get("bid"):
            kw["block_id"] = tuple(bid)
        if spec.get("binfo"):
            bi = {}
            for i, (a, ch) in enumerate(zip(arrs, chunks)):
                sl = _slices(ch, bid)
                bi[i] = {"shape": a.shape, "num-chunks": tuple(len(c) for c in ch), "array-location": [(s.start, s.stop) for s in sl], "chunk-location": tuple(bid)}
            sl = _slices(oc, bid)
            bi[None] = {"shape": arrs[0].shape, "num-chunks": nb, "array-location": [(s.start, s.stop) for s in sl], "chunk-location": tuple(bid),
                        "chunk-shape": tuple(s.stop - s.start for s in sl)}
            kw["block_info"] = bi
        out[_slices(oc, bid)] = f(*blocks, *extra, **kw)
    return out


def _lit(p):
    return tuple(_lit(x) for x in p) if isinstance(p, list) else p


def _ev(t, srcs, made):
    """(dask array, ndarray) of the expression"""
    import dask_array as da

    k = t[0]
    if k == "src":
        return srcs[t[1]]
    if k == "T":
        x, a = _ev(t[1], srcs, made)
        return x.T, a.T
    if k == "perm":
        x, a = _ev(t[1], srcs, made)
        return x.transpose(tuple(t[2])), a.transpose(tuple(t[2]))
    if k == "bin":
        (x, a), (y, b) = _ev(t[2], srcs, made), _ev(t[3], srcs, made)
        if t[1] in ("maximum", "minimum"):
            return getattr(da, t[1])(x, y), getattr(np, t[1])(a, b)
        op = {"add": lambda p, q: p + q, "sub": lambda p, q: p - q, "mul": lambda p, q: p * q}[t[1]]
        return op(x, y), op(a, b)
    if k == "sc":
        x, a = _ev(t[2], srcs, made)
        op = {"add": lambda p, q: p + q, "sub": lambda p, q: p - q, "mul": lambda p, q: p * q, "rsub": lambda p, q: q - p}[t[1]]
        return op(x, t[3]), op(a, t[3])
    if k == "mm":
        (x, a), (y, b) = _ev(t[1], srcs, made), _ev(t[2], srcs, made)
        return x @ y, a @ b
    if k == "exp":
        x, a = _ev(t[1], srcs, made)
        idx = tuple(None if d == t[2] else slice(None) for d in range(a.ndim + 1))
        return x[idx], a[idx]
    if k == "bar":
        x, a = _ev(t[1], srcs, made)
        return x.rechunk(tuple(-1 for _ in x.shape)).rechunk(x.chunks), a
    if k in ("ones", "full"):
        x0, a0 = srcs[t[1]]
        if k == "ones":
            return da.ones(a0.shape, chunks=x0.chunks, dtype="int64"), np.ones(a0.shape, dtype=np.int64)
        return da.full(a0.shape, t[2], chunks=x0.chunks, dtype="int64"), np.full(a0.shape, t[2], dtype=np.int64)
    if k == "ov":
        x, a = _ev(t[1], srcs, made)
        f = ov_inc if len(t) < 5 or t[4] == "inc" else ov_twice
        depth = {int(d): v for d, v in t[2].items()} if isinstance(t[2], dict) else t[2]  # JSON keys are strings
        return x.map_overlap(f, depth=depth, boundary=t[3], dtype="int64"), f(a)
    if k == "mb":
        from dask.layers import ArrayBlockIdDep, ArrayChunkShapeDep

        spec = t[1]
        ops = [_ev(e, srcs, made) for e in t[2]]
        xs = [x for x, _ in ops]
        f = _fn(spec)
        deps = [ArrayChunkShapeDep(xs[0].chunks) if d == "shape" else ArrayBlockIdDep(xs[0].chunks) for d in spec.get("deps", [])]
        pos = [_lit(p) for p in spec.get("pos", [])]
        kw = dict(spec.get("kw", {}))
        wnp = None
        if spec.get("dkw") is not None:
            kw["w"] = CN.tree_dask(spec["dkw"], made)
            wnp = CN.tree_np(spec["dkw"])
        if spec.get("name"):
            kw["name"] = spec["name"]
        api = spec.get("api", "da")
        if api == "da":
            y = da.map_blocks(f, *xs, *deps, *pos, dtype="int64", **kw)
        elif api == "method":
            y = xs[0].map_blocks(f, *xs[1:], *deps, *pos, dtype="int64", **kw)
        elif api == "blockwise":
            ind = tuple(range(xs[0].ndim))
            pairs = []
            for x in xs:
                pairs += [x, ind]
            for d in deps:
                pairs += [d, ind]
            for p in pos:
                pairs += [p, None]
            y = da.blockwise(f, ind, *pairs, dtype="int64", **kw)
        else:
            raise ValueError(api)
        return y, _np_map_blocks(spec, [a for _, a in ops], [x.chunks for x in xs], wnp)
    raise ValueError(k)


def build_fused(case):
    """{name: collection}: 'y' the result (after the optional post op), 'core' the expression itself, 's0', 's1', … the
    sources, 'n0', … dask arrays nested in keyword arguments; '_expected': {name: ndarray}"""
    import dask_array as da

    srcs = []
    for s in case["srcs"]:
        a = CN.src_data(tuple(s["shape"]), s.get("mul", 3), s.get("off", 1), s.get("mod", 17))
        kw = {"name": s["name"]} if s.get("name") else {}
        srcs.append((da.from_array(a, chunks=tuple(tuple(c) for c in s["chunks"]), **kw), a))
    made = []
    y, a = _ev(case["expr"], srcs, made)
    env = {"core": y, "y": CN._apply_side(case.get("post"), y, True)}
    exp = {"core": a, "y": CN._apply_side(case.get("post"), a, False)}
    for i, (x, b) in enumerate(srcs):
        env[f"s{i}"] = x
        exp[f"s{i}"] = b
    for i, n in enumerate(made):
        env[f"n{i}"] = n
    env["_expected"] = exp
    return env


def fused_paths(y):
    """which derivation the pure-Python FusedBlockwiseLayer takes for every FusedBlockwise node below y"""
    from dask_array._frisky.fused_blockwise import FusedBlockwiseLayer

    out = []
    for n in y._lowered_expr.walk():
        if type(n).__name__ != "FusedBlockwise":
            continue
        layer = FusedBlockwiseLayer(n)
        for nm in ("_analytical_site_spec", "_fast_spec_uniform", "_site_based_spec", "_seed_spec"):
            try:
                if getattr(layer, nm)() is not None:
                    out.append(nm.strip("_").replace("_spec", ""))
                    break
            except Exception as e:
                out.append(nm + "-raises:" + type(e).__name__)
                break
        else:
            out.append("per-block")
    return tuple(sorted(out))


def _kids(t):
    k = t[0]
    if k in ("src", "ones", "full"):
        return []
    if k in ("T", "perm", "exp", "bar", "ov"):
        return [t[1]]
    if k == "bin":
        return [t[2], t[3]]
    if k == "sc":
        return [t[2]]
    if k == "mm":
        return [t[1], t[2]]
    if k == "mb":
        return list(t[2])
    raise ValueError(k)


def _with_kids(t, kids):
    k = t[0]
    if k in ("T", "perm", "exp", "bar", "ov"):
        return [k, kids[0]] + list(t[2:])
    if k == "bin":
        return [k, t[1], kids[0], kids[1]]
    if k == "sc":
        return [k, t[1], kids[0], t[3]]
    if k == "mm":
        return [k, kids[0], kids[1]]
    if k == "mb":
        return [k, t[1], list(kids)]
    return t


def _shape_of(t):
    """coarse description of an expression: operator multiset, number of reads of source 0, number of distinct (source, block map) pairs"""
    ops, reads, maps = [], [0], set()

    def rec(t, m):
        k = t[0]
        if k == "src":
            reads[0] += t[1] == 0
            maps.add((t[1], m))
        elif k == "mb":
            s = t[1]
            ops.append("mb:" + s.get("api", "da") + ":" + ("i" if s.get("bid") else "") + ("I" if s.get("binfo") else "") + "".join(d[0] for d in s.get("deps", []))
                       + (":p%d" % len(s.get("pos", []))) + (":k%d" % len(s.get("kw", {}))) + (":w" if s.get("dkw") is not None else ""))
        else:
            ops.append(k if k not in ("bin", "sc") else k + ":" + t[1])
        for e in _kids(t):
            rec(e, m + (k,) if k in ("T", "perm", "exp") else m)

    rec(t, ())
    return tuple(sorted(ops))[:6], reads[0], len(maps)


def fused_class(case, paths=()):
    ragged = any(len(set(c)) > 1 for s in case["srcs"] for c in s["chunks"])
    nb = tuple(len(c) for c in case["srcs"][0]["chunks"])
    return ("fused",) + _shape_of(case["expr"]) + (case.get("post"), case["optimize"], ragged, len(set(nb)) > 1, paths)


# ------------------------------------------------------------------------------------------ generators

def _sym_chunks(rng, n, ragged=None):
    """a chunking of n (>= 2 blocks when n >= 2); ragged=True forces blocks of different sizes"""
    for _ in range(50):
        k = rng.randint(2, min(4, n)) if n >= 2 else 1
        cuts = sorted(rng.sample(range(1, n), k - 1)) if k > 1 else []
        ch = [b - a for a, b in zip([0] + cuts, cuts + [n])]
        if ragged is None or (len(set(ch)) > 1) == ragged or n < 3:
            return ch
    return ch


def _src(rng, shape, chunks, **kw):
    d = {"shape": list(shape), "chunks": [list(c) for c in chunks], "mul": rng.choice((3, 5, 7)), "off": rng.randint(0, 5), "mod": rng.choice((11, 13, 17))}
    d.update(kw)
    return d


def _case(rng, srcs, expr, post=None, optimize=True, roots=("y",), **extra):
    case = {"kind": "fused", "srcs": srcs, "expr": expr, "post": post, "optimize": optimize, "roots": list(roots), "shared": True,
            "oseed": rng.randrange(10**6), "history": "group"}
    case.update(extra)
    return case


def _square(rng, ragged=None, n=None):
    n = n or rng.randint(4, 7)
    ch = _sym_chunks(rng, n, ragged)
    return _src(rng, [n, n], [ch, ch])


def _rect(rng, ragged=None):
    n, m = rng.randint(4, 7), rng.randint(3, 6)
    c0, c1 = _sym_chunks(rng, n, ragged), _sym_chunks(rng, m, ragged)
    while len(c0) == len(c1) and n > len(c0):
        c0 = _sym_chunks(rng, n, ragged)
        if rng.random() < 0.2:
            break
    if ragged is None and rng.random() < 0.2:
        c1 = [m]  # one block along an axis (the derivations skip such an axis when they bump the block id)
    return _src(rng, [n, m], [c0, c1])


X = ["src", 0]
XT = ["T", X]
Z = ["src", 1]

MULTI_SITE = {
    # one source at several sites, equal and transposed block maps (square, symmetric chunks)
    "x*x+x.T": ["bin", "add", ["bin", "mul", X, X], XT],
    "(x-x.T)*x": ["bin", "mul", ["bin", "sub", X, XT], X],
    "x+x.T": ["bin", "add", X, XT],
    "x*x+1": ["sc", "add", ["bin", "mul", X, X], 1],
    "x.T*x.T+x": ["bin", "add", ["bin", "mul", XT, XT], X],
    "(x+x.T)*(x-x.T)": ["bin", "mul", ["bin", "add", X, XT], ["bin", "sub", X, XT]],
    "x*x*x-x.T*x.T": ["bin", "sub", ["bin", "mul", ["bin", "mul", X, X], X], ["bin", "mul", XT, XT]],
    "max(x,x.T)+2x": ["bin", "add", ["bin", "maximum", X, XT], ["sc", "mul", X, 2]],
    "x.T-x*x": ["bin", "sub", XT, ["bin", "mul", X, X]],
    "(x.T+1)*(x+x)": ["bin", "mul", ["sc", "add", XT, 1], ["bin", "add", X, X]],
    "x*z+x.T*z+z.T": ["bin", "add", ["bin", "add", ["bin", "mul", X, Z], ["bin", "mul", XT, Z]], ["T", Z]],
}
MULTI_SITE_RECT = {
    # non-square grids: the transposed read comes from a second source / a product / a broadcast
    "x*x+z.T": ["bin", "add", ["bin", "mul", X, X], ["T", Z]],
    "(x-z.T)*x+z.T": ["bin", "add", ["bin", "mul", ["bin", "sub", X, ["T", Z]], X], ["T", Z]],
    "x@x.T+1": ["sc", "add", ["mm", X, XT], 1],
    "(x+1)@(x.T*2)": ["mm", ["sc", "add", X, 1], ["sc", "mul", XT, 2]],
    "(x*x)@x.T": ["mm", ["bin", "mul", X, X], XT],
    "(x@x.T)*(x@x.T).T": ["bin", "mul", ["mm", X, XT], ["T", ["mm", X, XT]]],
    "x.T.T*x+x": ["bin", "add", ["bin", "mul", ["T", XT], X], X],
}
V1, V0 = ["src", 1], ["src", 2]  # 1-d sources chunked like x's columns / rows
BROADCAST = {
    # sources with fewer blocks than the output (broadcast block maps) next to repeated reads
    "x*x+row": ["bin", "add", ["bin", "mul", X, X], ["exp", V1, 0]],
    "x+v": ["bin", "add", X, V1],
    "x+col*row": ["bin", "add", X, ["bin", "mul", ["exp", V0, 1], ["exp", V1, 0]]],
    "(x-row)*x+col": ["bin", "add", ["bin", "mul", ["bin", "sub", X, ["exp", V1, 0]], X], ["exp", V0, 1]],
    "col*row+row": ["bin", "add", ["bin", "mul", ["exp", V0, 1], ["exp", V1, 0]], ["exp", V1, 0]],
    "(x+row).T*col.T": ["bin", "mul", ["T", ["bin", "add", X, ["exp", V1, 0]]], ["T", ["exp", V0, 1]]],
}


def _with_vectors(rng, s):
    """[x, v1, v0]: 1-d sources with the chunks of x's second / first axis"""
    return [s, _src(rng, [s["shape"][1]], [s["chunks"][1]], mul=5, off=2, mod=13), _src(rng, [s["shape"][0]], [s["chunks"][0]], mul=7, off=1, mod=11)]



def fused_grid(rng, full=False):
    """the enumerated part (every run): the function-argument cross, the multi-site forms, library block literals"""
    out = []
    i = 0
    # ---- (a) user functions with per-block arguments x extra arguments
    flagsets = ((True, False), (False, True), (True, True), (False, False))
    depsets = ([], ["shape"], ["shape", "shape"], ["bid"], ["shape", "bid"])
    kwsets = ({}, {"gain": 3, "offset": 5}, {"gain": 2}, {"offset": 4})
    around = (("sc", None), ("sc", "add1"), (None, "add1"), (None, None), ("bar", "add1"))
    for bid, binfo in flagsets:
        for deps in depsets:
            if binfo and deps:
                continue  # block_info asks every indexed argument for .shape: BlockwiseDeps have none (upstream too)
            for ki, kw in enumerate(kwsets):
                if not full and ki >= 2 and (i + ki) % 2:
                    continue
                i += 1
                pre, post = around[i % len(around)]
                ragged = i % 4 != 0
                src = _square(rng, ragged) if i % 3 else _rect(rng, ragged)
                spec = {"api": ("da", "method", "da")[i % 3], "bid": bid, "binfo": binfo, "deps": deps, "pos": [[], [5], [4, [1, 2]]][(i // 2) % 3], "kw": kw, "dkw": None}
                e = X if pre is None else ["sc", "add", X, 1] if pre == "sc" else ["bar", X]
                out.append(_case(rng, [src], ["mb", spec, [e]], post=post, optimize=True, grid=f"mb/{'i' if bid else ''}{'I' if binfo else ''}/{'+'.join(deps)}/{sorted(kw)}"))
    # (dask objects in keyword arguments of a FUSED chain reach the function unresolved on the dask graph as well — the container
    # stream of c21_nested covers them next to non-fusing neighbours.)  blockwise with BlockwiseDeps; two array operands
    for j, deps in enumerate((["shape"], ["bid"], ["shape", "bid"], ["shape", "shape"])):
        spec = {"api": "blockwise", "bid": False, "binfo": False, "deps": deps, "pos": [6] if j % 2 else [], "kw": {"gain": 3, "offset": 2} if j != 1 else {}, "dkw": None}
        out.append(_case(rng, [_rect(rng, True)], ["mb", spec, [["sc", "mul", X, 2]]], post="add1", grid=f"blockwise/{'+'.join(deps)}"))
    for j, (bid, binfo, deps) in enumerate(((True, False, []), (True, False, ["shape"]), (False, True, []), (False, False, ["shape", "bid"]), (True, True, []))):
        spec = {"api": "da", "bid": bid, "binfo": binfo, "deps": deps, "pos": [], "kw": {"gain": 2, "offset": 1} if j % 2 == 0 else {}, "dkw": None}
        # the same source at two sites of the function's operands (x and x.T), and two different sources
        out.append(_case(rng, [_square(rng, True)], ["mb", spec, [X, XT]], post="add1", grid=f"mb2/x,x.T/{j}"))
        s = _rect(rng, True)
        out.append(_case(rng, [s, dict(s, mul=5, off=2, mod=13)], ["mb", spec, [["sc", "add", X, 1], Z]], post=(None, "add1")[j % 2], grid=f"mb2/x,z/{j}"))
    # two functions with per-block arguments in ONE fused chain (two inner tasks with lifted literals)
    s1 = {"api": "method", "bid": True, "binfo": False, "deps": [], "pos": [], "kw": {"gain": 2}, "dkw": None}
    s2 = {"api": "da", "bid": False, "binfo": False, "deps": ["shape"], "pos": [3], "kw": {"offset": 1}, "dkw": None}
    s3 = {"api": "da", "bid": True, "binfo": False, "deps": ["shape"], "pos": [], "kw": {"gain": 3, "offset": 2}, "dkw": None}
    out.append(_case(rng, [_square(rng, True)], ["mb", s2, [["mb", s1, [X]]]], post="add1", grid="mb-chain/bid>shape"))
    out.append(_case(rng, [_rect(rng, True)], ["mb", s3, [["mb", s3, [["sc", "add", X, 1]]]]], post=None, grid="mb-chain/both>both"))
    out.append(_case(rng, [_square(rng, True)], ["bin", "add", ["mb", s3, [X]], ["mb", s1, [XT]]], post=None, grid="mb-sum/both+bid(T)"))
    # ---- (b) one source at several sites
    for name, e in MULTI_SITE.items():
        for ragged in (False, True):
            n = rng.choice((4, 6)) if not ragged else rng.randint(5, 7)
            ch = _sym_chunks(rng, n, ragged) if ragged else [2] * (n // 2)
            s = _src(rng, [n, n], [ch, ch])
            srcs = [s] + ([dict(s, mul=5, off=2, mod=13)] if "z" in name else [])
            out.append(_case(rng, srcs, e, post=(None, "add1", "sum0")[i % 3] if ragged else None, grid=f"sites/{name}/{'ragged' if ragged else 'uniform'}"))
            i += 1
    for name, e in MULTI_SITE_RECT.items():
        s = _rect(rng, None)
        zs = _src(rng, s["shape"][::-1], s["chunks"][::-1], mul=5, off=2, mod=13)
        out.append(_case(rng, [s, zs] if "z" in name else [s], e, post=(None, "add1")[i % 2], grid=f"sites-rect/{name}"))
        i += 1
    for name, e in BROADCAST.items():
        srcs = _with_vectors(rng, _rect(rng, i % 2 == 0))
        used = _json(e)
        out.append(_case(rng, srcs if '["src", 2]' in used else srcs[:2], e, post=(None, "add1", "T")[i % 3], grid=f"broadcast/{name}"))
        i += 1
    spec = {"api": "da", "bid": True, "binfo": False, "deps": ["shape"], "pos": [], "kw": {"gain": 2}, "dkw": None}
    out.append(_case(rng, _with_vectors(rng, _rect(rng, True))[:2], ["mb", spec, [BROADCAST["x*x+row"]]], post="add1", grid="mb-over-broadcast"))
    # broadcast maps of one 1-d source, a 3-d permutation, per-block functions on top of a multi-site expression
    n = rng.randint(4, 6)
    v = _src(rng, [n], [_sym_chunks(rng, n, True)])
    out.append(_case(rng, [v], ["bin", "add", ["bin", "mul", ["exp", X, 1], ["exp", X, 0]], ["exp", X, 0]], grid="sites/outer(v,v)+v"))
    out.append(_case(rng, [v], ["bin", "sub", ["bin", "mul", ["exp", X, 1], ["exp", X, 1]], ["exp", X, 0]], grid="sites/col*col-row"))
    c3 = _sym_chunks(rng, 4, None)
    t3 = _src(rng, [4, 3, 4], [c3, [2, 1], c3])
    out.append(_case(rng, [t3], ["bin", "add", ["bin", "mul", X, X], ["perm", X, [2, 1, 0]]], grid="sites/t*t+t.transpose(2,1,0)"))
    out.append(_case(rng, [t3], ["bin", "mul", ["bin", "sub", X, ["perm", X, [2, 1, 0]]], ["perm", ["perm", X, [2, 1, 0]], [2, 1, 0]]], grid="sites/(t-t.P)*t.P.P"))
    for j, name in enumerate(("x*x+x.T", "(x-x.T)*x", "x+x.T")):
        spec = {"api": "da", "bid": True, "binfo": False, "deps": ["shape"] if j != 1 else [], "pos": [], "kw": {"gain": 2, "offset": 3}, "dkw": None}
        out.append(_case(rng, [_square(rng, True)], ["mb", spec, [MULTI_SITE[name]]], post=(None, "add1")[j % 2], grid=f"mb-over-sites/{name}"))
    # ---- library block literals: ragged creation ops, map_overlap trims, next to the above
    s = _rect(rng, True)
    out.append(_case(rng, [s], ["bin", "add", ["ones", 0], X], grid="ones+x"))
    out.append(_case(rng, [s], ["bin", "mul", ["bin", "add", ["full", 0, 3], X], ["ones", 0]], post="add1", grid="(full+x)*ones"))
    out.append(_case(rng, [_square(rng, True)], ["bin", "add", ["bin", "mul", ["ones", 0], XT], X], grid="ones*x.T+x"))
    spec = {"api": "da", "bid": True, "binfo": False, "deps": [], "pos": [], "kw": {"gain": 2}, "dkw": None}
    out.append(_case(rng, [s], ["mb", spec, [["bin", "add", ["ones", 0], X]]], post="add1", grid="mb-over-ones"))
    # an ODD INTERIOR block (not at index 0, n//2, n-1) of a creation op whose size also occurs on the other axis: the fast
    # records validate block-independence on a sample of blocks plus the first block of every distinct chunk size PER AXIS;
    # whatever shares that bookkeeping between axes (or members) lets the odd block slip through with block 0's shape
    for c0, u, n, k, odd in (([2, 2], 3, 8, 3, 2), ([1, 1, 1], 4, 7, 2, 1), ([3, 1], 2, 7, 5, 3), ([3, 1], 2, 7, 1, 1), ([2, 2, 2], 5, 9, 6, 2)):
        c1 = [u] * n
        c1[k] = odd
        for shape, chunks, tag in (([sum(c0), sum(c1)], [c0, c1], "later-axis"), ([sum(c1), sum(c0)], [c1, c0], "earlier-axis")):
            so = _src(rng, shape, chunks)
            out.append(_case(rng, [so], ["sc", "mul", ["ones", 0], 2], grid=f"odd-interior/{tag}/ones*2"))
            out.append(_case(rng, [so], ["bin", "add", X, ["sc", "mul", ["full", 0, 3], 2]], post=(None, "add1")[k % 2], grid=f"odd-interior/{tag}/x+full*2"))
    for j, (depth, boundary) in enumerate(((1, "reflect"), (1, "none"), (1, "periodic"))):
        n = rng.randint(6, 8)
        ch = [n - n // 2, n // 2]
        so = _src(rng, [n, 5], [ch, [3, 2]])
        out.append(_case(rng, [so], ["ov", ["sc", "add", X, 1], {"0": depth, "1": 0} if j else depth, boundary, "inc"], post=(None, "add1", None)[j], grid=f"ov/{boundary}"))
    # optimize-graph off: the unfused layers through the generic adapter
    spec = {"api": "da", "bid": True, "binfo": False, "deps": ["shape"], "pos": [5], "kw": {"gain": 3, "offset": 5}, "dkw": None}
    out.append(_case(rng, [_square(rng, True)], ["mb", spec, [["sc", "add", X, 1]]], post="add1", optimize=False, grid="mb/unfused"))
    out.append(_case(rng, [_square(rng, True)], MULTI_SITE["x*x+x.T"], optimize=False, grid="sites/unfused"))
    # grouped with the source / the bare expression (shared `seen`)
    out.append(_case(rng, [_square(rng, True)], ["mb", spec, [["sc", "add", X, 1]]], post="add1", roots=("y", "s0"), history="group-then-alone", grid="group/mb"))
    out.append(_case(rng, [_square(rng, True)], MULTI_SITE["(x-x.T)*x"], post="add1", roots=("s0", "core", "y"), history="alone-then-group", grid="group/sites"))
    return out


def random_fused(rng):
    r = rng.random()
    ragged = rng.random() < 0.75
    if r < 0.45:
        # a per-block function: random flags / deps / extras, over a random small expression
        bid, binfo = rng.choice(((True, False), (True, False), (False, True), (True, True), (False, False)))
        deps = [] if binfo else rng.choice(([], ["shape"], ["shape"], ["bid"], ["shape", "shape"], ["shape", "bid"], ["bid", "shape"], ["shape", "bid", "shape"]))
        api = rng.choice(("da", "da", "method", "blockwise")) if not (bid or binfo) else rng.choice(("da", "method"))
        kw = {k: rng.randint(2, 6) for k in rng.sample(["gain", "offset"], rng.choice((0, 1, 2, 2)))}
        pos = [rng.choice((rng.randint(0, 9), [rng.randint(0, 4), rng.randint(0, 4)], [1, [2, 3]])) for _ in range(rng.choice((0, 0, 1, 2)))]
        dkw = None
        spec = {"api": api, "bid": bid, "binfo": binfo, "deps": deps, "pos": pos, "kw": kw, "dkw": dkw}
        square = rng.random() < 0.5
        s = _square(rng, ragged) if square else _rect(rng, ragged)
        srcs = [s]
        inner = rng.choice((X, ["sc", "add", X, 1], ["sc", "mul", X, 2], ["bin", "mul", X, X], ["bar", X], ["bin", "add", ["ones", 0], X]))
        if square and rng.random() < 0.3:
            inner = rng.choice(list(MULTI_SITE.values())[:10])
        ops = [inner]
        if rng.random() < 0.3:
            if square and rng.random() < 0.5:
                ops.append(rng.choice((XT, ["sc", "add", XT, 2])))
            else:
                srcs.append(dict(s, mul=5, off=2, mod=13))
                ops.append(rng.choice((Z, ["sc", "sub", Z, 1])))
        e = ["mb", spec, ops]
        if rng.random() < 0.25:
            spec2 = dict(spec, deps=rng.choice(([], ["shape"])), bid=rng.random() < 0.6, binfo=False, kw={"gain": 2}, pos=[], dkw=None, api="da")
            e = ["mb", spec2, [e]] if rng.random() < 0.6 else ["bin", "add", e, ["mb", spec2, [X]]]
        post = rng.choice((None, "add1", "add1", "sum0", "T", "slice"))
        return _case(rng, srcs, e, post=post, optimize=rng.random() < 0.9)
    if r < 0.9:
        # random expression over x, x.T (square) or x, z.T (non-square), several sites
        square = rng.random() < 0.6
        if square:
            s = _square(rng, ragged)
            srcs = [s, dict(s, mul=5, off=2, mod=13)]
            leaves = [X, X, XT, XT, ["sc", "add", X, 1], Z, ["T", Z], ["ones", 0]]
        else:
            s = _rect(rng, ragged)
            srcs = [s, _src(rng, s["shape"][::-1], s["chunks"][::-1], mul=5, off=2, mod=13)]
            leaves = [X, X, ["T", Z], ["T", Z], ["sc", "mul", X, 2], ["T", XT], ["ones", 0]]
            if rng.random() < 0.4:
                srcs = _with_vectors(rng, s)
                leaves = [X, X, X, ["exp", V1, 0], ["exp", V0, 1], V1, ["sc", "mul", X, 2], ["ones", 0]]

        def tree(d):
            if d <= 0 or rng.random() < 0.15:
                return rng.choice(leaves)
            if rng.random() < 0.15:
                return ["sc", rng.choice(("add", "mul", "sub", "rsub")), tree(d - 1), rng.randint(1, 3)]
            return ["bin", rng.choice(BINOPS), tree(d - 1), tree(d - 1)]

        e = tree(rng.randint(2, 3))
        if '["src", 0]' not in _json(e):
            e = ["bin", "add", e, X]  # source 0 gives the ones / full leaves their shape and the case its class
        if rng.random() < 0.2:
            e = ["mm", e, ["T", e if rng.random() < 0.5 else tree(1)]]
        used = _json(e)
        nsrc = 3 if '["src", 2]' in used else 2 if '["src", 1]' in used else 1
        post = rng.choice((None, None, "add1", "sum0", "T"))
        case = _case(rng, srcs[:nsrc], e, post=post, optimize=rng.random() < 0.9)
        if rng.random() < 0.15:
            # walked with the source / the bare expression under one shared `seen`
            roots = ["y"] + rng.sample(["s0", "core"], rng.randint(1, 2))
            if rng.random() < 0.5:
                roots.reverse()
            case.update(roots=roots, history=rng.choice(("group", "group-then-alone", "alone-then-group")))
        return case
    # library literals: overlap / creation
    s = _rect(rng, ragged)
    n = rng.randint(6, 8)
    s = _src(rng, [n, s["shape"][1]], [[n - n // 2, n // 2], s["chunks"][1]])
    depth = rng.choice((1, {"0": 1, "1": 0}, {"0": 2, "1": 1}))
    if isinstance(depth, dict) and depth["1"] and min(s["chunks"][1]) < 2:
        depth = 1 if min(s["chunks"][1]) >= 1 else {"0": 1, "1": 0}
    inner = rng.choice((X, ["sc", "add", X, 1], ["bin", "add", ["ones", 0], X]))
    return _case(rng, [s], ["ov", inner, depth, rng.choice(("reflect", "none", "periodic", "nearest")), rng.choice(("inc", "twice"))], post=rng.choice((None, "add1")), optimize=rng.random() < 0.9)


def _json(o):
    import json

    return json.dumps(o)


def shrink_fused(case, still, max_iter=80):
    """greedy: drop the post op / the group, replace a node by one of its operands, strip the function spec"""
    cur = case
    it = 0

    def sub(t):
        k = t[0]
        kids = _kids(t)
        if not kids:
            return
        for e in kids:
            yield e
        if k == "mb":
            spec = t[1]
            if len(kids) > 1:
                yield ["mb", spec, kids[:1]]
            for f in ("kw", "pos", "deps"):
                v = spec.get(f) or []
                for j in range(len(v)):
                    nv = {n: x for n, x in v.items() if n != sorted(v)[j]} if isinstance(v, dict) else v[:j] + v[j + 1:]
                    yield ["mb", dict(spec, **{f: nv}), kids]
            for f in ("bid", "binfo"):
                if spec.get(f):
                    yield ["mb", dict(spec, **{f: False}), kids]
            if spec.get("dkw") is not None:
                yield ["mb", dict(spec, dkw=None), kids]
        for i, e in enumerate(kids):
            for s_ in sub(e):
                yield _with_kids(t, kids[:i] + [s_] + kids[i + 1:])

    def variants(c):
        if len(c["roots"]) > 1:
            yield dict(c, roots=["y"], history="group")
        if c.get("post"):
            yield dict(c, post=None)
        for s in sub(c["expr"]):
            yield dict(c, expr=s)
        used = _json(c["expr"])
        need = max([1] + [j + 1 for j in range(len(c["srcs"])) if '["src", %d]' % j in used])
        if len(c["srcs"]) > need:
            yield dict(c, srcs=c["srcs"][:need])

    progress = True
    while progress and it < max_iter:
        progress = False
        for v in variants(cur):
            it += 1
            if it > max_iter:
                break
            try:
                ok = still(v)
            except Exception:
                ok = False
            if ok:
                cur = v
                progress = True
                break
    return cur


# ------------------------------------------------------------------------------------------ same-name histories

CONSUMERS_1D = ("cumsum", "cumprod", "argmax", "argmin", "map_overlap", "sum", "max", "mean_i", "add1", "rechunk", "slice", "rev", "take", "diff", "cumsum_blelloch",
                "map_blocks_bid", "concat_self", "reshape", "nanargmax")
CONSUMERS_2D = ("cumsum", "cumsum1", "argmax0", "argmax1", "argmax", "map_overlap", "sum", "sum0", "add1", "T", "rechunk", "slice", "take", "map_blocks_bid", "matmul_T")
LEGACY = ("cumsum", "argmax", "map_overlap")
# creation functions / from_delayed with a reused name= hand back the FIRST array while it is alive (the expression instance is shared by
# name): the dask graph itself then differs from NumPy (or construction raises) — outside these properties, noted; once the first array is
# dead (create-walk mode) they are ordinary members of the stream
HOWS = ("from_array", "from_array", "from_array", "from_array", "asarray_map_blocks", "asarray_map_blocks", "from_delayed", "full")
HOWS_OUTSIDE = ("from_delayed", "full")


def _named_array(how, name, spec, da_mode):
    """the array of one same-name step (dask side: carries the user-supplied name) and its NumPy twin"""
    import dask_array as da
    from dask.delayed import delayed

    shape = tuple(spec["shape"])
    chunks = tuple(tuple(c) for c in spec["chunks"])
    # distinct values in a scrambled order (at most 81 elements, 101 prime): arg-reductions have no ties to break
    a = CN.src_data(shape, spec.get("mul", 3), spec.get("off", 1), 101) + 1
    if how == "full":
        a = np.full(shape, spec.get("off", 1) + 2, dtype=np.int64)
    if not da_mode:
        return a
    if how == "from_array":
        return da.from_array(a, chunks=chunks, name=name)
    if how == "asarray_map_blocks":
        return da.from_array(a, chunks=chunks).map_blocks(CN._const, dtype="int64", name=name)
    if how == "from_delayed":
        return da.from_delayed(delayed(CN._const, pure=True)(a), shape, dtype="int64", name=name).rechunk(chunks)
    if how == "full":
        return da.full(shape, spec.get("off", 1) + 2, chunks=chunks, dtype="int64", name=name)
    raise ValueError(how)


def _consume(c, x, da_mode):
    import dask_array as da

    m = da if da_mode else np
    nd = x.ndim
    if c == "cumsum":
        return m.cumsum(x, axis=0)
    if c == "cumsum1":
        return m.cumsum(x, axis=1)
    if c == "cumsum_blelloch":
        return da.cumsum(x, axis=0, method="blelloch") if da_mode else np.cumsum(x, axis=0)
    if c == "cumprod":
        return m.cumprod(x % 3 + 1, axis=0)
    if c == "argmax":
        return x.argmax()
    if c == "argmin":
        return x.argmin()
    if c == "nanargmax":
        return m.nanargmax(x)
    if c == "argmax0":
        return x.argmax(axis=0)
    if c == "argmax1":
        return x.argmax(axis=1)
    if c == "map_overlap":
        if da_mode:
            return x.map_overlap(ov_twice, depth=1, boundary="none", dtype="int64")
        return x * 2
    if c == "sum":
        return x.sum()
    if c == "sum0":
        return x.sum(axis=0)
    if c == "max":
        return x.max()
    if c == "mean_i":
        return (x * 2).sum(axis=0) + 1
    if c == "add1":
        return x + 1
    if c == "T":
        return x.T + 0
    if c == "rechunk":
        return x.rechunk(tuple(max(1, s - 1) for s in x.shape)) if da_mode else x
    if c == "slice":
        return x[1:] if nd == 1 else x[1:, ::2]
    if c == "rev":
        return x[::-1]
    if c == "take":
        idx = [x.shape[0] - 1, 0, 1, 1]
        return x[idx]
    if c == "diff":
        return m.diff(x, axis=0)
    if c == "concat_self":
        return m.concatenate([x, x + 1], axis=0)
    if c == "reshape":
        return x.reshape(x.shape[0], 1) if nd == 1 else x.reshape(-1)
    if c == "matmul_T":
        return x @ x.T
    if c == "map_blocks_bid":
        spec = {"bid": True, "binfo": False, "deps": [], "pos": [], "kw": {"gain": 2}}
        if da_mode:
            return x.map_blocks(fb_bid, gain=2, dtype="int64") + 1
        return None  # per-block: the dask graph is the reference
    raise ValueError(c)


def samename_grid(rng, tag):
    """every consumer x both orders (coarser grid first / finer grid first) on from_array(name=), the legacy-layer consumers on
    the other ways of naming an array, 2-d grids, equal grids with different data, three arrays"""
    out = []
    n = [0]

    def mk(how, arrays, consumers, optimize=True, mode="create-walk", **extra):
        n[0] += 1
        case = {"kind": "samename", "how": how, "name": f"{tag}-{n[0]}", "arrays": arrays, "consumers": list(consumers), "optimize": optimize,
                "mode": mode, "oseed": rng.randrange(10**6)}
        case.update(extra)
        return case

    def a1(nn, c, **kw):
        ch = [c] * (nn // c) + ([nn % c] if nn % c else [])
        return _src(rng, [nn], [ch], **kw)

    coarse, fine = a1(6, 3), a1(8, 2)
    groups = [CONSUMERS_1D[i:i + 3] for i in range(0, len(CONSUMERS_1D), 3)]
    for g in groups:
        out.append(mk("from_array", [coarse, fine], g, grid="1d/coarse-first"))
        out.append(mk("from_array", [fine, coarse], g, grid="1d/fine-first"))
    out.append(mk("from_array", [a1(6, 3), a1(6, 2), a1(6, 1)], LEGACY, grid="1d/three, same length"))
    out.append(mk("from_array", [a1(7, 7), a1(7, 2)], LEGACY + ("sum", "take"), grid="1d/one block then many"))
    out.append(mk("from_array", [a1(6, 3, mul=3), a1(6, 3, mul=5, off=2)], LEGACY + ("add1", "sum"), grid="1d/same grid other data"))
    out.append(mk("from_array", [coarse, fine], LEGACY, optimize=False, grid="1d/unoptimized"))
    out.append(mk("from_array", [coarse, fine], LEGACY, mode="create-all-then-walk", grid="1d/create all, then walk"))
    out.append(mk("from_array", [coarse, fine], LEGACY, mode="create-all-then-walk-reversed", grid="1d/create all, walk last first"))
    out.append(mk("asarray_map_blocks", [coarse, fine], LEGACY + ("sum", "add1"), grid="map_blocks(name=)/coarse-first"))
    out.append(mk("asarray_map_blocks", [fine, coarse], LEGACY + ("take",), grid="map_blocks(name=)/fine-first"))
    for how in HOWS_OUTSIDE:
        out.append(mk(how, [a1(6, 3), a1(6, 2)], ("cumsum",), grid=f"{how}/coarse-first"))
    c2, f2 = _src(rng, [4, 6], [[2, 2], [3, 3]]), _src(rng, [5, 4], [[2, 2, 1], [1, 1, 2]])
    g2 = [CONSUMERS_2D[i:i + 4] for i in range(0, len(CONSUMERS_2D), 4)]
    for j, g in enumerate(g2):
        out.append(mk("from_array", [c2, f2] if j % 2 == 0 else [f2, c2], g, grid="2d/" + ("coarse-first" if j % 2 == 0 else "fine-first")))
    out.append(mk("from_array", [c2, _src(rng, [4, 6], [[1, 1, 1, 1], [2, 2, 2]])], ("cumsum", "cumsum1", "argmax1", "map_overlap"), grid="2d/same shape, finer grid"))
    return out


def random_samename(rng, tag, k):
    nd = rng.choice((1, 1, 2))
    how = rng.choice(HOWS)
    arrays = []
    for _ in range(rng.choice((2, 2, 3))):
        shape = [rng.randint(4, 9)] if nd == 1 else [rng.randint(3, 6), rng.randint(3, 6)]
        chunks = []
        for s in shape:
            c = rng.randint(1, s)
            chunks.append([c] * (s // c) + ([s % c] if s % c else []))
        arrays.append(_src(rng, shape, chunks))
    if rng.random() < 0.3:
        arrays[1] = dict(arrays[1], shape=arrays[0]["shape"], chunks=arrays[0]["chunks"])
    pool = CONSUMERS_1D if nd == 1 else CONSUMERS_2D
    consumers = rng.sample(pool, rng.randint(1, 3))
    if rng.random() < 0.6:
        consumers.insert(rng.randrange(len(consumers) + 1), rng.choice(LEGACY))
    return {"kind": "samename", "how": how, "name": f"{tag}-r{k}", "arrays": arrays, "consumers": list(dict.fromkeys(consumers)), "optimize": rng.random() < 0.8,
            "mode": rng.choice(("create-walk", "create-walk", "create-all-then-walk", "create-all-then-walk-reversed")), "oseed": rng.randrange(10**6)}


def _check_collection(y, want, label, exec_records, oseed, fidelity):
    """[(sig, detail)] for one collection: records vs dask graph vs NumPy (+ per-node layer fidelity when asked)"""
    from dask.core import flatten

    fails = []
    try:
        dsk = dict(y.__dask_graph__())
        ref, _ = graphs.execute(graphs.to_tasks(dsk), rng=None, order="fifo")
        keys = list(flatten(y.__dask_keys__()))
        gv = CN._blocks_in_order(y, ref, keys)
    except Exception:
        return None  # the dask graph path itself fails: not a statement about the records
    if want is not None and not CN._same(gv, np.asarray(want)):
        return "outside"
    if fidelity:
        for node in y._lowered_expr.walk():
            try:
                f, _how = CN.layer_fidelity(node)
            except Exception:
                continue
            for sig, detail in f:
                fails.append((sig, f"{label}: {detail}"))
            if f:
                return fails
    try:
        recs = y.__frisky_graph__()
        okeys = y.__frisky_output_keys__()
    except NotImplementedError:
        return fails
    except Exception as e:
        return fails + [("records-path-raises:" + type(e).__name__, f"{label}: __frisky_graph__ raised {type(e).__name__}: {str(e)[:200]} while __dask_graph__ builds and executes")]
    values, problems, _ = exec_records(recs, random.Random(oseed))
    for kind, detail in problems[:1]:
        fails.append(("records:" + kind, f"{label}: {detail}"))
    if problems:
        return fails
    undefined = [k for k in okeys if k not in values]
    if undefined:
        return fails + [("records:output-key-undefined", f"{label}: {undefined[:2]}")]
    for k in keys:
        s = str(CN._norm(k))
        if s in values and graphs.fingerprint(values[s]) != graphs.fingerprint(ref[k]):
            fails.append(("records:block-value-differs", f"{label}: block {s}: records give {np.asarray(values[s]).ravel()[:6].tolist()} dask graph gives {np.asarray(ref[k]).ravel()[:6].tolist()}"))
            break
    return fails


def run_samename(ctx, case, exec_records, count=True, fidelity=False):
    """[(signature, detail)] | None.  Signatures carry the prefix `samename:`."""
    import dask

    fails = []
    notes = ctx.notes
    with dask.config.set({"array.optimize-graph": case["optimize"]}):
        try:
            order = list(range(len(case["arrays"])))
            mode = case.get("mode", "create-walk")
            made = {}
            if mode != "create-walk":
                for i in order:
                    made[i] = _named_array(case["how"], case["name"], case["arrays"][i], True)
                if mode.endswith("reversed"):
                    order.reverse()
            for i in order:
                spec = case["arrays"][i]
                if i not in made:
                    # the collections of the previous array are dead: drop them now, so that name-keyed WEAK caches of the
                    # library (lowering cache) behave the same in every run instead of depending on when the collector runs
                    x = y = None
                    gc.collect()
                x = made[i] if i in made else _named_array(case["how"], case["name"], spec, True)
                a = _named_array(case["how"], case["name"], spec, False)
                for c in case["consumers"]:
                    label = f"array {i} of {len(case['arrays'])} named {case['name']!r} ({case['how']}, chunks {spec['chunks']}) -> {c}"
                    try:
                        y = _consume(c, x, True)
                        want = _consume(c, a, False)
                    except NotImplementedError:
                        continue
                    except Exception as e:
                        notes["samename_construction_raised"] = notes.get("samename_construction_raised", 0) + 1
                        notes.setdefault("samename_construction_raised_example", f"{type(e).__name__}: {str(e)[:100]} :: {label}")
                        continue
                    r = _check_collection(y, want, label, exec_records, case.get("oseed", 0), fidelity)
                    if r is None:
                        notes["samename_dask_graph_raises"] = notes.get("samename_dask_graph_raises", 0) + 1
                        notes.setdefault("samename_dask_graph_raises_example", label)
                        continue
                    if r == "outside":
                        key = "outside:same-name array: the DASK GRAPH differs from NumPy (both paths)"
                        notes[key] = notes.get(key, 0) + 1
                        ex = notes.setdefault("outside:same-name examples", [])
                        if len(ex) < 6:
                            ex.append(label)
                        continue
                    for sig, detail in r:
                        fails.append(("samename:" + sig, detail))
                    if count:
                        ctx.count(("samename", case["how"], c, i, len(spec["shape"]), case["optimize"], mode))
                    if fails:
                        return fails
        except NotImplementedError:
            return None
        except Exception as e:
            notes["samename_raised"] = notes.get("samename_raised", 0) + 1
            notes.setdefault("samename_raised_example", f"{type(e).__name__}: {str(e)[:120]} :: {case['how']} {case['consumers']}")
            return None
    return fails


def shrink_samename(case, still, fresh_name, max_iter=40):
    """drop consumers / arrays; every attempt under a name of its own (the process-wide state of the failing run must not help)"""
    cur = case
    it = 0
    progress = True
    while progress and it < max_iter:
        progress = False
        cands = []
        for j in range(len(cur["consumers"])):
            if len(cur["consumers"]) > 1:
                cands.append(dict(cur, consumers=cur["consumers"][:j] + cur["consumers"][j + 1:]))
        for j in range(len(cur["arrays"])):
            if len(cur["arrays"]) > 1:
                cands.append(dict(cur, arrays=cur["arrays"][:j] + cur["arrays"][j + 1:]))
        if cur.get("mode") != "create-walk":
            cands.append(dict(cur, mode="create-walk"))
        for v in cands:
            it += 1
            if it > max_iter:
                break
            v = dict(v, name=fresh_name())
            try:
                ok = still(v)
            except Exception:
                ok = False
            if ok:
                cur = v
                progress = True
                break
    return cur
