"""C02 / C03, the COARSE slice pushdown through a generic `Blockwise` with `adjust_chunks`
(`Blockwise._accept_slice_coarse` and its local `find_block_range`, dask_array/_blockwise.py).

Model: lean/DaskArrayModel/Model/CoarseSlice.lean; driver family `crs.*` (Drv/CoarseSlice.lean); theorems
Props/C02Coarse.lean / Props/C03Coarse.lean.

(1) correspondence, model vs the REAL method on the same generated nodes and indices.  Nodes are real `Blockwise`
    expressions built through the public API, every one with `adjust_chunks` on at least one label:
    `da.map_blocks(f, *xs, chunks=...)` (tuple-valued adjusters, also over lower-rank operands and with a
    `block_info` operand) and `da.blockwise(f, out, x, ind, ..., adjust_chunks={label: int | tuple | callable})` with
    1-3 operands (shared / permuted / missing / contracted labels, broadcast length-1 axes, 0-d operands, literals,
    other block counts, `align_arrays` on/off, `new_axes`), ragged chunks, zero-width chunks in the operands and in
    the adjusted output chunks.
      * `crs.accept`:    `node._accept_slice_coarse(e, full_index, node.adjust_chunks)` called directly with the index
        of the real `SliceSlicesIntegers` (normalised) and with raw (negative / over-range / `None`) entries: declined,
        or the kept block range of every axis (the values the real `find_block_range` RETURNED during the call,
        captured with `sys.setprofile`), the adjustment left on top, the slice every operand axis received, the new
        `adjust_chunks`, whether a `SliceSlicesIntegers` is put on top;
      * `crs.axis`:      the same on 1-d nodes with arbitrary output chunks (one axis of the loop);
      * `crs.fbr`:       the real `find_block_range` (its code object taken out of `_accept_slice_coarse.__code__`)
        on sorted cumulative sums with repeated entries;
      * `crs.chunks`:    `Blockwise.chunks` of the node (when the model's "most blocks wins" rule is the rule in force);
      * `crs.rewritten`: the chunks of the new `Blockwise` (or its ValueError) and of the expression returned;
      * `crs.opchunks`:  the chunks of an operand sliced at block boundaries (`x[a:b].chunks`).
(2) search on the real API, oracle = NumPy applied block by block (independent of the model): block-to-block user
    functions of declared output length per block (per-block head / half / resample to a fixed length / sum keepdims
    / repeat, over a label-local combination of the operands), indexed with integers and slices of any kind, computed
    optimized, "unoptimized", rewrite-free (props_ext/rawfree.py) and block by block from the simplified expression
    (every computed block must have the advertised shape).
A failure is reported only when the NumPy oracle fails on the real code; a disagreeing correspondence case is lifted to
the same end-to-end check.

`SEARCH_ZERO_WIDTH_OPERANDS`: the end-to-end search includes operands with zero-width chunks (the correspondence part
always does).  Slicing such an operand to whole blocks does not keep exactly those blocks; `_accept_slice_coarse` declines
there since commit 978baf4 (`0 in arg.chunks[dim_idx]`, modelled in `opAxisSlice`); the minimal inputs of that repaired
defect are regression probes (`KNOWN_PROBES`, signature `crs:zero-width-operand-chunk`) run on every run, as is the
input of the repaired unaligned-operands defect (commit c36af38: sliced operand axes of one label must have equal chunks,
`label_chunks.setdefault(...) != ...`, modelled by `opAxisSliceS` and the running `LabelChunks`).
"""
from __future__ import annotations

import itertools
import numbers
import sys
import types
import warnings

import numpy as np

from harness.core import err_name, f_list, f_ll, f_slice

FAM = "crs"
SIG_VALUES = "crs:pushdown-changes-values"
SIG_RAISES = "crs:pushdown-raises"
SIG_ZERO = "crs:zero-width-operand-chunk"
SIG_UNOPT = "crs:unoptimized-mismatch"

#: zero-width OPERAND chunks in the end-to-end search (the correspondence part keeps them always)
SEARCH_ZERO_WIDTH_OPERANDS = True

LETTERS = "ijk"
TFS = ("head", "half", "resize", "sum", "repeat")
AS_OF = {"id": ("tuple", "callable"), "head": ("tuple", "callable"), "half": ("tuple", "callable"),
         "resize": ("int", "tuple", "callable"), "sum": ("int", "int", "tuple", "callable"), "repeat": ("callable", "tuple")}


class _Skip(Exception):
    pass


def _note(ctx, key, example=None):
    ctx.notes[key] = ctx.notes.get(key, 0) + 1
    if example is not None:
        ctx.notes.setdefault(key + "_example", str(example)[:200])


# ------------------------------------------------------------------------------------------ block functions

def tf_len(tf, k, c):
    """declared output length of a block of length `c`"""
    if tf == "id":
        return c
    if tf == "head":
        return min(k, c)
    if tf == "half":
        return c // 2
    if tf == "resize":
        return k
    if tf == "sum":
        return 1
    if tf == "repeat":
        return 2 * c
    raise _Skip(tf)


def tf_apply(tf, k, b, ax):
    """the block-to-block function along one axis (integer arithmetic only)"""
    n = b.shape[ax]
    if tf == "id":
        return b
    if tf == "head":
        return b.take(np.arange(min(k, n)), axis=ax)
    if tf == "half":
        return b.take(np.arange(n // 2) * 2, axis=ax)
    if tf == "resize":
        if n == 0:
            sh = list(b.shape)
            sh[ax] = k
            return np.zeros(sh, dtype=b.dtype)
        return b.take((np.arange(k) * n) // max(k, 1), axis=ax)
    if tf == "sum":
        return b.sum(axis=ax, keepdims=True)
    if tf == "repeat":
        return np.repeat(b, 2, axis=ax)
    raise _Skip(tf)


def make_adjuster(spec, in_chunks):
    """the `adjust_chunks` value of one label"""
    tf, k, how = spec["tf"], spec.get("k", 0), spec["as"]
    if how == "int":
        return int(tf_len(tf, k, 1))
    if how == "tuple":
        if in_chunks is None:
            raise _Skip("no layout for a tuple adjuster")
        return tuple(int(tf_len(tf, k, c)) for c in in_chunks)
    return lambda c, tf=tf, k=k: int(tf_len(tf, k, int(c)))


def _fold(blk, axes):
    if isinstance(blk, (list, tuple)):
        return sum(_fold(b, axes) for b in blk)
    return blk.sum(axis=axes) if axes else blk


def _align(v, labels, core):
    order = [l for l in core if l in labels]
    v = np.transpose(v, [labels.index(l) for l in order]) if len(labels) > 1 else v
    return v.reshape([v.shape[order.index(l)] if l in order else 1 for l in core])


def _term(op, blk, core):
    ind = list(op["ind"])
    caxes = tuple(a for a, l in enumerate(ind) if l not in core)
    v = np.asarray(_fold(blk, caxes))
    ind = [l for l in ind if l in core]
    return _align(v, ind, core) * op["coef"]


def _combine(case, values):
    """the label-local part: a linear combination of the operands aligned by label (literals multiply)"""
    new_axes = case.get("new_axes") or {}
    core = [l for l in case["out"] if l not in new_axes]
    acc, mul = None, 1
    for op, v in zip(case["ops"], values):
        if op["ind"] is None:
            mul = mul * v
            continue
        t = _term(op, v, core)
        acc = t if acc is None else acc + t
    return np.asarray(acc) * mul, core


def _stack_new(case, acc):
    new_axes = case.get("new_axes") or {}
    for pos, l in enumerate(case["out"]):
        if l in new_axes:
            acc = np.stack([acc * (q + 1) for q in range(new_axes[l])], axis=pos)
    return acc


def make_func(case):
    adjust = case["adjust"]

    def f(*blocks, **kw):
        acc, core = _combine(case, blocks)
        for l in core:
            if l in adjust:
                acc = tf_apply(adjust[l]["tf"], adjust[l].get("k", 0), acc, core.index(l))
        return _stack_new(case, acc)

    if case.get("block_info"):
        def g(*blocks, block_info=None):
            return f(*blocks)

        return g
    return f


# ------------------------------------------------------------------------------------------ generators

def rand_chunks(rng, n, zeros=False):
    if n == 0:
        return [0]
    cs, left = [], n
    if zeros and rng.random() < 0.15:
        cs.append(0)
    while left > 0:
        c = rng.randint(1, min(left, 3))
        cs.append(c)
        left -= c
        if zeros and rng.random() < 0.3:
            cs.append(0)
    return cs


def refinement(chunk_lists):
    cuts = sorted({0} | {int(v) for cs in chunk_lists for v in np.cumsum(cs)})
    return [b - a for a, b in zip(cuts[:-1], cuts[1:])]


def gen_adjust(rng, tf=None, how=None):
    tf = tf or rng.choice(TFS)
    spec = {"tf": tf, "as": how if how in AS_OF[tf] else rng.choice(AS_OF[tf])}
    if tf == "head":
        spec["k"] = rng.choice([1, 1, 2, 3])
    if tf == "resize":
        spec["k"] = rng.choice([0, 1, 2, 2, 3])
    return spec


def gen_node(rng, zeros):
    """a node description (JSON); `zeros`: zero-width operand chunks allowed"""
    kind = rng.choice(["map_blocks", "blockwise", "blockwise"])
    r_out = rng.choice([1, 1, 2, 2, 3])
    out = list(LETTERS[:r_out])
    dims = {l: rng.choice([1, 2, 3, 4, 5, 6, 7]) for l in out}
    use_zeros = zeros and rng.random() < 0.45
    lab_chunks = {l: rand_chunks(rng, dims[l], use_zeros) for l in out}
    nops = rng.choice([1, 1, 2, 2, 3])
    case = {"crs": True, "kind": kind, "out": out, "align": False, "adjust": {}, "ops": []}
    if kind == "map_blocks":
        for t in range(nops):
            k = r_out if t == 0 else rng.randint(0 if rng.random() < 0.2 else 1, r_out)
            ind = out[r_out - k:]
            chunks = [list(lab_chunks[l]) for l in ind]
            for a, l in enumerate(ind):
                if t > 0 and dims[l] > 1 and rng.random() < 0.15:
                    chunks[a] = [1]  # a broadcast axis
                elif t > 0 and rng.random() < 0.08:
                    chunks[a] = rand_chunks(rng, dims[l], use_zeros)  # other block boundaries (paired by position)
                elif t > 0 and rng.random() < 0.06:
                    chunks[a] = list(lab_chunks[l])  # as many blocks, other boundaries
                    rng.shuffle(chunks[a])
            case["ops"].append({"ind": ind, "chunks": chunks, "coef": rng.choice([1, 2, 3, -1]), "seed": rng.randrange(1000)})
        for l in out:  # `chunks=` adjusts every label
            case["adjust"][l] = gen_adjust(rng, None if rng.random() < 0.6 else "id", rng.choice(["tuple", "tuple", "int"]))
            if case["adjust"][l]["as"] == "callable":
                case["adjust"][l]["as"] = "tuple"
        if all(a["tf"] == "id" for a in case["adjust"].values()):
            case["adjust"][rng.choice(out)] = gen_adjust(rng, None, "tuple")
            for a in case["adjust"].values():
                if a["as"] == "callable":
                    a["as"] = "tuple"
        case["block_info"] = rng.random() < 0.07
        return case
    out2 = list(out)
    rng.shuffle(out2)
    case["out"] = out = out2
    case["align"] = rng.random() < 0.5
    contr = "x" if rng.random() < 0.12 else None
    if contr:
        dims[contr] = rng.choice([1, 2, 3])
        lab_chunks[contr] = rand_chunks(rng, dims[contr], use_zeros)
    for t in range(nops):
        if t == 0:
            ind = list(out)
            if rng.random() < 0.3:
                rng.shuffle(ind)
        else:
            k = rng.randint(0 if rng.random() < 0.12 else 1, r_out)
            ind = rng.sample(out, k)
        if contr and rng.random() < 0.6:
            ind.insert(rng.randrange(len(ind) + 1), contr)
        chunks = [list(lab_chunks[l]) for l in ind]
        for a, l in enumerate(ind):
            if t > 0 and l != contr and dims[l] > 1 and rng.random() < 0.15:
                chunks[a] = [1]
            elif t > 0 and rng.random() < 0.1:
                chunks[a] = rand_chunks(rng, dims[l], use_zeros)
            elif t > 0 and rng.random() < 0.12:
                chunks[a] = list(lab_chunks[l])  # as many blocks, other boundaries (operands still to be aligned)
                rng.shuffle(chunks[a])
        case["ops"].append({"ind": ind, "chunks": chunks, "coef": rng.choice([1, 2, 3, -1]), "seed": rng.randrange(1000)})
    if rng.random() < 0.2:
        case["ops"].insert(rng.randint(1, len(case["ops"])), {"ind": None, "lit": rng.choice([2, 3, -1])})
    labs = [l for l in out if rng.random() < 0.6] or [rng.choice(out)]
    for l in labs:
        case["adjust"][l] = gen_adjust(rng)
    if rng.random() < 0.1 and len(out) < 3:
        case["new_axes"] = {"n": rng.randint(1, 3)}
        out.insert(rng.randrange(len(out) + 1), "n")
    return case


def gen_axis_node(rng):
    """a 1-d node with arbitrary (also zero-width) output chunks over unit operand chunks: one axis of the loop"""
    nb = rng.randint(1, 5)
    oc = [rng.choice([0, 1, 1, 2, 3]) for _ in range(nb)]
    return {"crs": True, "kind": "axis", "out": ["i"], "align": False, "oc": oc,
            "ops": [{"ind": ["i"], "chunks": [[1] * nb], "coef": 1, "seed": rng.randrange(1000)}],
            "adjust": {"i": {"tf": "table", "as": "tuple"}}}


def rand_item(rng, n, oc):
    """one index entry for an axis of length `n` with chunks `oc`: int | [start, stop, step]"""
    r = rng.random()
    cum = [0] + [int(v) for v in np.cumsum(oc)]
    if n > 0 and r < 0.2:
        return rng.randrange(-n, n)
    if r < 0.28:
        return [None, None, None]
    if r < 0.5 and oc:  # block aligned
        f = rng.randrange(len(oc))
        l = rng.randrange(f, len(oc))
        a, b = cum[f], cum[l + 1]
        return [a if (a or rng.random() < 0.5) else None, b if (b < n or rng.random() < 0.5) else None, rng.choice([None, 1])]
    if r < 0.58:  # empty: inside, at the end, beyond, reversed
        a = rng.choice([rng.randint(0, n), n, n + 1, n + 3])
        return [a, rng.choice([a, a, max(a - 1, 0), None if a >= n else a]), rng.choice([None, 1])]
    # a non-empty range written with plain / negative / missing / over-range bounds, mostly unit step
    a = rng.randint(0, max(n - 1, 0))
    b = rng.randint(min(a + 1, n), n)
    sa = rng.choice([a, a, a - n if n else a, None if a == 0 else a])
    sb = rng.choice([b, b, b - n if b < n else None, None if b == n else b, b + 2 if b == n else b])
    step = rng.choice([None, 1, 1, 1, 1, 1, 2, -1])
    if step == -1:
        sa, sb = (sb if sb is None or sb < 0 else sb - 1), (None if a == 0 else a - 1 - (0 if rng.random() < 0.5 else n))
    return [sa, sb, step]


def gen_index(rng, chunks):
    nd = len(chunks)
    items = [rand_item(rng, sum(c), list(c)) for c in chunks]
    if nd > 1 and rng.random() < 0.5:  # one indexed axis, the others whole
        keep = rng.randrange(nd)
        items = [it if a == keep else [None, None, None] for a, it in enumerate(items)]
    if nd > 1 and rng.random() < 0.25:
        items = items[: rng.randint(1, nd)]
    if all(it == [None, None, None] for it in items):  # (the whole array is not an index expression: one more draw)
        a = rng.randrange(len(items))
        items[a] = rand_item(rng, sum(chunks[a]), list(chunks[a]))
    return items


def neighbour_indices(chunks):
    """the small domain searched around a disagreeing node"""
    out, nd = [], len(chunks)
    for ax, cs in enumerate(chunks):
        n = sum(cs)

        def at(item):
            it = [[None, None, None] for _ in range(nd)]
            it[ax] = item
            return it

        for k in range(n):
            out.append(at(k))
            out.append(at([k, None, None]))
            out.append(at([None, k, None]))
        cum = [0] + [int(v) for v in np.cumsum(cs)]
        for a, b in itertools.combinations(sorted(set(cum)), 2):
            out.append(at([a, b, None]))
    return out


def py_index(items):
    return tuple(it if isinstance(it, int) else slice(*it) for it in items)


def item_kind(it, n, oc):
    if isinstance(it, int):
        return "int" if it >= 0 else "negint"
    s = slice(*it)
    if s == slice(None):
        return "full"
    a, b, c = s.indices(n)
    if c != 1:
        return "step"
    if b <= a:
        return "empty"
    cum = {0} | {int(v) for v in np.cumsum(oc)}
    return "aligned" if (a in cum and b in cum) else "unaligned"


# ------------------------------------------------------------------------------------------ building

def data_of(shape, seed):
    n = int(np.prod(shape)) if shape else 1
    return ((np.arange(n, dtype=np.int64) * 7 + seed) % 23 - 5).reshape(shape)


def label_layout(case):
    """per label: the chunks of the INPUT blocks the block function sees (None when the API pairs differently
    chunked operands by position — no NumPy meaning is claimed then)"""
    lay, wild = {}, False
    for op in case["ops"]:
        if op["ind"] is None:
            continue
        for l, cs in zip(op["ind"], op["chunks"]):
            lay.setdefault(l, []).append(list(cs))
    out = {}
    for l, css in lay.items():
        dim = max(sum(cs) for cs in css)
        full = [cs for cs in css if not (sum(cs) == 1 and len(cs) == 1 and dim > 1)]
        if not full:
            out[l] = css[0]
        elif all(cs == full[0] for cs in full):
            out[l] = full[0]
        elif case["align"] and all(sum(cs) == dim for cs in full) and all(v > 0 for cs in full for v in cs):
            out[l] = refinement(full)
        else:
            # most blocks wins (what the tuple adjusters are sized for); values have no NumPy meaning
            best = None
            for cs in css:
                if best is None or len(cs) > len(best):
                    best = cs
            out[l] = best
            wild = True
    return out, wild


def np_expected(case, arrays, layout):
    acc, core = _combine(case, arrays)
    sh = [1] * len(core)
    for l, cs in layout.items():
        if l in core:
            sh[core.index(l)] = sum(cs)
    acc = np.broadcast_to(acc, sh)
    for l in core:
        if l in case["adjust"]:
            sp = case["adjust"][l]
            ax = core.index(l)
            cs = layout[l]
            starts = np.cumsum([0] + list(cs))[:-1]
            pieces = [tf_apply(sp["tf"], sp.get("k", 0), acc.take(np.arange(s, s + c), axis=ax), ax) for s, c in zip(starts, cs)]
            acc = np.concatenate(pieces, axis=ax)
    return np.ascontiguousarray(_stack_new(case, acc))


def build(case):
    """(dask collection, NumPy value of the un-indexed node or None when no NumPy meaning is claimed)"""
    import dask_array as da

    tt = lambda chunks: tuple(tuple(int(v) for v in c) for c in chunks)
    with warnings.catch_warnings():
        warnings.simplefilter("ignore")
        if case["kind"] == "axis":
            oc = [int(v) for v in case["oc"]]
            nb = len(oc)
            a = data_of([nb], case["ops"][0]["seed"])
            x = da.from_array(a, chunks=((1,) * nb,))
            # (the block function cannot know its block number: the value is only defined when the declared lengths agree)
            z = da.map_blocks(lambda b: np.repeat(b, oc[0], axis=0), x, dtype="i8", chunks=(tuple(oc),))
            want = np.repeat(a, oc[0]) if all(v == oc[0] for v in oc) else None
            return z, want
        layout, wild = label_layout(case)
        arrays, args = [], []
        for op in case["ops"]:
            if op["ind"] is None:
                arrays.append(op["lit"])
                continue
            a = data_of([sum(c) for c in op["chunks"]], op["seed"])
            arrays.append(a)
        f = make_func(case)
        if case["kind"] == "map_blocks":
            das = [da.from_array(a, chunks=tt(op["chunks"])) for op, a in zip(case["ops"], arrays)]
            chunks = tuple(make_adjuster(case["adjust"][l], layout.get(l)) for l in case["out"])
            z = da.map_blocks(f, *das, dtype="i8", chunks=chunks)
        else:
            for op, a in zip(case["ops"], arrays):
                if op["ind"] is None:
                    args += [a, None]
                else:
                    args += [da.from_array(a, chunks=tt(op["chunks"])), "".join(op["ind"])]
            adjust = {l: make_adjuster(sp, layout.get(l)) for l, sp in case["adjust"].items()}
            z = da.blockwise(f, "".join(case["out"]), *args, dtype="i8", adjust_chunks=adjust, align_arrays=case["align"],
                             new_axes=dict(case.get("new_axes") or {}) or None)
        want = None
        if not wild:
            try:
                want = np_expected(case, arrays, layout)
            except _Skip:
                raise
            except Exception:  # noqa: BLE001 - shapes that do not combine: no NumPy meaning
                want = None
        return z, want


def the_blockwise(z):
    from dask_array._blockwise import Blockwise

    e = z.expr
    if type(e) is Blockwise:
        return e
    for n in e.walk():
        if type(n) is Blockwise:
            return n
    raise _Skip("no generic Blockwise")


def has_zero_operand_chunk(case):
    return any(v == 0 for op in case["ops"] if op.get("ind") is not None for c in op["chunks"] for v in c)


def zero_on_sliced_adjusted(case, items):
    """a zero-width chunk in some operand on an adjusted label whose axis is indexed"""
    for ax, l in enumerate(case["out"]):
        if l not in case["adjust"]:
            continue
        if ax >= len(items) or (not isinstance(items[ax], int) and slice(*items[ax]) == slice(None)):
            continue
        for op in case["ops"]:
            if op.get("ind") is None:
                continue
            for ol, cs in zip(op["ind"], op["chunks"]):
                if ol == l and any(v == 0 for v in cs):
                    return True
    return False


# ------------------------------------------------------------------------------------------ encoding

def _int_chunks(chunks):
    out = []
    for c in chunks:
        row = []
        for v in c:
            if isinstance(v, float) and np.isnan(v):
                raise _Skip("unknown chunks")
            row.append(int(v))
        out.append(tuple(row))
    return tuple(out)


def node_token(node):
    """(token, label map)"""
    labels = {}

    def lab(x):
        if x not in labels:
            labels[x] = len(labels)
        return labels[x]

    out = [lab(l) for l in node.out_ind]
    ops, maxc = [], 1
    for arg, ind in zip(node.args[::2], node.args[1::2]):
        if ind is None:
            ops.append("L")
            continue
        kind = "A" if hasattr(arg, "_meta") else "D"
        chunks = _int_chunks(arg.chunks)
        if len(chunks) != len(ind):
            raise _Skip("rank of an operand")
        maxc = max([maxc] + [v for c in chunks for v in c])
        ops.append(f"{kind}~{f_list([lab(i) for i in ind])}~{f_ll(chunks)}")
    na = []
    for k, v in (node.new_axes or {}).items():
        v = tuple(v) if isinstance(v, (tuple, list)) else (v,)
        maxc = max([maxc] + [int(q) for q in v])
        na.append((lab(k), f"{lab(k)}={f_list(v)}"))
    adj = []
    for k, v in (node.adjust_chunks or {}).items():
        adj.append((lab(k), adjust_token(v, maxc)))
    tok = "/".join([f_list(out), "|".join(ops),
                    "+".join(f"{k}={v}" for k, v in sorted(adj)) or "-", "+".join(v for _, v in sorted(na)) or "-"])
    if " " in tok:
        raise _Skip("token")
    return tok, labels


def adjust_token(v, maxc=None):
    if callable(v):
        if maxc is None:
            return "f"
        return "f" + ",".join(f"{c}.{int(v(c))}" for c in range(maxc + 1))
    if isinstance(v, numbers.Integral):
        return f"c{int(v)}"
    if isinstance(v, (tuple, list)):
        return "t" + f_list(v)
    raise _Skip("adjuster " + type(v).__name__)


def index_token(index):
    if not index:
        return "_"
    return ",".join(f_slice(i) if isinstance(i, slice) else str(int(i)) for i in index)


# ------------------------------------------------------------------------------------------ the real functions

def real_find_block_range():
    """the nested `find_block_range` of `Blockwise._accept_slice_coarse` as a function (None when not found)"""
    from dask_array._blockwise import Blockwise

    try:
        for c in Blockwise._accept_slice_coarse.__code__.co_consts:
            if isinstance(c, types.CodeType) and c.co_name == "find_block_range":
                if c.co_freevars:
                    return None, c
                return types.FunctionType(c, {"np": np, "__builtins__": __builtins__}), c
    except Exception:  # noqa: BLE001
        pass
    return None, None


def call_coarse(node, e, full_index):
    """the real method; returns (result, [values `find_block_range` returned, in call order])"""
    _, code = real_find_block_range()
    got = []

    def prof(frame, event, arg):
        if event == "return" and (frame.f_code is code if code is not None else frame.f_code.co_name == "find_block_range"):
            got.append(arg)

    old = sys.getprofile()
    sys.setprofile(prof)
    try:
        res = node._accept_slice_coarse(e, tuple(full_index), node.adjust_chunks)
    finally:
        sys.setprofile(old)
    return res, got


def axis_ranges(node, full_index, got):
    """`block_ranges` per axis: the values the real `find_block_range` returned, in the order the real loop asks"""
    brs, k = [], 0
    for idx in full_index:
        if isinstance(idx, slice) and idx == slice(None):
            brs.append(None)
            continue
        if k >= len(got) or not isinstance(got[k], tuple) or got[k][0] is None:
            raise _Skip("block ranges not observable")
        brs.append((int(got[k][0]), int(got[k][1])))
        k += 1
    if k != len(got):
        raise _Skip("block ranges not observable")
    return brs


def fmt_adj(i):
    if isinstance(i, slice):
        if i == slice(None):
            return ":"
        if i.step not in (None, 1) or i.start is None or i.stop is None:
            raise _Skip("unexpected adjustment " + repr(i))
        return f"{int(i.start)}:{int(i.stop)}"
    return str(int(i))


def impl_accept(node, labels, e, full_index):
    """canonical outputs of the real `_accept_slice_coarse`: (`crs.accept` line, `crs.rewritten` line, decision)"""
    from dask_array._blockwise import Blockwise
    from dask_array.slicing import SliceSlicesIntegers

    try:
        res, got = call_coarse(node, e, full_index)
    except Exception as ex:  # noqa: BLE001
        return err_name(ex), err_name(ex), "raises"
    if res is None:
        return "ok decline", "ok decline", "decline"
    inner, top = res, 0
    adj = [":"] * len(full_index)
    if isinstance(res, SliceSlicesIntegers):
        inner, top = res.array, 1
        if len(res.index) != len(full_index):
            raise _Skip("rank of the top index")
        adj = [fmt_adj(i) for i in res.index]
    if type(inner) is not Blockwise:
        raise _Skip("unexpected result " + type(inner).__name__)
    brs = axis_ranges(node, full_index, got)
    out_ind = tuple(node.out_ind)
    parts = []
    pairs = list(zip(node.args[::2], node.args[1::2]))
    if len(inner.args) != len(node.args):
        raise _Skip("operand count changed")
    for (arg, ind), na, nind in zip(pairs, inner.args[::2], inner.args[1::2]):
        if ind is None:
            parts.append("N" if nind is None else "?")
            continue
        if tuple(nind) != tuple(ind):
            raise _Skip("operand labels changed")
        if len(ind) == 0:
            parts.append("-")
            continue
        shape = [sum(c) for c in _int_chunks(arg.chunks)]
        if na is arg or na._name == arg._name:
            sl = [slice(None)] * len(ind)
        elif isinstance(na, SliceSlicesIntegers) and na.array._name == arg._name:
            sl = list(na.index) + [slice(None)] * (len(ind) - len(na.index))
            if any(not isinstance(s, slice) for s in sl):
                raise _Skip("integer in an operand index")
        else:
            raise _Skip("unexpected operand form " + type(na).__name__)
        ax_parts = []
        for l, s, dim in zip(ind, sl, shape):
            a, b, c = s.indices(dim)
            if c != 1:
                raise _Skip("stepped operand slice")
            whole = (a, b) == (0, dim)
            planned = l in out_ind and brs[out_ind.index(l)] is not None
            # the model prints the numbers whenever the label's axis has a block range, `:` otherwise
            ax_parts.append(f"{a}:{b}" if (planned or not whole) else ":")
        parts.append(",".join(ax_parts))
    new_adj = inner.operand("adjust_chunks") or {}
    adj_parts = sorted((labels[k] if k in labels else 10 ** 6, adjust_token(v)) for k, v in new_adj.items())
    line = ("ok br=" + (";".join("*" if b is None else f"{b[0]}-{b[1]}" for b in brs) or "_")
            + " adj=" + (";".join(adj) or "_") + " ops=" + ("|".join(parts) or "_")
            + " adjust=" + ("+".join(f"{k}={v}" for k, v in adj_parts) or "-") + f" top={top}")
    try:
        ic = _int_chunks(inner.chunks)
    except ValueError:
        return line, "err ValueError", f"coarse-top{top}"
    except _Skip:
        raise
    except Exception as ex:  # noqa: BLE001
        return line, err_name(ex), f"coarse-top{top}"
    try:
        tc = _int_chunks(res.chunks)
    except _Skip:
        raise
    except Exception as ex:  # noqa: BLE001
        return line, err_name(ex), f"coarse-top{top}"
    return line, "ok " + f_ll(ic) + " " + f_ll(tc), f"coarse-top{top}"


def routes_to_coarse(node, e):
    """does the real `_accept_slice` hand this index to the coarse path?"""
    from dask_array._blockwise import Blockwise

    called = []
    orig = Blockwise._accept_slice_coarse

    def spy(self, *a, **k):
        called.append(1)
        return None

    Blockwise._accept_slice_coarse = spy
    try:
        node._accept_slice(e)
    except Exception:  # noqa: BLE001
        return None
    finally:
        Blockwise._accept_slice_coarse = orig
    return bool(called)


def chunks_rule_in_force(node):
    """`Blockwise.chunks` follows the model's rule: align_arrays off, or all operands agree on every shared label"""
    if not node.align_arrays:
        return True
    seen = {}
    for arg, ind in zip(node.args[::2], node.args[1::2]):
        if ind is None:
            continue
        for l, c in zip(ind, arg.chunks):
            if seen.setdefault(l, tuple(c)) != tuple(c):
                return False
    return True


def raw_item(rng, n):
    """an un-normalised index entry (what `_accept_slice_coarse` accepts when called directly)"""
    r = rng.random()
    if r < 0.3:
        return rng.randint(-n - 2, n + 1)
    if r < 0.4:
        return slice(None)
    pick = lambda: rng.choice([None, rng.randint(-n - 2, n + 2), rng.randint(0, n)])
    return slice(pick(), pick(), rng.choice([None, 1, 1, 1, 2, -1]))


def corr_requests(ctx, case, z, items):
    """[(request, impl output)] for one node and one index (`items` None: only the node-level requests)"""
    from dask_array._new_collection import new_collection
    from dask_array.slicing import SliceSlicesIntegers

    node = the_blockwise(z)
    tok, labels = node_token(node)
    reqs = []
    rule = chunks_rule_in_force(node)
    try:
        oc = _int_chunks(node.chunks)
        chunks_line = "ok " + f_ll(oc)
    except ValueError:
        oc, chunks_line = None, "err ValueError"
    if rule:
        reqs.append((f"crs.chunks {tok}", chunks_line))
    if oc is None or items is None or not oc:
        return reqs
    nd = len(oc)
    zc = new_collection(node)
    todo = []
    try:
        e = zc[py_index(items)].expr
        if isinstance(e, SliceSlicesIntegers) and e.array._name == node._name and not any(i is None for i in e.index):
            full = tuple(e.index) + (slice(None),) * (nd - len(e.index))
            routed = routes_to_coarse(node, e)
            ctx.count(("crs", "routed-by-_accept_slice", routed))
            todo.append((e, full, "normalised"))
        else:
            _note(ctx, "crs.index_not_slice")
    except (IndexError, ValueError):
        _note(ctx, "crs.index_refused")
    # the same entries un-normalised, and a raw index, handed to the method directly
    holder = SliceSlicesIntegers(node, (slice(0, 1),) + (slice(None),) * (nd - 1), False)
    rawfull = tuple(py_index(items)) + (slice(None),) * (nd - len(items))
    if all(not (isinstance(i, slice) and i.step == 0) for i in rawfull):
        todo.append((holder, rawfull, "raw"))
    if ctx.rng.random() < 0.5:
        rr = tuple(raw_item(ctx.rng, sum(c)) for c in oc)
        todo.append((holder, rr, "raw"))
    for e, full, how in todo:
        line, rew, decision = impl_accept(node, labels, e, full)
        it = index_token(full)
        reqs.append((f"crs.accept {tok} {f_ll(oc)} {it}", line))
        if rule:
            reqs.append((f"crs.rewritten {tok} {f_ll(oc)} {it}", rew))
        if nd == 1:
            if decision == "decline" and case["kind"] == "axis":  # (other nodes also decline because of their operands)
                reqs.append((f"crs.axis {f_list(oc[0])} {it}", "ok decline"))
            elif decision.startswith("coarse"):
                f = dict(p.split("=", 1) for p in line.split()[1:])
                reqs.append((f"crs.axis {f_list(oc[0])} {it}", f"ok {f['br']} {f['adj']}"))
        ctx.count(("crs", case["kind"], len(case["ops"]), tuple(sorted({a["as"] for a in case["adjust"].values()})), how,
                   tuple(sorted({item_kind(i if isinstance(i, int) else [i.start, i.stop, i.step], sum(c), c)
                                 for i, c in zip(full, oc)})), decision))
    return reqs


def fbr_requests(ctx, n):
    fn, _ = real_find_block_range()
    if fn is None:
        ctx.notes["crs.find_block_range"] = "not extractable (skipped)"
        return []
    rng = ctx.rng
    reqs = []
    for _ in range(n):
        cs = [rng.choice([0, 0, 1, 1, 2, 3, 4]) for _ in range(rng.randint(1, 6))]
        cum = [0] + [int(v) for v in np.cumsum(cs)]
        tot = cum[-1]
        a = rng.choice([rng.randint(-2, tot + 2), rng.choice(cum)])
        b = rng.choice([rng.randint(-2, tot + 3), rng.choice(cum), a, a + 1])
        try:
            first, last = fn(np.array(cum), a, b)
            impl = "ok N" if first is None else f"ok {int(first)} {int(last)}"
        except Exception as ex:  # noqa: BLE001
            impl = err_name(ex)
        reqs.append((f"crs.fbr {f_list(cum)} {a} {b}", impl))
    return reqs


def opchunks_requests(ctx, n):
    import dask_array as da

    rng = ctx.rng
    reqs = []
    for _ in range(n):
        ic = [rng.choice([0, 0, 1, 1, 2, 3]) for _ in range(rng.randint(1, 6))]
        cum = [0] + [int(v) for v in np.cumsum(ic)]
        f = rng.randrange(len(ic))
        l = rng.randrange(f, len(ic))
        a, b = cum[f], cum[l + 1]
        try:
            with warnings.catch_warnings():
                warnings.simplefilter("ignore")
                x = da.from_array(np.arange(cum[-1]), chunks=(tuple(ic),))
                impl = "ok " + f_list(x[a:b].chunks[0])
        except Exception as ex:  # noqa: BLE001
            impl = err_name(ex)
        reqs.append((f"crs.opchunks {f_list(ic)} {a} {b}", impl))
    return reqs


def branch_key(req, model):
    cmd = req.split()[0]
    m = model.split()
    if cmd in ("crs.accept", "crs.rewritten", "crs.chunks"):
        tok = req.split()[1].split("/")
        nops = tok[1].count("|") + 1
        kinds = "".join(sorted({o[0] for o in tok[1].split("|") if o}))
        adj = "".join(sorted({p.split("=")[1][0] for p in tok[2].split("+") if "=" in p}))
        if cmd == "crs.accept" and len(m) > 5:
            shape = (m[5], "".join(sorted({("i" if ":" not in a and a != ":" else ("r" if a != ":" else ":")) for a in m[2][4:].split(";")})),
                     "".join(sorted({("*" if b == "*" else "b") for b in m[1][3:].split(";")})))
        else:
            shape = " ".join(m[:2])[:24] if cmd != "crs.chunks" else m[0]
        return (cmd, nops, kinds, adj, tok[3] != "-", shape)
    if cmd == "crs.fbr":
        return (cmd, "N" if m[-1] == "N" else ("empty" if len(m) == 3 and int(m[2]) < int(m[1]) else "range"), len(req.split()[1]) // 4)
    if cmd == "crs.axis":
        return (cmd, m[1] if len(m) > 1 and m[1] in ("decline", "*") else "range", (":" if m[-1] == ":" else ("r" if ":" in m[-1] else "i")))
    return (cmd, model[:12], len(req) // 6)


# ------------------------------------------------------------------------------------------ end-to-end

def compute(r, optimize):
    import dask

    with warnings.catch_warnings():
        warnings.simplefilter("ignore")
        with dask.config.set({"array.optimize-graph": optimize}):
            return np.asarray(r.compute(scheduler="sync"))


def blockwise_eval(expr):
    """(value, text or None): the simplified expression computed block by block; every block must have the shape its
    expression advertises"""
    import dask
    from dask._expr import Expr

    from harness.props_ext import rawfree

    with warnings.catch_warnings():
        warnings.simplefilter("ignore")
        low = expr.simplify().lower_completely()
        chunks = low.chunks
        dsk = Expr.__dask_graph__(low)
        blocks = dask.get(dsk, low.__dask_keys__())
        bad = None
        for bid in itertools.product(*[range(len(c)) for c in chunks]):
            b = blocks
            for k in bid:
                b = b[k]
            while isinstance(b, (list, tuple)) and len(b) == 1 and not bid:  # the key list of a 0-d result
                b = b[0]
            want = tuple(int(c[k]) for c, k in zip(chunks, bid))
            if tuple(np.asarray(b).shape) != want and bad is None:
                bad = f"block {bid} of the simplified expression has shape {tuple(np.asarray(b).shape)}, advertised {want}"
        return rawfree.assemble(blocks, low.ndim), bad


def check_api(ctx, case, z=None, want=None):
    """None when the property holds (or the API refuses the program at construction), else (signature, text)"""
    from harness.props_ext import rawfree

    try:
        if z is None:
            z, want = build(case)
        if want is None:
            return None
        pi = py_index(case["index"])
        want_i = want[pi]
        with warnings.catch_warnings():
            warnings.simplefilter("ignore")
            r = z[pi]
    except _Skip:
        raise
    except Exception as e:  # noqa: BLE001 - refused at construction: not wrong data
        _note(ctx, "crs.refused_at_construction", repr(e))
        return None
    res = {}
    for name, fn in (("optimized", lambda: compute(r, True)), ("unoptimized", lambda: compute(r, False)),
                     ("rewrite-free", lambda: rawfree.raw_eval(r.expr))):
        try:
            res[name] = np.asarray(fn())
        except Exception as e:  # noqa: BLE001
            res[name] = e
    block_text = None
    try:
        res["blocks"], block_text = blockwise_eval(r.expr)
    except Exception as e:  # noqa: BLE001
        res["blocks"] = e
    ok = lambda g: not isinstance(g, Exception) and g.shape == want_i.shape and np.array_equal(g, want_i)
    show = lambda g: repr(g)[:160] if isinstance(g, Exception) else f"{g.shape} {g.ravel()[:10].tolist()}"
    wanted = f"NumPy {want_i.shape} {want_i.ravel()[:10].tolist()}"
    advertised = None
    try:
        if tuple(r.shape) != want_i.shape or tuple(sum(c) for c in r.chunks) != want_i.shape:
            advertised = f"advertised shape {tuple(r.shape)} / chunks {r.chunks} vs NumPy shape {want_i.shape}"
    except Exception as e:  # noqa: BLE001
        advertised = f"advertised chunks raise {e!r}"[:200]
    if all(ok(res[k]) for k in res) and advertised is None and block_text is None:
        return None
    zero = zero_on_sliced_adjusted(case, case["index"])
    op, un, raw, blk = res["optimized"], res["unoptimized"], res["rewrite-free"], res["blocks"]
    if not ok(op) or not ok(blk):
        bad = op if not ok(op) else blk
        which = "optimized" if not ok(op) else "simplified, block by block"
        if isinstance(bad, Exception):
            sig, text = SIG_RAISES, (f"the node computes the NumPy value, its index raises ({which}) {bad!r}; unoptimized: {show(un)}; "
                                     f"rewrite-free: {show(raw)}")
        elif ok(raw):
            sig, text = SIG_VALUES, f"{which} {show(bad)} vs {wanted}"
        else:
            sig, text = SIG_UNOPT, f"rewrite-free {show(raw)} and {which} {show(bad)} vs {wanted}"
    elif not ok(un):
        sig, text = SIG_UNOPT, f"unoptimized {show(un)} vs {wanted} (rewrite-free: {show(raw)})"
    elif not ok(raw):
        sig, text = SIG_UNOPT, f"rewrite-free {show(raw)} vs {wanted}"
    else:
        sig, text = SIG_VALUES, (advertised or block_text)
    if zero:
        sig = SIG_ZERO
        text = "zero-width operand chunk on a sliced adjusted label: " + text
    return sig, text[:400]


def baseline(z, want):
    """the un-indexed node computes the NumPy value with the advertised shape"""
    if want is None:
        return False
    try:
        base = compute(z, False)
        return tuple(z.shape) == want.shape and base.shape == want.shape and np.array_equal(base, want)
    except Exception:  # noqa: BLE001
        return False


def class_key(case, items=None, chunks=None):
    adj = tuple(sorted((a["tf"], a["as"]) for a in case["adjust"].values()))
    nlit = sum(1 for o in case["ops"] if o.get("ind") is None)
    kinds = ()
    if items is not None and chunks is not None:
        kinds = tuple(sorted({item_kind(it, sum(c), list(c)) for it, c in zip(items, chunks)}))
    return ("crs", "e2e", case["kind"], len(case["ops"]) - nlit, nlit, case["align"], adj, has_zero_operand_chunk(case), kinds)


KNOWN_PROBES = [
    # regression probes of the repaired zero-width-operand-chunk defect (commit 978baf4): they must compute the NumPy value
    # x = from_array(arange(6), chunks=((1,2,0,3),)); map_blocks(per-block sum, x, chunks=((1,1,1,1),))[1:3]
    {"crs": True, "kind": "map_blocks", "out": ["i"], "align": False, "block_info": False,
     "ops": [{"ind": ["i"], "chunks": [[1, 2, 0, 3]], "coef": 1, "seed": 5}],
     "adjust": {"i": {"tf": "sum", "as": "tuple"}}, "index": [[1, 3, None]]},
    # blockwise(per-block sum keepdims, 'i', x, 'i', adjust_chunks={'i': 1})[1:3]
    {"crs": True, "kind": "blockwise", "out": ["i"], "align": True,
     "ops": [{"ind": ["i"], "chunks": [[1, 2, 0, 3]], "coef": 1, "seed": 5}],
     "adjust": {"i": {"tf": "sum", "as": "int"}}, "index": [[1, 3, None]]},
    # the empty block OUTSIDE the kept range, the whole-block slice spans the whole axis: chunks (0,2,3), [0:2]
    {"crs": True, "kind": "blockwise", "out": ["i"], "align": False,
     "ops": [{"ind": ["i"], "chunks": [[0, 2, 3]], "coef": 1, "seed": 7}],
     "adjust": {"i": {"tf": "sum", "as": "int"}}, "index": [[0, 2, None]]},
    # the empty block at the border: chunks (1,0), tuple adjuster, integer index -1
    {"crs": True, "kind": "blockwise", "out": ["i"], "align": True,
     "ops": [{"ind": ["i"], "chunks": [[1, 0]], "coef": 1, "seed": 3}],
     "adjust": {"i": {"tf": "head", "as": "tuple", "k": 1}}, "index": [-1]},
    {"crs": True, "kind": "map_blocks", "out": ["i"], "align": False, "block_info": False,
     "ops": [{"ind": ["i"], "chunks": [[0, 1]], "coef": 1, "seed": 3}],
     "adjust": {"i": {"tf": "sum", "as": "tuple"}}, "index": [1]},
    # regression probe of the repaired unaligned-operands defect (commit c36af38; found by the thorough tier, seed 1):
    # operands with equal block counts and other boundaries on a sliced label ((2,2,3) vs (3,3,1), align_arrays=True)
    {"crs": True, "kind": "blockwise", "out": ["j", "n", "i"], "align": True,
     "adjust": {"j": {"tf": "resize", "as": "callable", "k": 2}, "i": {"tf": "repeat", "as": "callable"}},
     "ops": [{"ind": ["j", "i"], "chunks": [[1], [2, 2, 3]], "coef": -1, "seed": 790},
             {"ind": [], "chunks": [], "coef": 1, "seed": 858},
             {"ind": ["i", "j"], "chunks": [[3, 3, 1], [1]], "coef": 3, "seed": 486}],
     "new_axes": {"n": 1}, "index": [[0, None, 1], [None, 1, None], [3, 5, 1]]},
]


def probe_known(ctx):
    """regression probes: the minimal inputs of the repaired zero-width-operand-chunk (978baf4) and unaligned-operands
    (c36af38) defects must pass"""
    for case in KNOWN_PROBES:
        try:
            z, want = build(case)
            if not baseline(z, want):
                _note(ctx, "crs.probe_outside", repr(case)[:160])
                continue
            ctx.count(("crs", "probe", case["kind"]))
            f = check_api(ctx, case, z, want)
            if f:
                ctx.fail(f[0], case, f[1])
        except Exception as e:  # noqa: BLE001 - a harness-side problem is never an alarm
            _note(ctx, "crs.check_error", repr(e))


def replay_case(ctx, case):
    case = {k: v for k, v in case.items() if not k.startswith("_")}
    z, want = build(case)
    ctx.count(class_key(case))
    if not baseline(z, want):
        ctx.notes["crs.replay"] = "the un-indexed node does not compute the NumPy value: outside the property"
        return
    f = check_api(ctx, case, z, want)
    if f:
        ctx.fail(f[0], case, f[1])


def run(ctx, replay=None):
    if replay is not None:
        return replay_case(ctx, replay["case"])
    t0 = ctx.elapsed()
    probe = ctx.driver.run(["crs.fbr 0,1,3 1 2"])
    tdrv = ctx.elapsed() - t0
    have_driver = bool(probe) and probe[0].startswith("ok")
    if not have_driver:
        ctx.notes["crs_driver"] = "not available in this build"
    rng = ctx.rng
    ctx.assumptions.append(
        "coarse slice pushdown through a Blockwise with adjust_chunks (Props/C02Coarse, Props/C03Coarse, crs.*): the theorems "
        "cover BLOCK-TO-BLOCK functions (the task of an output block sees only the blocks with its block index, and produces "
        "the advertised extent) on nodes with known chunk sizes and chunks >= 0; that slicing an operand to whole blocks keeps "
        "exactly those blocks (`keepsAll`) is DERIVED from the rule having fired (every sliced operand axis passed the "
        "`0 in arg.chunks` decline of commit 978baf4, modelled in `opAxisSlice`); align_arrays=True nodes are assumed to have "
        "their operands already in the unified layout (`Blockwise.chunks` is modelled by the align_arrays=False rule 'most "
        "blocks wins'; nodes whose operands disagree under align_arrays=True are compared on the decision only); what the user "
        "function computes, unknown chunks and subclasses of Blockwise are outside the model and covered by this search only"
    )
    probe_known(ctx)
    n = ctx.scale(120, 1200)
    budget = ctx.scale(11.0, 110.0)
    pairs, owners = [], []

    def add(reqs, owner):
        for rq in reqs:
            pairs.append(rq)
            owners.append(owner)

    def corr(case, z, items):
        if not have_driver:
            return
        try:
            add(corr_requests(ctx, case, z, items), dict(case, index=items) if items is not None else case)
        except _Skip as e:
            _note(ctx, "crs.corr_skipped", e)
        except Exception as e:  # noqa: BLE001 - an unexpected expression layout is "outside", never an alarm
            _note(ctx, "crs.corr_error", repr(e))

    nsearch = 0
    for i in range(n):
        if ctx.elapsed() - t0 - tdrv > budget:
            ctx.notes["crs.stopped_early_at_node"] = i
            break
        case = gen_node(rng, zeros=True)
        try:
            z, want = build(case)
            node = the_blockwise(z)
        except _Skip:
            continue
        except Exception as e:  # noqa: BLE001 - the API refuses the node
            _note(ctx, "crs.node_refused", repr(e))
            continue
        try:
            zch = [list(c) for c in _int_chunks(node.chunks)]
        except Exception:  # noqa: BLE001 - `.chunks` of an inconsistent node raises (the model says so too)
            corr(case, z, None)
            continue
        searchable = want is not None and (SEARCH_ZERO_WIDTH_OPERANDS or not has_zero_operand_chunk(case))
        inside = searchable and node._name == z.expr._name and baseline(z, want)
        if want is not None and searchable and not inside:
            _note(ctx, "crs.node_outside")
        for rep in range(3):
            items = gen_index(rng, zch)
            c = dict(case, index=items)
            f = None
            if inside and (rep < 2 or i % 2 == 0):
                nsearch += 1
                ctx.count(class_key(c, items, zch))
                try:
                    f = check_api(ctx, c, z, want)
                except _Skip:
                    f = None
                except Exception as e:  # noqa: BLE001 - a harness-side problem is never an alarm
                    f = None
                    _note(ctx, "crs.check_error", repr(e))
            if f:
                ctx.fail(f[0], c, f[1])
            corr(case, z, items)
        if i < 2:
            ctx.sample({"coarse_slice_case": dict(case, index=items)})
    ctx.notes["crs.searched"] = nsearch
    # one axis of the loop on arbitrary output chunks
    if have_driver:
        for _ in range(ctx.scale(100, 1000)):
            case = gen_axis_node(rng)
            try:
                z, _w = build(case)
                zch = [list(case["oc"])]
                items = [rand_item(rng, sum(case["oc"]), case["oc"])]
            except Exception as e:  # noqa: BLE001
                _note(ctx, "crs.node_refused", repr(e))
                continue
            corr(case, z, items)
        add(fbr_requests(ctx, ctx.scale(250, 2500)), None)
        add(opchunks_requests(ctx, ctx.scale(60, 600)), None)
    if pairs:
        n0 = len(ctx.disagreements)
        seen, uniq, uown = set(), [], []
        for p, o in zip(pairs, owners):
            if p[0] not in seen:
                seen.add(p[0])
                uniq.append(p)
                uown.append(o)
        t1 = ctx.elapsed()
        ctx.correspond(FAM, uniq, branch_key)
        tdrv += ctx.elapsed() - t1
        by_req = {p[0]: o for p, o in zip(uniq, uown)}
        nlift = 0
        for d in ctx.disagreements[n0:]:
            c = by_req.get(d["request"])
            if c is None:
                continue
            d["case"] = {k: v for k, v in c.items() if not k.startswith("_")}
            # targeted search: the disagreeing node under a family of indices
            try:
                if nlift >= ctx.scale(8, 40):
                    continue
                z, want = build(c)
                if not baseline(z, want):
                    continue
                if not SEARCH_ZERO_WIDTH_OPERANDS and has_zero_operand_chunk(c):
                    continue
                nlift += 1
                zch = [list(x) for x in z.chunks]
                for items in neighbour_indices(zch)[: ctx.scale(60, 300)]:
                    cc = dict(c, index=items)
                    ctx.count(("crs", "lifted", cc["kind"]))
                    f = check_api(ctx, cc, z, want)
                    if f:
                        ctx.fail(f[0], cc, f[1])
                        break
            except Exception:  # noqa: BLE001
                pass
        ctx.notes["targeted_search"] = ("disagreeing adjust_chunks nodes recomputed under every integer, one-sided cut and block-aligned "
                                        "slice per axis: optimized, unoptimized, rewrite-free and block by block vs NumPy")
    ctx.notes["crs.zero_width_operands_in_search"] = SEARCH_ZERO_WIDTH_OPERANDS
    ctx.notes["crs.seconds"] = round(ctx.elapsed() - t0, 1)
    ctx.notes["crs.seconds_driver"] = round(tdrv, 1)
